----------------------------- MODULE EzspCmdMC ------------------------------
(* C06 on the specification: N concurrent callers of mixed priority, per-    *)
(* command NCP behaviour (reply, late reply, no reply, duplicate reply,      *)
(* reply under another number, callbacks), link-level send failure or delay, *)
(* caller cancellation at every await, sequence numbers wrapping (SeqM).   *)
EXTENDS EzspCmd, TLC

CONSTANTS Cmds,       \* commands the callers issue, e.g. {"nop", "getNodeId", "sendUnicast"}
          NCalls,     \* number of calls
          MaxCancel,
          MaxReplies  \* answers the NCP may give per request (2 = duplicates)

VARIABLES p, ncall, ncp, res, ncanc, ncb, inflight, lastseq, seqok
vars == <<p, ncall, ncp, res, ncanc, ncb, inflight, lastseq, seqok>>
(* ncp     : requests the NCP has received and may still answer  {[seq, cmd, c, n]} (n = answers given) *)
(* res     : call -> outcome record                                                                    *)
(* lastseq : sequence number of the last request sent (SeqM = none yet); seqok : all steps were +1     *)
now == 0

Init == /\ p = PInit /\ ncall = 0 /\ ncp = {} /\ res = [c \in 1 .. NCalls |-> [res |-> "none", val |-> 0]]
        /\ ncanc = 0 /\ ncb = 0 /\ inflight = {} /\ lastseq = SeqM /\ seqok = TRUE

RECURSIVE SeqStep(_, _, _)
SeqStep(last, ok, sents) == IF sents = <<>> THEN <<last, ok>>
                            ELSE SeqStep(Head(sents).seq, ok /\ (last = SeqM \/ Head(sents).seq = (last + 1) % SeqM), Tail(sents))

Apply(r, answered) ==
    /\ p' = r.p
    /\ LET sents == SelectSeq(r.out, LAMBDA o : o.o = "sent")
           dones == SelectSeq(r.out, LAMBDA o : o.o = "done")
           cs    == SelectSeq(r.out, LAMBDA o : o.o = "cb")
           ss    == SeqStep(lastseq, seqok, sents)
       IN /\ ncp' = (ncp \ answered) \cup {[rq EXCEPT !.n = rq.n + 1] : rq \in answered}
                        \cup {[seq |-> sents[i].seq, cmd |-> sents[i].cmd, c |-> sents[i].c, n |-> 0] : i \in 1 .. Len(sents)}
          /\ res' = [c \in 1 .. NCalls |->
                       IF \E i \in 1 .. Len(dones) : dones[i].c = c
                       THEN LET d == CHOOSE d \in {dones[i] : i \in 1 .. Len(dones)} : d.c = c IN [res |-> d.res, val |-> d.val]
                       ELSE res[c]]
          /\ ncb' = ncb + Cardinality({i \in 1 .. Len(cs) : cs[i].val = 99})
          /\ lastseq' = ss[1] /\ seqok' = ss[2]
          /\ inflight' = (inflight \cup {sents[i].c : i \in 1 .. Len(sents)}) \ {dones[i].c : i \in 1 .. Len(dones)}

Modes == {<<>>, <<"fail">>, <<"hang">>}
Call(cmd, m) == /\ ncall < NCalls /\ ncall' = ncall + 1
                /\ Apply(CallFn(p, ncall + 1, cmd, m, now), {})
                /\ UNCHANGED <<ncanc>>
SendRes(ok, m) == /\ p.hold.c # 0 /\ p.hold.ph = "sending"
                  /\ Apply(SendResFn(p, ok, m, now), {}) /\ UNCHANGED <<ncall, ncanc>>
Timeout(m) == /\ TimeoutEnabled(p)
              /\ Apply(TimeoutFn(p, m, now), {}) /\ UNCHANGED <<ncall, ncanc>>
Cancel(c, m) == /\ c \in 1 .. ncall /\ res[c].res = "none" /\ ncanc < MaxCancel /\ ncanc' = ncanc + 1
                /\ Apply(CancelFn(p, c, m, now), {}) /\ UNCHANGED <<ncall>>
(* the NCP answers a request it has received (at most twice), possibly late, possibly under the wrong number *)
Reply(rq, delta, m) ==
    /\ rq \in ncp /\ rq.n < MaxReplies
    (* a misnumbered answer that hits the pending request of the same command IS that request's answer *)
    (* for any implementation; the quantifier means numbers that do not name such a request            *)
    /\ delta # 0 => LET s == (rq.seq + delta) % SeqM IN
                       ~(s \in DOMAIN p.aw /\ p.aw[s].live /\ p.aw[s].cmd = rq.cmd)
    /\ \E alt \in FrameAlts(p, [seq |-> (rq.seq + delta) % SeqM, cmd |-> rq.cmd, val |-> 10 + rq.c], m, now) :
          Apply(alt, {rq})
    /\ UNCHANGED <<ncall, ncanc>>
(* an unsolicited callback carrying the number of the NCP's last answer (never a pending number) *)
Callback ==
    /\ ncb < 2
    /\ \E s \in 0 .. (SeqM - 1) : s \notin DOMAIN p.aw /\
         \E alt \in FrameAlts(p, [seq |-> s, cmd |-> "stackStatusHandler", val |-> 99], <<>>, now) :
           /\ Apply(alt, {})
           /\ ncb' = ncb + 1          \* exactly once
    /\ UNCHANGED <<ncall, ncanc>>

DoCall == \E cmd \in Cmds, m \in Modes : Call(cmd, m)
DoSendRes == \E ok \in BOOLEAN, m \in Modes : SendRes(ok, m)
DoTimeout == \E m \in Modes : Timeout(m)
DoCancel == \E c \in 1 .. NCalls, m \in Modes : Cancel(c, m)
DoReply == \E rq \in ncp, d \in {0, 1}, m \in Modes : Reply(rq, d, m)
Next == DoCall \/ DoSendRes \/ DoTimeout \/ DoCancel \/ DoReply \/ Callback
Spec == Init /\ [][Next]_vars

(* ---- properties --------------------------------------------------------- *)
(* a call that returned got the payload of the response to its own request *)
OwnResponse == \A c \in 1 .. NCalls : res[c].res = "ok" => res[c].val = 10 + c
(* at most one command awaits its response at any time *)
OneInFlight == Cardinality(inflight) <= 1 /\ (inflight # {} => inflight = {p.hold.c})
(* request sequence numbers advance by one modulo SeqM *)
SeqByOne == seqok
(* queued calls start in priority order, first come first served within a class: the slot always *)
(* goes to the head of the queue and the queue is sorted by (class, arrival)                       *)
QueueSorted == \A i \in 1 .. Len(p.wq) - 1 :
                  \/ p.wq[i].pr > p.wq[i + 1].pr
                  \/ (p.wq[i].pr = p.wq[i + 1].pr /\ p.wq[i].tk < p.wq[i + 1].tk)
NoIdleWithQueue == p.hold.c = 0 => p.wq = <<>>
SlotHeld == (p.hold.c # 0) => (p.hold.ph \in {"sending", "waiting"} /\ res[p.hold.c].res = "none")
(* a finished call never owns the slot or a live registration *)
NoGhost == \A s \in DOMAIN p.aw : p.aw[s].live => (p.hold.c = p.aw[s].c)
=============================================================================
