-------------------------- MODULE Trace_ExtTimeout --------------------------
(* X01 binding: the real EZSPvN.set_extended_timeout against a simulated NCP  *)
(* address table; several calls per protocol handler (the table size is read  *)
(* at most once and then remembered).                                         *)
EXTENDS ExtTimeout, Json, IOUtils, TLCExt, TLC
Traces == JsonDeserialize(IOEnv.TRACE_FILE)
VARIABLES cached, tid, l
tvars == <<cached, tid, l>>
Tr == Traces[tid]
TInit == tid \in 1 .. Len(Traces) /\ l = 1 /\ cached = FALSE
Norm(c) == IF c.c = "setExtendedTimeout" THEN SetExt(c.eui, c.want = 1)
           ELSE IF c.c = "replaceAddressTableEntry" THEN Replace(c.idx, c.eui, c.nwk, c.want = 1)
           ELSE IF c.c = "getExtendedTimeout" THEN Read(c.eui)
           ELSE IF c.c = "lookupNodeIdByEui64" THEN Lookup(c.eui)
           ELSE SizeRead
TNext ==
  /\ l <= Len(Tr)
  /\ LET e == Tr[l]
         n == [tbl |-> e.tbl, ext |-> {e.ext[i] : i \in 1 .. Len(e.ext)}, sizeOk |-> e.sizeOk = 1]
         cmds == [i \in 1 .. Len(e.cmds) |-> Norm(e.cmds[i])]
     IN /\ e.raised = ""
        /\ cmds \in Allowed(n, e.eui, e.nwk, e.want = 1, cached)
        /\ cached' = (cached \/ (n.sizeOk /\ \E i \in 1 .. Len(cmds) : cmds[i] = SizeRead))
  /\ l' = l + 1 /\ UNCHANGED tid
TSpec == TInit /\ [][TNext]_tvars
Progress == TLCSet(1, [TLCGet(1) EXCEPT ![tid] = IF @ < l THEN l ELSE @])
Post == /\ PrintT(<<"BVPROGRESS", TLCGet(1)>>)
        /\ \A i \in 1 .. Len(Traces) : TLCGet(1)[i] = Len(Traces[i]) + 1
ASSUME TLCSet(1, [i \in 1 .. Len(Traces) |-> 0])
=============================================================================
