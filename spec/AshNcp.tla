------------------------------- MODULE AshNcp -------------------------------
(***************************************************************************)
(* A specification-conforming ASH NCP (the peer of property C01), written  *)
(* from the ASH text: sliding transmit window of Win frames, cumulative      *)
(* acknowledgements, reject condition, retransmission of the whole window  *)
(* on NAK or time-out with the reTx flag set, immediate ACK for every      *)
(* accepted or duplicate DATA frame.  Step functions like AshHost.         *)
(*   n = [tx, rx, win, q, rej]                                             *)
(*   win : unacknowledged frames <<[num, pl]>> (oldest first), Len <= W    *)
(*   q   : payloads not yet transmitted                                    *)
(*   rej : reject condition (a NAK was sent, out-of-sequence frames are    *)
(*         dropped silently until the expected frame arrives)              *)
(***************************************************************************)
EXTENDS AshHost

CONSTANT Win    \* NCP transmit window (1..3)

NInit == [tx |-> 0, rx |-> 0, win |-> <<>>, q |-> <<>>, rej |-> FALSE]
NInitAt(a, b) == [NInit EXCEPT !.tx = a, !.rx = b]

(* frames of the window acknowledged by ackNum a: all before the frame numbered a *)
RECURSIVE Slide(_, _)
Slide(win, a) == IF win = <<>> THEN win
                 ELSE IF \E i \in 1 .. Len(win) : win[i].num = a
                      THEN IF win[1].num = a THEN win ELSE Slide(Tail(win), a)
                      ELSE IF (win[Len(win)].num + 1) % 8 = a THEN <<>> ELSE win

(* transmit as many queued payloads as the window allows *)
RECURSIVE Fill(_, _)
Fill(n, out) == IF n.q # <<>> /\ Len(n.win) < Win
                THEN Fill([n EXCEPT !.q = Tail(n.q), !.tx = (n.tx + 1) % 8,
                                    !.win = Append(n.win, [num |-> n.tx, pl |-> Head(n.q)])],
                          Append(out, W(Data(n.tx, 0, n.rx, Head(n.q)))))
                ELSE R(n, out)

Retransmit(n) == [i \in 1 .. Len(n.win) |-> W(Data(n.win[i].num, 1, n.rx, n.win[i].pl))]

NSubmitFn(n, pl) == Fill([n EXCEPT !.q = Append(n.q, pl)], <<>>)

NRecvFn(n0, f) ==
    CASE f.type = "GARBAGE" ->
           IF n0.rej THEN R(n0, <<>>) ELSE R([n0 EXCEPT !.rej = TRUE], <<W(Nak(n0.rx))>>)
      [] f.type = "DATA" ->
           LET n == [n0 EXCEPT !.win = Slide(n0.win, f.ack)] IN
           IF f.frm = n.rx
           THEN LET n2 == [n EXCEPT !.rx = (n.rx + 1) % 8, !.rej = FALSE]
                    r == Fill(n2, <<W(Ack(n2.rx)), UpData(f.pl)>>)
                IN r
           ELSE IF f.retx = 1 THEN Fill(n, <<W(Ack(n.rx))>>)
           ELSE IF n.rej THEN Fill(n, <<>>)
           ELSE Fill([n EXCEPT !.rej = TRUE], <<W(Nak(n.rx))>>)
      [] f.type = "ACK" -> Fill([n0 EXCEPT !.win = Slide(n0.win, f.ack)], <<>>)
      [] f.type = "NAK" ->
           LET n == [n0 EXCEPT !.win = Slide(n0.win, f.ack)] IN
           LET r == Fill(n, <<>>) IN R(r.h, Retransmit(n) \o r.out)
      [] OTHER -> R(n0, <<>>)

NTimerEnabled(n) == n.win # <<>>
NTimerFn(n) == R(n, Retransmit(n))
=============================================================================
