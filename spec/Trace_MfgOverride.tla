-------------------------- MODULE Trace_MfgOverride --------------------------
(* X02 binding: trust-centre join callbacks fed into the real                  *)
(* ControllerApplication at chosen virtual instants; the simulated NCP answers *)
(* each setManufacturerCode at once, late or never.  After every step the      *)
(* commands the NCP received and the code it holds must be the model's, and    *)
(* the override's two promises are evaluated on every state.                   *)
EXTENDS MfgOverride, Json, IOUtils, TLCExt, TLC
Traces == JsonDeserialize(IOEnv.TRACE_FILE)
VARIABLES s, tid, l
tvars == <<s, tid, l>>
Tr == Traces[tid]
TInit == tid \in 1 .. Len(Traces) /\ l = 1 /\ s = MInit
Codes(out) == [i \in 1 .. Len(out) |-> out[i].code]
Take(e, r) == e.sets = Codes(r.out) /\ e.ncp = r.s.ncp /\ e.raised = 0 /\ s' = r.s
TNext ==
  /\ l <= Len(Tr)
  /\ LET e == Tr[l] IN
       \* the callback is fed, then the loop runs until idle: a timer of the task due at this very instant fires in the same step
       \* (only after an ordinary join - a vendor join cancelled the task first)
       \/ e.a = "join" /\ LET r == JoinFn(s, e.m, e.mode, e.t)
                          IN IF TimerDue(r.s, e.t) THEN Take(e, TimerFn(r.s, e.mode, e.t)) ELSE Take(e, r)
       \* a timer of the loop: the harness's late response to command e.resp (0: none), then whatever the task has due
       \/ e.a = "tick" /\ LET s1 == IF e.resp # 0 THEN RespFn(s, e.resp, e.t).s ELSE s
                          IN IF TimerDue(s1, e.t) THEN Take(e, TimerFn(s1, e.mode, e.t)) ELSE Take(e, MR(s1, <<>>))
       \/ e.a = "end" /\ s.task.ph = "none" /\ e.pending = 0 /\ e.ncp = s.ncp /\ UNCHANGED s
  /\ l' = l + 1 /\ UNCHANGED tid
TSpec == TInit /\ [][TNext]_tvars
Active == ActiveDuringWindow(s)
Restored == RestoredWhenIdle(s)
Progress == TLCSet(1, [TLCGet(1) EXCEPT ![tid] = IF @ < l THEN l ELSE @])
Post == /\ PrintT(<<"BVPROGRESS", TLCGet(1)>>)
        /\ \A i \in 1 .. Len(Traces) : TLCGet(1)[i] = Len(Traces[i]) + 1
ASSUME TLCSet(1, [i \in 1 .. Len(Traces) |-> 0])
=============================================================================
