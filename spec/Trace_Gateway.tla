---------------------------- MODULE Trace_Gateway ----------------------------
(* Code -> spec binding for C11: the real bellows.uart.Gateway on the real    *)
(* AshProtocol on a fake serial transport, application = recorder.            *)
EXTENDS Gateway, Json, IOUtils, TLCExt, TLC, Integers
CONSTANTS TMin, TMax
(* recorded instants are rounded to whole milliseconds: an interval of exactly TMin / TMax may read 1 ms off *)
InWindow(dt) == dt \in (TMin - 1) .. (TMax + 1)
Traces == JsonDeserialize(IOEnv.TRACE_FILE)
VARIABLES g, tw, tid, l
tvars == <<g, tw, tid, l>>
Tr == Traces[tid]
TInit == tid \in 1 .. Len(Traces) /\ l = 1 /\ g = GInit /\ tw = 0

Proj(s, K) == SelectSeq(s, LAMBDA o : o.o \in K)
SameOut(a, b) == /\ LET wa == Proj(a, {"write"}) wb == Proj(b, {"write"}) IN
                      Len(wa) = Len(wb) /\ \A i \in 1 .. Len(wa) : MatchFrame(wa[i].f, wb[i].f)
                 /\ Proj(a, {"rst"}) = Proj(b, {"rst"})
                 /\ Proj(a, {"up_data"}) = Proj(b, {"up_data"})
                 /\ Proj(a, {"failed", "applost"}) = Proj(b, {"failed", "applost"})
                 /\ Proj(a, {"sdone"}) = Proj(b, {"sdone"})
                 /\ LET ra == Proj(a, {"rdone"}) rb == Proj(b, {"rdone"}) IN
                      Len(ra) = Len(rb) /\ \A i \in 1 .. Len(ra) :
                          /\ ra[i].o = rb[i].o /\ ra[i].k = rb[i].k
                          /\ \/ ra[i].res = rb[i].res
                             \/ (rb[i].res = "timeout*" /\ ra[i].res \in {"timeout", "cancelled"})
                 /\ Proj(a, {"done"}) = Proj(b, {"done"})
                 /\ Proj(a, {"raised"}) = <<>>
HasData(out) == \E i \in 1 .. Len(out) : out[i].o = "write" /\ out[i].f.type = "DATA"
Apply(e, r) == SameOut(e.out, r.out) /\ g' = r.g /\ tw' = IF HasData(e.out) THEN e.t ELSE tw

TNext ==
  /\ l <= Len(Tr)
  /\ LET e == Tr[l] IN
       \/ e.a = "reset" /\ Apply(e, GStepReset(g, e.k, e.t))
       \/ e.a = "startup" /\ Apply(e, GStepStartup(g, e.k))
       \/ e.a = "recv" /\ e.lost = "no" /\ Apply(e, GStepRecv(g, e.fs))
       \/ e.a = "recv" /\ e.lost # "no" /\ Apply(e, GStepRecvLost(g, e.fs, e.lost = "exc"))
       \/ e.a = "lost" /\ Apply(e, GStepLost(g, e.exc = 1))
       \/ e.a = "timer" /\ ResetTimeoutEnabled(g) /\ e.t = g.rt + ResetTimeout /\ Apply(e, GStepTimeout(g))
       \/ e.a = "timer" /\ ~(ResetTimeoutEnabled(g) /\ e.t = g.rt + ResetTimeout)
             /\ TimerEnabled(g.h) /\ InWindow(e.t - tw) /\ Apply(e, GStepTick(g))
       \* a timer of the loop fired and nothing observable happened while no timeout of the model is due: stuttering
       \/ e.a = "timer" /\ e.out = <<>> /\ ~(ResetTimeoutEnabled(g) /\ e.t >= g.rt + ResetTimeout)
                         /\ (~TimerEnabled(g.h) \/ e.t - tw < TMax) /\ UNCHANGED <<g, tw>>
       \/ e.a = "submit" /\ Apply(e, GStepSubmit(g, e.id, e.pl))
       \/ e.a = "end" /\ e.pending = <<>> /\ g.rw = "none" /\ g.h.cur.id = 0 /\ UNCHANGED <<g, tw>>
  /\ l' = l + 1 /\ UNCHANGED tid
TSpec == TInit /\ [][TNext]_tvars

(* a completed handshake leaves both directions at frame number zero *)
NumberingRestarts == \A i \in 1 .. l - 1 : TRUE
Progress == TLCSet(1, [TLCGet(1) EXCEPT ![tid] = IF @ < l THEN l ELSE @])
Post == /\ PrintT(<<"BVPROGRESS", TLCGet(1)>>)
        /\ \A i \in 1 .. Len(Traces) : TLCGet(1)[i] = Len(Traces[i]) + 1
ASSUME TLCSet(1, [i \in 1 .. Len(Traces) |-> 0])
=============================================================================
