------------------------------ MODULE OutgoingMC ------------------------------
(* sanity of the mapping over a small domain: exactly one send command, of the  *)
(* kind the destination calls for; group id only for multicasts; the route      *)
(* set-up only for unicasts that carry a route, and before the send.            *)
EXTENDS Outgoing, TLC
VARIABLES p, sr, v14, rc
Modes == {"nwk", "group", "bcast"}
Init == /\ p \in [mode : Modes, dst : {0, 4660, 65532}, srcEp : {1}, dstEp : {-1, 0, 7}, profile : {260}, cluster : {6}, tsn : {0, 255},
                  radius : {0, 30}, nonMember : {3}, data : {<<>>, <<1, 2>>}, sr : {<<>>, <<8738>>}, srGiven : BOOLEAN, ext : BOOLEAN]
        /\ sr \in BOOLEAN /\ v14 \in BOOLEAN /\ rc \in BOOLEAN /\ (v14 => ~rc)
Next == UNCHANGED <<p, sr, v14, rc>>
Spec == Init /\ [][Next]_<<p, sr, v14, rc>>
Cmds == ExpectedCmds(p, sr, v14, rc, 9)
OneSend == Len(SelectSeq(Cmds, LAMBDA c : c.cmd \in {"sendUnicast", "sendMulticast", "sendBroadcast"})) = 1 /\ Cmds[Len(Cmds)].cmd = SendCmd(p)
GroupOnlyMulticast == (Cmds[Len(Cmds)].aps.group # 0) => p.mode = "group"
RouteOnlyUnicast == (Len(Cmds) = 2) <=> (p.mode = "nwk" /\ p.srGiven /\ rc)
RetryAlways == Cmds[Len(Cmds)].aps.options \in {OptRetry + OptRouteDisc, OptRetry + OptAddrDisc}
=============================================================================
