------------------------ MODULE Trace_ThreadedConnect ------------------------
(* X07 binding with REAL threads: the main-loop log (connect, calls made and    *)
(* what they returned, application methods executing) and the serial-thread     *)
(* log (gateway methods executing, notifications issued); TLC searches for an   *)
(* interleaving of the two per-thread logs that ThreadedConnect allows.         *)
EXTENDS ThreadedConnect, Json, IOUtils, TLCExt, TLC
Traces == JsonDeserialize(IOEnv.TRACE_FILE)
VARIABLES s, tid, lm, ls
tvars == <<s, tid, lm, ls>>
ML == Traces[tid].main
SL == Traces[tid].serial
TInit == tid \in 1 .. Len(Traces) /\ lm = 1 /\ ls = 1 /\ s = TC0
MainStep ==
  /\ lm <= Len(ML)
  /\ LET e == ML[lm] IN
       \/ e.a = "connect" /\ ConnectOk(s) /\ e.raised = 0 /\ s' = Connected(s)
       \/ e.a = "connectfail" /\ ConnectOk(s) /\ e.raised = 1 /\ s' = s
       \/ e.a = "call" /\ CallOk(s, e.id) /\ s' = Call(s, e.id)
       \* what a call gave back to its caller on M: a coroutine's own result, nothing for a plain / dropped call
       \/ e.a = "ret" /\ (e.kind = "coro" => (e.id \in s.ran /\ e.val = e.id) \/ (s.ph = "down" /\ e.val = 0 - 1))
                      /\ (e.kind = "plain" => e.val = 0 - 1) /\ s' = s
       \/ e.a = "up" /\ UpOk(s, e.what, e.thread) /\ s' = Up(s)
       \/ e.a = "end" /\ EndOk(s, e.salive = 1, e.blocked = 1) /\ s' = s
  /\ lm' = lm + 1 /\ UNCHANGED <<ls, tid>>
SerialStep ==
  /\ ls <= Len(SL)
  /\ LET e == SL[ls] IN
       \/ e.a = "exec" /\ ExecOk(s, e.id, e.thread) /\ s' = Exec(s, e.id)
       \/ e.a = "notify" /\ e.thread = "S" /\ s' = Notify(s, e.what)
       \/ e.a = "down" /\ s' = Down(s)
  /\ ls' = ls + 1 /\ UNCHANGED <<lm, tid>>
TNext == MainStep \/ SerialStep
TSpec == TInit /\ [][TNext]_tvars
Progress == TLCSet(1, [TLCGet(1) EXCEPT ![tid] = IF @ < lm + ls - 1 THEN lm + ls - 1 ELSE @])
Post == /\ PrintT(<<"BVPROGRESS", TLCGet(1)>>)
        /\ \A i \in 1 .. Len(Traces) : TLCGet(1)[i] = Len(Traces[i].main) + Len(Traces[i].serial) + 1
ASSUME TLCSet(1, [i \in 1 .. Len(Traces) |-> 0])
=============================================================================
