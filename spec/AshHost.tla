------------------------------ MODULE AshHost -------------------------------
(***************************************************************************)
(* The host side of the ASH link as implemented by bellows/ash.py          *)
(* (AshProtocol.frame_received / data_frame_received / _handle_ack /       *)
(* _send_data_frame / send_data), at the granularity of event-loop         *)
(* callbacks.  Used by C01, C04, C05 (and underneath C09-C11).             *)
(*                                                                         *)
(* Written as step FUNCTIONS on a host-state record so that the same text  *)
(* serves as fine-grained actions (model checking, AshLink) and as         *)
(* composed steps "input, then run the loop until idle" (trace checking).  *)
(*                                                                         *)
(* Host state h:                                                           *)
(*   tx, rx : next frame number to assign / next expected (mod 8)          *)
(*   st     : "CONN" | "FAILED"                                            *)
(*   cur    : the send holding the transmit window:                        *)
(*            [id, num, pl, att, wake]; id = 0 means none.                 *)
(*            wake = "none"    waiting for its acknowledgement future      *)
(*                   "acked" / "naked" / "failed"  future completed, task  *)
(*                                    not yet resumed                      *)
(*                   "timeout"  ACK timer fired (future cancelled)         *)
(*   q      : ids waiting for the window (FIFO semaphore)                  *)
(*   pls    : id -> payload token of every submitted send                  *)
(* Outputs of a step: sequence of                                          *)
(*   [o |-> "write", f |-> frame] [o |-> "up_data", pl |-> p]              *)
(*   [o |-> "up_reset", code |-> c] [o |-> "done", id |-> i, res |-> r]    *)
(*   res: "ok" | "nak" | "timeout" | "ncpfail"                             *)
(*                                                                         *)
(* Deliberate deviations of the code from the ASH text, modelled as is:    *)
(*  - an in-flight send keeps its frame number across an RSTACK            *)
(*  - an RST frame received from the peer marks the link CONNECTED         *)
(*  - nRdy / flow control is not implemented (bits ignored)                *)
(*  - a completed ACK future loses against the ACK timer when both run in  *)
(*    the same loop iteration (asyncio.timeout cancels the task first)     *)
(***************************************************************************)
EXTENDS Naturals, Sequences, SequencesExt, FiniteSets

CONSTANT MaxAtt        \* configured number of transmit attempts (ACK_TIMEOUTS)

ErrExceeded == 81      \* ASH error code 0x51: exceeded maximum ACK timeout count

NoCur == [id |-> 0, num |-> 0, pl |-> 0, att |-> 0, wake |-> "none"]
(* wf:   the serial transport will raise out of the next write of a DATA frame (a transient serial error)                              *)
(* roll: what this host does with the frame number of a FIRST transmission whose write raised: given back (TRUE) or spent (FALSE, the *)
(*       code as it stands).  Nothing of that frame is on the line, so either is safe (AshLink is checked for both); the number of a  *)
(*       RETRANSMISSION whose write raised stays spent - the first copy may have been accepted.                                        *)
HInit == [tx |-> 0, rx |-> 0, st |-> "CONN", cur |-> NoCur, q |-> <<>>, wf |-> FALSE, roll |-> FALSE]
HInitAt(a, b) == [HInit EXCEPT !.tx = a, !.rx = b]

R(h, out) == [h |-> h, out |-> out]

Data(num, retx, ack, pl) == [type |-> "DATA", frm |-> num, retx |-> retx, ack |-> ack, pl |-> pl]
Ack(n) == [type |-> "ACK", res |-> 0, nrdy |-> 0, ack |-> n]
Nak(n) == [type |-> "NAK", res |-> 0, nrdy |-> 0, ack |-> n]
AckOrNak(n) == [type |-> "ACKorNAK", res |-> 0, nrdy |-> 0, ack |-> n]
W(f) == [o |-> "write", f |-> f]

(* does an observed written frame match what the model wrote?  ACK/NAK are compared by type and   *)
(* acknowledgement number (flow-control bits are outside the listed properties), DATA by frame     *)
(* number, retransmit flag and payload (its piggy-backed ackNum is judged by the link model, C01). *)
MatchFrame(a, m) ==
    IF m.type = "DATA" THEN a.type = "DATA" /\ a.frm = m.frm /\ a.retx = m.retx /\ a.pl = m.pl
    ELSE IF m.type = "ACKorNAK" THEN a.type \in {"ACK", "NAK"} /\ a.ack = m.ack /\ a.res = 0      \* the reserved bit is zero on the wire
    ELSE IF m.type \in {"ACK", "NAK"} THEN a.type = m.type /\ a.ack = m.ack /\ a.res = 0
    ELSE a = m
UpData(p) == [o |-> "up_data", pl |-> p]
UpReset(c) == [o |-> "up_reset", code |-> c]
Done(i, r) == [o |-> "done", id |-> i, res |-> r]

(* ---- a send reaches the head of the window: first attempt ------------- *)
(* (_send_data_frame from `async with semaphore` to the first await)       *)
Begin(h, id, pl) ==
    IF h.st = "FAILED"
    THEN R(h, <<Done(id, "ncpfail")>>)                    \* failed-state gate, window released again
    ELSE IF h.wf                                          \* the write raises: nothing is on the line, the error is the caller's
    THEN R([h EXCEPT !.tx = IF h.roll THEN h.tx ELSE (h.tx + 1) % 8, !.wf = FALSE], <<Done(id, "writeerr")>>)
    ELSE R([h EXCEPT !.tx = (h.tx + 1) % 8,
                     !.cur = [id |-> id, num |-> h.tx, pl |-> pl, att |-> 0, wake |-> "none"]],
           <<W(Data(h.tx, 0, h.rx, pl))>>)

(* send_data(): eager task runs to its first suspension point *)
SubmitFn(h, id, pl) ==
    IF h.cur.id = 0 /\ h.q = <<>>
    THEN Begin(h, id, pl)
    ELSE R([h EXCEPT !.q = Append(h.q, [id |-> id, pl |-> pl])], <<>>)

(* ---- one frame handed to frame_received() ------------------------------ *)
AckPart(h, f) ==      \* _handle_ack: ackNum - 1 names the acknowledged frame
    IF f.type \in {"DATA", "ACK", "NAK"} /\ h.cur.id # 0 /\ h.cur.wake = "none"
       /\ h.cur.num = (f.ack + 7) % 8
    THEN [h EXCEPT !.cur.wake = "acked"]
    ELSE h

RecvFn(h0, f) ==
    LET h == AckPart(h0, f) IN
    CASE f.type = "DATA" ->
           IF f.frm = h.rx
           THEN R([h EXCEPT !.rx = (h.rx + 1) % 8], <<W(Ack((h.rx + 1) % 8)), UpData(f.pl)>>)
           ELSE R(h, <<W(AckOrNak(h.rx))>>)      \* latitude of C04: either answer, with the expected number
                                                 \* (the code: ACK for a retransmission, NAK otherwise)
      [] f.type = "GARBAGE" -> R(h0, <<W(Nak(h0.rx))>>)     \* CRC / escape error: NAK, no ack processing
      [] f.type = "ACK" -> R(h, <<>>)
      [] f.type = "NAK" ->
           R(IF h.cur.id # 0 /\ h.cur.wake = "none" THEN [h EXCEPT !.cur.wake = "naked"] ELSE h, <<>>)
      [] f.type = "RSTACK" ->
           R([h EXCEPT !.st = "CONN", !.tx = 0, !.rx = 0], <<UpReset(f.code)>>)
      [] f.type = "RST" -> R([h EXCEPT !.st = "CONN"], <<>>)
      [] f.type = "ERROR" ->
           R([h EXCEPT !.st = "FAILED",
                       !.cur.wake = IF h.cur.id # 0 /\ h.cur.wake = "none" THEN "failed" ELSE @],
             <<UpReset(f.code)>>)

(* ---- the transport is about to fail one DATA write ------------------- *)
ArmFn(h) == [h EXCEPT !.wf = TRUE]

(* ---- ACK timer fires (asyncio.timeout cancels the waiting task) -------- *)
TimerEnabled(h) == h.cur.id # 0 /\ h.cur.wake # "timeout"
TimerFn(h) == R([h EXCEPT !.cur.wake = "timeout"], <<>>)

(* ---- the send task resumes after its future completed / was cancelled -- *)
ResumeEnabled(h) == h.cur.id # 0 /\ h.cur.wake # "none"
ResumeFn(h) ==
    LET c == h.cur IN
    CASE c.wake = "acked"  -> R([h EXCEPT !.cur = NoCur], <<Done(c.id, "ok")>>)
      [] c.wake = "failed" -> R([h EXCEPT !.cur = NoCur], <<Done(c.id, "ncpfail")>>)
      [] c.wake = "closed" -> R([h EXCEPT !.cur = NoCur], <<Done(c.id, "closed")>>)    \* connection lost (Gateway.tla)
      [] c.wake \in {"naked", "timeout"} ->
           IF c.att >= MaxAtt - 1
           THEN R([h EXCEPT !.cur = NoCur, !.st = "FAILED"],
                  <<UpReset(ErrExceeded), Done(c.id, IF c.wake = "naked" THEN "nak" ELSE "timeout")>>)
           ELSE IF h.st = "FAILED"
           THEN R([h EXCEPT !.cur = NoCur], <<Done(c.id, "ncpfail")>>)
           ELSE IF h.wf                              \* the retransmission's write raises: the number stays spent (the first
           THEN R([h EXCEPT !.cur = NoCur, !.wf = FALSE], <<Done(c.id, "writeerr")>>)   \* copy may have been accepted)
           ELSE R([h EXCEPT !.cur.att = c.att + 1, !.cur.wake = "none"],
                  <<W(Data(c.num, 1, h.rx, c.pl))>>)

(* ---- the next waiter gets the window ----------------------------------- *)
NextEnabled(h) == h.cur.id = 0 /\ h.q # <<>>
NextFn(h) == LET r == Begin([h EXCEPT !.q = Tail(h.q)], Head(h.q).id, Head(h.q).pl) IN r

(* ---- run the event loop until nothing is runnable at this instant ------ *)
RECURSIVE Drain(_, _)
Drain(h, out) == IF NextEnabled(h) THEN LET r == NextFn(h) IN Drain(r.h, out \o r.out) ELSE R(h, out)
Settle(h, out) == IF ResumeEnabled(h) THEN LET r == ResumeFn(h) IN Drain(r.h, out \o r.out)
                  ELSE Drain(h, out)

RecvAll(h, fs) == FoldLeft(LAMBDA acc, f : LET r == RecvFn(acc.h, f) IN R(r.h, acc.out \o r.out), R(h, <<>>), fs)

(* composed steps = one harness input followed by "run until idle" *)
StepSubmit(h, id, pl) == LET r == SubmitFn(h, id, pl) IN Settle(r.h, r.out)
StepRecv(h, fs)       == LET r == RecvAll(h, fs) IN Settle(r.h, r.out)
StepRecvLate(h, fs)   == LET r == RecvAll(h, fs) IN          \* frames and ACK timer in one loop iteration
                         IF TimerEnabled(r.h) THEN Settle(TimerFn(r.h).h, r.out) ELSE Settle(r.h, r.out)
StepTick(h)           == Settle(TimerFn(h).h, <<>>)

(***************************************************************************)
(* Observer for C05: judges only what is observable (frames received,      *)
(* frames written, upward calls, send outcomes).  obs.bad collects the     *)
(* names of violated clauses; the property is obs.bad = {}.                *)
(*   last    : last DATA write [frm, pl] (frm = -1 encoded as 8: none)     *)
(*   cnt     : number of writes of that frame so far                      *)
(*   open    : a DATA frame has been written and its send has not ended    *)
(*   lastNew : frame number of the last first-transmission (8 = none)      *)
(*   rst     : an RSTACK arrived since the last first-transmission         *)
(*   failed  : upper layer told of a failure, no RSTACK since              *)
(***************************************************************************)
ObsInit == [last |-> [frm |-> 8, pl |-> 0], cnt |-> 0, open |-> FALSE, lastNew |-> 8, rst |-> FALSE,
            failed |-> FALSE, k |-> 0, nf |-> 0, bad |-> {}]

Flag(obs, cond, name) == IF cond THEN obs ELSE [obs EXCEPT !.bad = @ \cup {name}]

(* open = the last DATA frame written is still unacknowledged: no frame carrying an      *)
(* acknowledgement number covering it has arrived since it was first written and the link *)
(* has not been declared failed since.                                                    *)
ObsWrite(obs, f) ==
    IF f.type # "DATA" THEN obs
    ELSE LET o1 == Flag(obs, ~obs.failed, "SilentWhenFailed") IN
         IF f.retx = 0
         THEN LET o2 == Flag(o1, ~obs.open, "OneOutstanding")
                  want == IF obs.rst \/ obs.lastNew = 8 THEN 0 ELSE (obs.lastNew + 1) % 8
                  o3 == Flag(o2, f.frm = want, "Consecutive")
              IN [o3 EXCEPT !.last = [frm |-> f.frm, pl |-> f.pl], !.cnt = 1, !.open = TRUE,
                            !.lastNew = f.frm, !.rst = FALSE]
         ELSE LET o2 == Flag(o1, f.frm = obs.last.frm /\ f.pl = obs.last.pl, "RepeatSame")
                  o3 == Flag(o2, obs.cnt + 1 <= MaxAtt, "AttemptsBounded")
              IN [o3 EXCEPT !.cnt = obs.cnt + 1]

(* the k-th upward reset notice of a step: the first nf of them report the RSTACK / ERROR  *)
(* frames received in this step, any further one reports an exhausted retry budget          *)
ObsOut(obs, o) ==
    CASE o.o = "write" -> ObsWrite(obs, o.f)
      [] o.o = "done" -> [obs EXCEPT !.failed = @ \/ o.res \in {"nak", "timeout"}]
      [] o.o = "up_reset" -> IF obs.k + 1 > obs.nf
                             THEN [obs EXCEPT !.k = @ + 1, !.failed = TRUE, !.open = FALSE]
                             ELSE [obs EXCEPT !.k = @ + 1]
      [] OTHER -> obs

Count(s, P(_)) == Cardinality({i \in 1 .. Len(s) : P(s[i])})

(* one observed step: frames received (ins), then everything the host did (outs) *)
ObsStep(obs, ins, outs) ==
    LET ctl     == SelectSeq(ins, LAMBDA f : f.type \in {"RSTACK", "ERROR"})
        nRstack == Count(ins, LAMBDA f : f.type = "RSTACK")
        nExh    == Count(outs, LAMBDA o : o.o = "done" /\ o.res \in {"nak", "timeout"})
        resets  == SelectSeq(outs, LAMBDA o : o.o = "up_reset")
        covered == \E i \in 1 .. Len(ins) : /\ ins[i].type \in {"DATA", "ACK", "NAK"}
                                            /\ (ins[i].ack + 7) % 8 = obs.last.frm
        o0 == Flag(obs, Len(resets) = Len(ctl) + nExh, "ToldOnce")
        o1 == Flag(o0, \A i \in 1 .. Len(resets) :
                          \/ (i <= Len(ctl) /\ resets[i].code = ctl[i].code)
                          \/ (i > Len(ctl) /\ resets[i].code = ErrExceeded), "ToldReason")
        (* the failed flag: an ERROR sets it, an RSTACK clears it; judged in arrival order *)
        o2 == [o1 EXCEPT !.failed = IF ctl # <<>> THEN ctl[Len(ctl)].type = "ERROR" ELSE @,
                         !.rst = @ \/ nRstack > 0,
                         !.open = @ /\ ~covered /\ ~(\E i \in 1 .. Len(ctl) : ctl[i].type = "ERROR"),
                         !.k = 0, !.nf = Len(ctl)]
    IN FoldLeft(ObsOut, o2, outs)

(***************************************************************************)
(* Observer for C04 (receiver): tracks only the next expected number and   *)
(* states what must be seen for the frames received in one step.           *)
(***************************************************************************)
Obs4Init == [exp |-> 0, bad |-> {}]

(* expectation derived from the received frames alone *)
Exp4(exp0, ins) ==
    FoldLeft(LAMBDA a, f :
               CASE f.type = "DATA" ->
                      IF f.frm = a.exp
                      THEN [exp |-> (a.exp + 1) % 8, ups |-> Append(a.ups, UpData(f.pl)),
                            acks |-> Append(a.acks, [ack |-> (a.exp + 1) % 8, accepted |-> TRUE])]
                      ELSE [a EXCEPT !.acks = Append(a.acks, [ack |-> a.exp, accepted |-> FALSE])]
                 [] f.type = "RSTACK" -> [a EXCEPT !.exp = 0, !.ups = Append(a.ups, UpReset(f.code))]
                 [] f.type = "ERROR" -> [a EXCEPT !.ups = Append(a.ups, UpReset(f.code))]
                 [] OTHER -> a,
             [exp |-> exp0, ups |-> <<>>, acks |-> <<>>], ins)

Obs4Step(o4, ins, outs) ==
    LET x == Exp4(o4.exp, ins)
        ups == SelectSeq(outs, LAMBDA o : o.o \in {"up_data", "up_reset"})
        aw == SelectSeq(outs, LAMBDA o : o.o = "write" /\ o.f.type \in {"ACK", "NAK", "ACKorNAK"})
        (* upward calls: exactly those the frames demand, in order; a retry-budget notice may follow *)
        upsOk == /\ Len(ups) >= Len(x.ups)
                 /\ SubSeq(ups, 1, Len(x.ups)) = x.ups
                 /\ \A i \in (Len(x.ups) + 1) .. Len(ups) : ups[i] = UpReset(ErrExceeded)
        acksOk == /\ Len(aw) = Len(x.acks)
                  /\ \A i \in 1 .. Len(aw) : /\ aw[i].f.ack = x.acks[i].ack
                                             /\ (x.acks[i].accepted => aw[i].f.type = "ACK")
        o1 == Flag(o4, upsOk, "UpExactlyAccepted")
        o2 == Flag(o1, acksOk, "OneAckPerData")
    IN [o2 EXCEPT !.exp = x.exp]
=============================================================================
