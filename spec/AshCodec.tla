------------------------------ MODULE AshCodec ------------------------------
(***************************************************************************)
(* The ASH frame codec, written from the ASH protocol text (UG101), NOT    *)
(* from bellows/ash.py: control-byte layouts, the data-field randomisation *)
(* sequence, CRC-CCITT and byte stuffing.  Pure operators, no variables.   *)
(* This text is the "independently written encoder" of property C03 and    *)
(* the reference decoder used by C02.                                      *)
(*                                                                         *)
(* A frame is a record:                                                    *)
(*   [type |-> "DATA", frm, retx, ack, pl]   pl = payload bytes (plain)    *)
(*   [type |-> "ACK" | "NAK", res, nrdy, ack]                              *)
(*   [type |-> "RST"]                                                      *)
(*   [type |-> "RSTACK" | "ERROR", ver, code]                              *)
(***************************************************************************)
EXTENDS Naturals, Sequences, Bitwise, SequencesExt, FiniteSets

FLAG == 126   \* 0x7E
ESC  == 125   \* 0x7D
XON  == 17    \* 0x11
XOFF == 19    \* 0x13
SUB  == 24    \* 0x18
CAN  == 26    \* 0x1A
ReservedBytes == {FLAG, ESC, XON, XOFF, SUB, CAN}
Byte == 0 .. 255

(* ---- CRC-CCITT: polynomial 0x1021, initial value 0xFFFF, MSB first ---- *)
CrcBit(c) == IF (c \div 32768) % 2 = 1 THEN ((c * 2) % 65536) ^^ 4129 ELSE (c * 2) % 65536
CrcTable == [b \in Byte |-> CrcBit(CrcBit(CrcBit(CrcBit(CrcBit(CrcBit(CrcBit(CrcBit(b * 256))))))))]
CrcStep(c, b) == ((c % 256) * 256) ^^ CrcTable[(c \div 256) ^^ b]
Crc16(bytes) == FoldLeft(CrcStep, 65535, bytes)
CrcBytes(bytes) == LET c == Crc16(bytes) IN <<c \div 256, c % 256>>      \* big-endian
AppendCrc(bytes) == bytes \o CrcBytes(bytes)

(* ---- data-field randomisation: LFSR seed 0x42, feedback 0xB8 ---------- *)
LfsrNext(r) == IF r % 2 = 0 THEN r \div 2 ELSE (r \div 2) ^^ 184
RECURSIVE LfsrSeqR(_, _)
LfsrSeqR(n, r) == IF n = 0 THEN <<>> ELSE <<r>> \o LfsrSeqR(n - 1, LfsrNext(r))
LfsrSeq == LfsrSeqR(1024, 66)
Randomize(pl) == [i \in 1 .. Len(pl) |-> pl[i] ^^ LfsrSeq[i]]

(* ---- byte stuffing ---------------------------------------------------- *)
StuffByte(b) == IF b \in ReservedBytes THEN <<ESC, b ^^ 32>> ELSE <<b>>
Stuff(bytes) == FoldLeft(LAMBDA acc, b : acc \o StuffByte(b), <<>>, bytes)

(* Unstuff: ESC x -> x XOR 0x20.  Result record [ok, bytes].  An escaped     *)
(* value that is not a reserved byte is invalid.  A trailing lone ESC has   *)
(* nothing to escape and is dropped.                                        *)
UnstuffStep(acc, b) ==
    IF ~acc.ok THEN acc
    ELSE IF acc.esc THEN
            IF (b ^^ 32) \in ReservedBytes
            THEN [ok |-> TRUE, esc |-> FALSE, bytes |-> Append(acc.bytes, b ^^ 32)]
            ELSE [ok |-> FALSE, esc |-> FALSE, bytes |-> acc.bytes]
    ELSE IF b = ESC THEN [acc EXCEPT !.esc = TRUE]
    ELSE [acc EXCEPT !.bytes = Append(acc.bytes, b)]
Unstuff(bytes) == LET r == FoldLeft(UnstuffStep, [ok |-> TRUE, esc |-> FALSE, bytes |-> <<>>], bytes)
                  IN [ok |-> r.ok, bytes |-> r.bytes]

(* ---- control byte ----------------------------------------------------- *)
Bool2Int(b) == IF b THEN 1 ELSE 0
Ctrl(f) == CASE f.type = "DATA"   -> f.frm * 16 + f.retx * 8 + f.ack
             [] f.type = "ACK"    -> 128 + f.res * 16 + f.nrdy * 8 + f.ack
             [] f.type = "NAK"    -> 160 + f.res * 16 + f.nrdy * 8 + f.ack
             [] f.type = "RST"    -> 192
             [] f.type = "RSTACK" -> 193
             [] f.type = "ERROR"  -> 194

(* frame type from the control byte (ASH: DATA 0xxxxxxx, ACK 100xxxxx,      *)
(* NAK 101xxxxx, RST 0xC0, RSTACK 0xC1, ERROR 0xC2)                         *)
Classify(c) == IF c < 128 THEN "DATA"
               ELSE IF c \div 32 = 4 THEN "ACK"
               ELSE IF c \div 32 = 5 THEN "NAK"
               ELSE IF c = 192 THEN "RST"
               ELSE IF c = 193 THEN "RSTACK"
               ELSE IF c = 194 THEN "ERROR"
               ELSE "UNKNOWN"

Body(f) == CASE f.type = "DATA" -> Randomize(f.pl)
             [] f.type \in {"RSTACK", "ERROR"} -> <<f.ver, f.code>>
             [] OTHER -> <<>>

(* unstuffed frame bytes, CRC included *)
Encode(f) == AppendCrc(<<Ctrl(f)>> \o Body(f))
(* bytes on the wire, flag included *)
Wire(f) == Stuff(Encode(f)) \o <<FLAG>>

Invalid == [type |-> "INVALID"]

(* Parse unstuffed bytes (CRC included).  ASH: frames shorter than control + CRC, *)
(* with a bad CRC, an unknown control byte or a wrong fixed length are discarded.  *)
Parse(bytes) ==
    IF Len(bytes) < 3 THEN Invalid
    ELSE LET n    == Len(bytes)
             body == SubSeq(bytes, 1, n - 2)
             crc  == SubSeq(bytes, n - 1, n)
             c    == bytes[1]
             data == SubSeq(bytes, 2, n - 2)
             ty   == Classify(c)
         IN IF CrcBytes(body) # crc THEN Invalid
            ELSE CASE ty = "DATA" -> [type |-> "DATA", frm |-> (c \div 16) % 8, retx |-> (c \div 8) % 2,
                                       ack |-> c % 8, pl |-> Randomize(data)]
                   [] ty \in {"ACK", "NAK"} -> [type |-> ty, res |-> (c \div 16) % 2, nrdy |-> (c \div 8) % 2,
                                                 ack |-> c % 8]
                   [] ty = "RST" -> IF data = <<>> THEN [type |-> "RST"] ELSE Invalid
                   [] ty \in {"RSTACK", "ERROR"} ->
                         IF Len(data) = 2 /\ data[1] = 2
                         THEN [type |-> ty, ver |-> 2, code |-> data[2]] ELSE Invalid
                   [] OTHER -> Invalid

(* decode what arrived between two flags: unstuff then parse *)
Decode(stuffed) == LET u == Unstuff(stuffed) IN IF u.ok THEN Parse(u.bytes) ELSE Invalid

(* ACK/NAK bodies longer than the control byte: the ASH text fixes the length; *)
(* bellows ignores extra data bytes there.  Latitude flag used by callers.      *)
HasExtraData(bytes) == Len(bytes) > 3 /\ Classify(bytes[1]) \in {"ACK", "NAK"}
=============================================================================
