------------------------------ MODULE Multicast ------------------------------
(***************************************************************************)
(* C15 - host view of the NCP multicast table (bellows/multicast.py).      *)
(*                                                                         *)
(* One action per public call of bellows.multicast.Multicast.  Each call   *)
(* makes at most one table write (setMulticastTableEntry) and the NCP      *)
(* answers it with ok / reject / timeout; a rejected or timed-out write is *)
(* not applied by the NCP.                                                 *)
(*                                                                         *)
(* NCP state   : tbl[i] \in Groups \cup {Free}  (Free <=> endpoint = 0;   *)
(*               the stale multicastId of a free entry is abstracted away) *)
(* Host state  : sub  - group -> index the host believes is programmed     *)
(*               avail - indices the host believes are free                *)
(*               started - a start-up scan has happened                    *)
(* Observation : ret (status class of the last call), wrote (the table     *)
(*               write of the last call, or None)                          *)
(***************************************************************************)
EXTENDS Naturals, FiniteSets, Sequences, TLC

CONSTANTS Groups,      \* small universe of group ids
          MaxN         \* table sizes explored: 0..MaxN

Free == "free"
Answers == {"ok", "reject", "timeout"}
None == <<>>

VARIABLES n, tbl, sub, avail, started, ret, wrote
vars == <<n, tbl, sub, avail, started, ret, wrote>>

Idx == 0 .. (n - 1)

(* every initial NCP table in which each group appears at most once *)
InitTables(k) == { t \in [0 .. (k - 1) -> Groups \cup {Free}] :
                     \A i, j \in 0 .. (k - 1) : (i # j /\ t[i] # Free) => t[i] # t[j] }

Init == /\ n \in 0 .. MaxN
        /\ tbl \in InitTables(n)
        /\ sub = <<>>            \* empty function
        /\ avail = {}
        /\ started = FALSE
        /\ ret = "none"
        /\ wrote = None

EmptyFn == [x \in {} |-> 0]

(* Multicast._initialize: scan the whole table *)
Startup ==
    /\ sub' = [g \in {tbl[i] : i \in {j \in Idx : tbl[j] # Free}} |->
                 CHOOSE i \in Idx : tbl[i] = g]
    /\ avail' = {i \in Idx : tbl[i] = Free}
    /\ started' = TRUE
    /\ ret' = "none"
    /\ wrote' = None
    /\ UNCHANGED <<n, tbl>>

(* Multicast.subscribe(g) with the NCP answering the table write with a *)
Subscribe(g, a) ==
    /\ started
    /\ IF g \in DOMAIN sub
       THEN /\ ret' = "ok" /\ wrote' = None              \* idempotent: no table write
            /\ UNCHANGED <<tbl, sub, avail>>
       ELSE IF avail = {}
       THEN /\ ret' = "invalid_index" /\ wrote' = None   \* no free index: failure, no write
            /\ UNCHANGED <<tbl, sub, avail>>
       ELSE \E i \in avail :
            /\ wrote' = [idx |-> i, grp |-> g, ep |-> 1]
            /\ CASE a = "ok" ->
                      /\ tbl' = [tbl EXCEPT ![i] = g]
                      /\ sub' = [x \in DOMAIN sub \cup {g} |-> IF x = g THEN i ELSE sub[x]]
                      /\ avail' = avail \ {i}
                      /\ ret' = "ok"
                 [] a = "reject" ->
                      /\ ret' = "rejected"
                      /\ UNCHANGED <<tbl, sub, avail>>    \* index goes back
                 [] a = "timeout" ->
                      /\ ret' = "exception"
                      /\ UNCHANGED <<tbl, sub, avail>>    \* index goes back
    /\ UNCHANGED <<n, started>>

(* Multicast.unsubscribe(g) *)
Unsubscribe(g, a) ==
    /\ started
    /\ IF g \notin DOMAIN sub
       THEN /\ ret' = "invalid_index" /\ wrote' = None
            /\ UNCHANGED <<tbl, sub, avail>>
       ELSE LET i == sub[g] IN
            /\ wrote' = [idx |-> i, grp |-> g, ep |-> 0]
            /\ CASE a = "ok" ->
                      /\ tbl' = [tbl EXCEPT ![i] = Free]
                      /\ sub' = [x \in DOMAIN sub \ {g} |-> sub[x]]
                      /\ avail' = avail \cup {i}
                      /\ ret' = "ok"
                 [] a = "reject" ->
                      /\ ret' = "rejected"
                      /\ UNCHANGED <<tbl, sub, avail>>
                 [] a = "timeout" ->
                      /\ ret' = "exception"
                      /\ UNCHANGED <<tbl, sub, avail>>
    /\ UNCHANGED <<n, started>>

(* the NCP's table changes behind the host's back (the NCP restarted and lost entries, or something else programmed it): the   *)
(* host's view is stale until the next start-up scan, which must rebuild it from the table alone                              *)
NcpChange ==
    /\ started
    /\ \E t \in InitTables(n) : tbl' = t
    /\ started' = FALSE /\ ret' = "none" /\ wrote' = None
    /\ UNCHANGED <<n, sub, avail>>

Next == \/ Startup
        \/ NcpChange
        \/ \E g \in Groups, a \in Answers : Subscribe(g, a) \/ Unsubscribe(g, a)

Spec == Init /\ [][Next]_vars

-----------------------------------------------------------------------------
(* The property, as state invariants and action properties *)

Programmed == {tbl[i] : i \in {j \in Idx : tbl[j] # Free}}

TypeOK == /\ n \in 0 .. MaxN
          /\ tbl \in [Idx -> Groups \cup {Free}]
          /\ DOMAIN sub \subseteq Groups
          /\ avail \subseteq Idx

(* the groups the host reports as subscribed are exactly those programmed *)
Mirror == started => DOMAIN sub = Programmed

(* every index is either free or used by exactly one group *)
FreeMirror == started =>
    /\ avail = {i \in Idx : tbl[i] = Free}
    /\ \A g \in DOMAIN sub : sub[g] \in Idx /\ tbl[sub[g]] = g /\ sub[g] \notin avail
    /\ \A g, h \in DOMAIN sub : sub[g] = sub[h] => g = h

(* subscribing with no free index reports failure; already subscribed succeeds without a write *)
FullFails == [][\A g \in Groups, a \in Answers :
                  (Subscribe(g, a) /\ g \notin DOMAIN sub /\ avail = {}) =>
                      (ret' = "invalid_index" /\ wrote' = None)]_vars
Idempotent == [][\A g \in Groups, a \in Answers :
                  (Subscribe(g, a) /\ g \in DOMAIN sub) => (ret' = "ok" /\ wrote' = None)]_vars

(* a call that fails leaves the number of free indices unchanged *)
FailedCallKeepsFree == [][(ret' # "ok" /\ ret' # "none") =>
                              Cardinality(avail') = Cardinality(avail)]_vars
=============================================================================
