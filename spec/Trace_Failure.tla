--------------------------- MODULE Trace_Failure ----------------------------
(* C10 binding: runs of the real stack with a failure injected at a chosen    *)
(* wire event; the events are judged by the observer of Failure.tla.          *)
EXTENDS Failure, Json, IOUtils, TLCExt, TLC
Traces == JsonDeserialize(IOEnv.TRACE_FILE)
VARIABLES s, tid, l
tvars == <<s, tid, l>>
Tr == Traces[tid]
TInit == /\ tid \in 1 .. Len(Traces) /\ l = 2 /\ Traces[tid][1].a = "cfg" /\ s = FInit(Traces[tid][1].registered = 1)
TNext ==
  /\ l <= Len(Tr)
  /\ LET e == Tr[l] IN
       \/ e.a = "issue" /\ s' = Issue(s, e.c, e.t)
       \/ e.a = "fail" /\ s' = Fail(s, e.kind, e.t)
       \/ e.a = "close" /\ s' = CloseDeliberately(s)
       \/ e.a = "request" /\ RequestOk(s, e.t) /\ s' = Request(s, e.t)
       \/ e.a = "write" /\ WriteOk(s, e.t) /\ UNCHANGED s
       \/ e.a = "complete" /\ CompleteOk(s, e.c, e.t) /\ s' = Complete(s, e.c)
       \/ e.a = "probe" /\ ProbeOk(s, e.res, e.wrote) /\ UNCHANGED s
       \* nothing may escape a protocol callback - except, as the code stands, the error of a fan-out whose listener changed the callback table
       \* while handling the request (the harness's one-shot listener; named deviation): everything else must hold all the same
       \/ e.a = "raised" /\ Tr[1].oneshot = 1 /\ UNCHANGED s
       \* scanwait = 1: a list operation (scan) whose command had been answered goes on waiting for its completion callback - it has no timeout
       \* of its own (C17) and is not a command call in progress; it is taken out before the end clause is evaluated
       \/ e.a = "end" /\ EndOk(IF e.scanwait = 1 THEN Complete(s, 1) ELSE s, e.pending, e.running) /\ UNCHANGED s
  /\ l' = l + 1 /\ UNCHANGED tid
TSpec == TInit /\ [][TNext]_tvars
Progress == TLCSet(1, [TLCGet(1) EXCEPT ![tid] = IF @ < l THEN l ELSE @])
Post == /\ PrintT(<<"BVPROGRESS", TLCGet(1)>>)
        /\ \A i \in 1 .. Len(Traces) : TLCGet(1)[i] = Len(Traces[i]) + 1
ASSUME TLCSet(1, [i \in 1 .. Len(Traces) |-> 0])
=============================================================================
