----------------------------- MODULE ExtTimeout -----------------------------
(***************************************************************************)
(* Extension X01 (beyond the listed properties): the extended-timeout      *)
(* set-up of a unicast, EZSPv4.set_extended_timeout (inherited by every    *)
(* version) - a self-contained decision tree over the NCP's address table. *)
(* The NCP keeps, per address-table slot, (eui, nwk, ext) and a separate   *)
(* set of EUI64s flagged "extended timeout"; getExtendedTimeout(eui) is    *)
(* true iff eui is flagged.                                                *)
(*   NCP state n : [tbl : Seq of [eui, nwk] ("free" eui for an empty       *)
(*                  slot), ext : set of euis, sizeOk : table size readable]*)
(* One call = the sequence of commands the host issues; the specification  *)
(* is the function from (NCP state, request) to that sequence and the      *)
(* NCP's final state, case by case:                                        *)
(*   A  already as requested          -> only the read                     *)
(*   B  the node is in the table      -> setExtendedTimeout(eui, want)     *)
(*   C  not in the table, size read   -> replaceAddressTableEntry at SOME  *)
(*                                       index 0 .. size-1 with            *)
(*                                       (eui, nwk, want)                  *)
(*   D  not in the table, size unreadable -> setExtendedTimeout anyway     *)
(* and the size is read at most once per protocol handler (cached).        *)
(***************************************************************************)
EXTENDS Naturals, Sequences, FiniteSets

Free == "free"

Flagged(n, eui) == eui \in n.ext
Slot(n, eui) == IF \E i \in 1 .. Len(n.tbl) : n.tbl[i].eui = eui
                THEN CHOOSE i \in 1 .. Len(n.tbl) : n.tbl[i].eui = eui ELSE 0

Read(eui) == [c |-> "getExtendedTimeout", eui |-> eui]
Lookup(eui) == [c |-> "lookupNodeIdByEui64", eui |-> eui]
SizeRead == [c |-> "getConfigurationValue"]
SetExt(eui, w) == [c |-> "setExtendedTimeout", eui |-> eui, want |-> w]
Replace(i, eui, nwk, w) == [c |-> "replaceAddressTableEntry", idx |-> i, eui |-> eui, nwk |-> nwk, want |-> w]

(* the commands the host must issue, as a set of allowed sequences (the replaced index is the host's choice) *)
Allowed(n, eui, nwk, want, cached) ==
    IF Flagged(n, eui) = want THEN {<<Read(eui)>>}                                             \* case A
    ELSE IF Slot(n, eui) # 0 THEN {<<Read(eui), Lookup(eui), SetExt(eui, want)>>}              \* case B
    ELSE IF cached
         THEN {<<Read(eui), Lookup(eui), Replace(i, eui, nwk, want)>> : i \in 0 .. Len(n.tbl) - 1}      \* case C, size known
    ELSE IF n.sizeOk
         THEN {<<Read(eui), Lookup(eui), SizeRead, Replace(i, eui, nwk, want)>> : i \in 0 .. Len(n.tbl) - 1}
    ELSE {<<Read(eui), Lookup(eui), SizeRead, SetExt(eui, want)>>}                             \* case D

(* the NCP's state after it executed one state-changing command *)
Apply(n, cmd) ==
    CASE cmd.c = "setExtendedTimeout" ->
           [n EXCEPT !.ext = IF cmd.want THEN @ \cup {cmd.eui} ELSE @ \ {cmd.eui}]
      [] cmd.c = "replaceAddressTableEntry" ->
           LET old == n.tbl[cmd.idx + 1].eui IN
           [n EXCEPT !.tbl[cmd.idx + 1] = [eui |-> cmd.eui, nwk |-> cmd.nwk],
                     !.ext = IF cmd.want THEN (@ \ {old}) \cup {cmd.eui} ELSE (@ \ {old}) \ {cmd.eui}]
      [] OTHER -> n
RECURSIVE ApplyAll(_, _)
ApplyAll(n, cmds) == IF cmds = <<>> THEN n ELSE ApplyAll(Apply(n, Head(cmds)), Tail(cmds))

(* what every allowed sequence achieves *)
Achieves(n, eui, nwk, want, cached) ==
    \A cmds \in Allowed(n, eui, nwk, want, cached) :
        LET m == ApplyAll(n, cmds) IN
          /\ Flagged(m, eui) = want                                         \* the request took effect
          /\ Cardinality({i \in 1 .. Len(cmds) : cmds[i].c \in {"setExtendedTimeout", "replaceAddressTableEntry"}}) <= 1
          /\ \A i \in 1 .. Len(m.tbl) : m.tbl[i] # n.tbl[i] => m.tbl[i].eui = eui    \* only a slot given to this node changes
          /\ (Slot(n, eui) # 0 => m.tbl = n.tbl)                           \* a node already in the table keeps its slot
=============================================================================
