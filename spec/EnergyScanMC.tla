----------------------------- MODULE EnergyScanMC -----------------------------
(* closed model: an NCP that answers every startScan with any sequence of up to  *)
(* MaxRes results over the asked channels plus one foreign channel, values from  *)
(* a small set; under the assumption that every scan reports at least one asked  *)
(* channel the scan terminates (without it: the code loops for ever - the empty  *)
(* answer is the witness TLC must find).                                         *)
EXTENDS EnergyScan, TLC
CONSTANTS Chans, Count, MaxRes, Vals, Foreign, MaxScans
VARIABLES s, n
vars == <<s, n>>
Results == UNION {[1 .. k -> (Chans \cup {Foreign}) \X Vals] : k \in 0 .. MaxRes}
Init == s = ES0(Chans, Count) /\ n = 0
Scan(progress) == /\ Running(s) /\ n < MaxScans
                  /\ \E res \in Results : (progress => ChansOf(res) \cap s.todo # {}) /\ s' = ScanFn(s, Chans, res)
                  /\ n' = n + 1
Spec == Init /\ [][Scan(TRUE)]_vars /\ WF_vars(Scan(TRUE))
SpecAny == Init /\ [][Scan(FALSE)]_vars /\ WF_vars(Scan(FALSE))
Done == Complete(s, Chans, Count)
Missing == AsksOnlyMissing(s, Chans)
Bounded == n <= Count * Cardinality(Chans)                 \* with progress: at most one scan per channel and pass
Terminates == <>(~Running(s))
=============================================================================
