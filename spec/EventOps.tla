------------------------------ MODULE EventOps ------------------------------
(***************************************************************************)
(* C17 - operations completed by an event: forming a network, leaving a    *)
(* network, bringing the network up (command + matching stack-status       *)
(* event) and scans (command + result callbacks + completion callback);    *)
(* EZSP.formNetwork / leaveNetwork / wait_for_stack_status / _list_command *)
(* and ControllerApplication._ensure_network_running.                      *)
(* Step functions on an operation record o:                                *)
(*   kind : "form" | "leave" | "bringup" | "scan"                          *)
(*   ph   : "idle" | "probing" (bringup: network-state query outstanding)  *)
(*          | "sent" (command outstanding, listener registered)            *)
(*          | "waiting" (command succeeded, waiting for the event /        *)
(*            completion) | "done"                                         *)
(*   saw  : the matching event arrived since the listener was registered   *)
(*   res  : scan results collected so far;  t0 : time the wait started     *)
(* Outputs: [o |-> "cmd", name] command issued, [o |-> "done", res, val]   *)
(*   res: ok | refused | notformed | timeout | cancelled | scanfail        *)
(***************************************************************************)
EXTENDS Integers, Sequences

CONSTANTS OpTimeout,     \* form / leave: ms (configuration)
          UpTimeout,     \* bring-up: ms (configuration)
          CmdTimeout     \* EZSP command timeout: ms (configuration)

Matching(kind) == IF kind = "leave" THEN "down" ELSE "up"
TimeoutOf(kind) == IF kind = "bringup" THEN UpTimeout ELSE OpTimeout

OInit(kind) == [kind |-> kind, ph |-> "idle", saw |-> FALSE, res |-> <<>>, t0 |-> 0, cok |-> FALSE]
ER(o, out) == [o |-> o, out |-> out]
DoneE(r, v) == [o |-> "done", res |-> r, val |-> v]
Cmd(n) == [o |-> "cmd", name |-> n]

(* the operation is started: the listener / callback is registered BEFORE the command is issued *)
StartFn(o, now) ==
    CASE o.kind = "bringup" -> ER([o EXCEPT !.ph = "probing", !.t0 = now], <<Cmd("networkState")>>)
      [] o.kind = "form"    -> ER([o EXCEPT !.ph = "sent", !.t0 = now], <<Cmd("formNetwork")>>)
      [] o.kind = "leave"   -> ER([o EXCEPT !.ph = "sent", !.t0 = now], <<Cmd("leaveNetwork")>>)
      [] o.kind = "scan"    -> ER([o EXCEPT !.ph = "sent", !.t0 = now], <<Cmd("startScan")>>)

(* answer to the bring-up's network-state query *)
ProbeFn(o, joined, now) ==
    IF o.ph # "probing" THEN ER(o, <<>>)
    ELSE IF joined THEN ER([o EXCEPT !.ph = "done"], <<DoneE("ok", <<>>)>>)          \* already running: nothing to do
    ELSE ER([o EXCEPT !.ph = "sent", !.t0 = now], <<Cmd("networkInit")>>)             \* listener registered, then the command

(* the command's own response: st \in "ok" | "refuse" | "notjoined" *)
RespFn(o, st, now) ==
    IF o.ph # "sent" THEN ER(o, <<>>)
    ELSE IF st # "ok"
    THEN ER([o EXCEPT !.ph = "done"],
            <<DoneE(IF o.kind = "bringup" /\ st = "notjoined" THEN "notformed" ELSE "refused", <<>>)>>)
    ELSE IF o.kind # "scan" /\ o.saw
    THEN ER([o EXCEPT !.ph = "done"], <<DoneE("ok", <<>>)>>)        \* the event overtook the response: not missed
    ELSE ER([o EXCEPT !.ph = "waiting", !.t0 = now], <<>>)

(* a stack-status event: "up" | "down" | "other" *)
StatusFn(o, s) ==
    IF o.kind = "scan" \/ o.ph \notin {"sent", "waiting"} \/ s # Matching(o.kind) THEN ER(o, <<>>)
    ELSE IF o.ph = "waiting" THEN ER([o EXCEPT !.ph = "done"], <<DoneE("ok", <<>>)>>)
    ELSE ER([o EXCEPT !.saw = TRUE], <<>>)

(* a scan result callback carrying value x *)
ResultFn(o, x) ==
    IF o.kind = "scan" /\ o.ph \in {"sent", "waiting"} THEN ER([o EXCEPT !.res = Append(o.res, x)], <<>>) ELSE ER(o, <<>>)

(* the scan's completion callback with status ok / fail: if it overtakes the command's response it is kept *)
CompleteFn(o, ok) ==
    IF o.kind # "scan" \/ o.ph \notin {"sent", "waiting"} THEN ER(o, <<>>)
    ELSE IF o.ph = "waiting"
    THEN ER([o EXCEPT !.ph = "done"], <<IF ok THEN DoneE("ok", o.res) ELSE DoneE("scanfail", <<>>)>>)
    ELSE ER([o EXCEPT !.saw = TRUE, !.cok = ok], <<>>)

(* scan: response after an early completion *)
RespScanEarly(o, st) ==
    IF st # "ok" THEN ER([o EXCEPT !.ph = "done"], <<DoneE("refused", <<>>)>>)
    ELSE ER([o EXCEPT !.ph = "done"], <<IF o.cok THEN DoneE("ok", o.res) ELSE DoneE("scanfail", <<>>)>>)

(* the operation timeout expires (form / leave / bring-up wait for the event) *)
TimeoutEnabled(o) == o.kind # "scan" /\ o.ph = "waiting"
TimeoutFn(o) == ER([o EXCEPT !.ph = "done"], <<DoneE("timeout", <<>>)>>)

(* the command itself gets no response within the command timeout *)
CmdTimeoutEnabled(o) == o.ph \in {"probing", "sent"}
CmdTimeoutFn(o) == ER([o EXCEPT !.ph = "done"], <<DoneE("timeout", <<>>)>>)

CancelFn(o) == IF o.ph \in {"idle", "done"} THEN ER(o, <<>>) ELSE ER([o EXCEPT !.ph = "done"], <<DoneE("cancelled", <<>>)>>)
=============================================================================
