------------------------------ MODULE Incoming ------------------------------
(***************************************************************************)
(* C13 - translation of incoming NCP callbacks into what zigpy receives    *)
(* (ControllerApplication.ezsp_callback_handler / _handle_frame /          *)
(* _handle_tc_join_handler).  A mapping specification; numeric codes are   *)
(* pinned from the EmberZNet headers.                                      *)
(* The callback as decoded by an independent reader of the wire bytes:     *)
(*   incoming: [type, profile, cluster, srcEp, dstEp, group, apsSeq, lqi,  *)
(*              rssi (signed), sender, msg (bytes)]                         *)
(*   join:     [nwk, ieee (8 bytes), status, decision, parent]             *)
(***************************************************************************)
EXTENDS Integers, Sequences

INCOMING_UNICAST == 0
INCOMING_MULTICAST == 2
INCOMING_BROADCAST == 4
Delivered == {INCOMING_UNICAST, INCOMING_MULTICAST, INCOMING_BROADCAST}

DEVICE_LEFT == 2          \* EmberDeviceUpdate
DENY_JOIN == 2            \* EmberJoinDecision

(* wire field order of incomingMessageHandler after the frame header *)
FieldOrder(ver) ==
    IF ver >= 14
    THEN <<"type", "aps", "sender", "senderEui64", "bindingIndex", "addressIndex", "lqi", "rssi", "timestamp", "message">>
    ELSE <<"type", "aps", "lqi", "rssi", "sender", "bindingIndex", "addressIndex", "message">>

(* the packets zigpy must receive for an incoming-message callback (own = the coordinator's network address) *)
Packets(cb, own) ==
    IF cb.type \notin Delivered THEN <<>>
    ELSE <<[src |-> cb.sender, srcEp |-> cb.srcEp, dstEp |-> cb.dstEp, profile |-> cb.profile, cluster |-> cb.cluster,
            tsn |-> cb.apsSeq, data |-> cb.msg, lqi |-> cb.lqi, rssi |-> cb.rssi,
            dstKind |-> CASE cb.type = INCOMING_UNICAST -> "nwk" [] cb.type = INCOMING_MULTICAST -> "group" [] OTHER -> "broadcast",
            dstAddr |-> CASE cb.type = INCOMING_UNICAST -> own [] cb.type = INCOMING_MULTICAST -> cb.group [] OTHER -> 0 - 1]>>
(* the broadcast destination address is not pinned (dstAddr -1 = any) *)
SamePacket(o, e) == /\ o.src = e.src /\ o.srcEp = e.srcEp /\ o.dstEp = e.dstEp /\ o.profile = e.profile /\ o.cluster = e.cluster
                    /\ o.tsn = e.tsn /\ o.data = e.data /\ o.lqi = e.lqi /\ o.rssi = e.rssi /\ o.dstKind = e.dstKind
                    /\ (e.dstAddr = 0 - 1 \/ o.dstAddr = e.dstAddr)

(* what a trust-centre join callback must produce: sequence of [what, nwk, ieee, parent] *)
Joins(cb) ==
    IF cb.status = DEVICE_LEFT THEN <<[what |-> "leave", nwk |-> cb.nwk, ieee |-> cb.ieee, parent |-> 0 - 1]>>
    ELSE IF cb.decision = DENY_JOIN THEN <<>>
    ELSE <<[what |-> "join", nwk |-> cb.nwk, ieee |-> cb.ieee, parent |-> cb.parent]>>
=============================================================================
