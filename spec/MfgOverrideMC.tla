---------------------------- MODULE MfgOverrideMC ----------------------------
(* Closed model for X02: joins of ordinary and vendor-prefixed devices at any  *)
(* instant, the NCP answering each command at once, later or never, time in    *)
(* unit steps.  Checked: the vendor code is active while the task sleeps, the  *)
(* default is back whenever nothing is pending (unless the first command timed *)
(* out), the NCP only ever holds the default or a joining vendor's code, and - *)
(* under fair time - every override ends.                                      *)
EXTENDS MfgOverride, TLC
CONSTANTS Codes, MaxT, MaxJoins
VARIABLES s, now, pend, joins
vars == <<s, now, pend, joins>>          \* pend: command numbers whose response is still to come
Modes == {"reply", "late", "never"}         \* "late": any time later, also after the call gave up
Init == s = MInit /\ now = 0 /\ pend = {} /\ joins = 0
Join(m, mode) ==
    /\ joins < MaxJoins /\ joins' = joins + 1
    /\ s' = JoinFn(s, m, mode, now).s
    /\ pend' = IF m # 0 /\ mode = "late" THEN pend \cup {s.n + 1} ELSE pend
    /\ UNCHANGED now
Resp(k) == /\ k \in pend /\ s' = RespFn(s, k, now).s /\ pend' = pend \ {k} /\ UNCHANGED <<now, joins>>
Fire(mode) ==
    /\ TimerDue(s, now)
    /\ s' = TimerFn(s, mode, now).s
    /\ pend' = IF SleepDue(s, now) /\ mode = "late" THEN pend \cup {s.n + 1} ELSE pend
    /\ UNCHANGED <<now, joins>>
Advance == /\ ~TimerDue(s, now) /\ now < MaxT /\ now' = now + 1 /\ UNCHANGED <<s, pend, joins>>
DoJoin == \E m \in Codes \cup {0}, mode \in Modes : Join(m, mode)
DoResp == \E k \in pend : Resp(k)
DoFire == \E mode \in Modes : Fire(mode)
Next == DoJoin \/ DoResp \/ DoFire \/ Advance
Spec == Init /\ [][Next]_vars /\ WF_vars(Advance) /\ WF_vars(DoFire)
Active == ActiveDuringWindow(s)
Restored == RestoredWhenIdle(s)
KnownCode == s.ncp \in Codes \cup {Default}
PendConsistent == \A k \in pend : k <= s.n
(* with time running and the horizon far enough, a pending override always ends (by restoring or by dying) *)
EveryOverrideEnds == (joins = MaxJoins /\ now + Delay + 2 * CmdTimeout < MaxT /\ s.task.ph # "none") ~> (s.task.ph = "none")
=============================================================================
