----------------------------- MODULE IncomingMC -----------------------------
(* the mapping is total over all 256 message-type, status and decision bytes; *)
(* exactly the three delivered types produce a packet; a departure always     *)
(* yields a leave and a denied join nothing                                   *)
EXTENDS Incoming, TLC
VARIABLES ty, st, dec
Init == ty \in 0 .. 255 /\ st \in 0 .. 255 /\ dec \in {0, 1, 2, 3, 255}
Next == UNCHANGED <<ty, st, dec>>
Spec == Init /\ [][Next]_<<ty, st, dec>>
Cb == [type |-> ty, profile |-> 260, cluster |-> 6, srcEp |-> 1, dstEp |-> 2, group |-> 77, apsSeq |-> 9, lqi |-> 200,
       rssi |-> 0 - 70, sender |-> 4660, msg |-> <<1, 2>>]
J == [nwk |-> 4660, ieee |-> <<1, 2, 3, 4, 5, 6, 7, 8>>, status |-> st, decision |-> dec, parent |-> 22]
ExactlyOneOrNone == Len(Packets(Cb, 0)) = (IF ty \in {0, 2, 4} THEN 1 ELSE 0)
DstKind == ty \in {0, 2, 4} => Packets(Cb, 17)[1].dstKind = (CASE ty = 0 -> "nwk" [] ty = 2 -> "group" [] OTHER -> "broadcast")
JoinTriage == /\ (st = 2 => Joins(J) = <<[what |-> "leave", nwk |-> 4660, ieee |-> J.ieee, parent |-> 0 - 1]>>)
              /\ (st # 2 /\ dec = 2 => Joins(J) = <<>>)
              /\ (st # 2 /\ dec # 2 => Len(Joins(J)) = 1 /\ Joins(J)[1].what = "join" /\ Joins(J)[1].parent = 22)
=============================================================================
