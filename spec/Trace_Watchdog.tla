--------------------------- MODULE Trace_Watchdog ----------------------------
(* C19 binding: recorded feeds of the real ControllerApplication against the  *)
(* Watchdog specification: raise/return of each feed and the keep-alive       *)
(* commands seen by the simulated NCP.                                        *)
EXTENDS Watchdog, Json, IOUtils, TLCExt, TLC
Traces == JsonDeserialize(IOEnv.TRACE_FILE)
VARIABLES tid, l
tvars == <<vars, tid, l>>
Tr == Traces[tid]
TInit == /\ tid \in 1 .. Len(Traces) /\ l = 2
         /\ Traces[tid][1].a = "init"
         /\ fails = 0 /\ feeds = 0 /\ ver = Traces[tid][1].ver
         /\ raised = FALSE /\ cmd = "none" /\ hist = <<>>
TNext == /\ l <= Len(Tr)
         /\ LET e == Tr[l] IN
              \/ /\ e.a = "feed" /\ Feed(e.o)
                 /\ raised' = (e.raised = 1)
                 /\ (e.o # "ezsperr" => e.cmds # <<>>)
                 /\ (e.cmds # <<>> => e.cmds[1] = cmd')                           \* the keep-alive the NCP saw
                 /\ (e.raised = 1 => e.exc \in {"TimeoutError", "EzspError"})
                 /\ (e.a = "feed" /\ e.lost >= 0 => (e.lost = 1) = raised')       \* loop mode: zigpy told iff raised
              \/ e.a = "restart" /\ Restart
              \* frames the NCP sends on its own (incoming messages, stack status, delivery confirmations) between two feeds are no keep-alive
              \* outcome: the run of failures is neither cleared nor lengthened by them
              \/ e.a = "callback" /\ e.raised = 0 /\ UNCHANGED vars
              \* a feed whose caller is cancelled while the keep-alive is outstanding: the cancellation propagates (it is neither swallowed nor
              \* turned into a restart request) and the feed counts neither as a failure nor as a success
              \/ /\ e.a = "cancelled" /\ e.exc = "CancelledError"
                 /\ feeds' = IF ver = "v4" THEN feeds ELSE feeds + 1
                 /\ cmd' = IF ver = "v4" THEN "nop" ELSE IF feeds' % Period = 0 THEN "readAndClearCounters" ELSE "readCounters"
                 /\ (e.cmds # <<>> => e.cmds[1] = cmd')
                 /\ UNCHANGED <<fails, ver, hist, raised>>
         /\ l' = l + 1 /\ UNCHANGED tid
TSpec == TInit /\ [][TNext]_tvars
Progress == TLCSet(1, [TLCGet(1) EXCEPT ![tid] = IF @ < l THEN l ELSE @])
Post == /\ PrintT(<<"BVPROGRESS", TLCGet(1)>>)
        /\ \A i \in 1 .. Len(Traces) : TLCGet(1)[i] = Len(Traces[i]) + 1
ASSUME TLCSet(1, [i \in 1 .. Len(Traces) |-> 0])
=============================================================================
