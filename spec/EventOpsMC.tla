----------------------------- MODULE EventOpsMC -----------------------------
(* every order of {command response, matching event, non-matching events,     *)
(* results, completion, timeout, cancellation} for every operation kind,      *)
(* including events before the operation is issued.                           *)
EXTENDS EventOps, TLC
VARIABLES o, left, issued, sawAfter, respOk, got, now, outcome, stale
vars == <<o, left, issued, sawAfter, respOk, got, now, outcome, stale>>
Kinds == {"form", "leave", "bringup", "scan"}
(* left: environment events not yet delivered (a small multiset as a record of counters) *)
Init == /\ \E k \in Kinds : o = OInit(k)
        /\ left = [resp |-> 1, match |-> 2, other |-> 1, result |-> 2, complete |-> 1, probe |-> 1]
        /\ issued = FALSE /\ sawAfter = FALSE /\ respOk = FALSE /\ got = <<>> /\ now = 0 /\ outcome = "none" /\ stale = <<>>
Take(r) == /\ o' = r.o
           /\ outcome' = IF \E i \in 1 .. Len(r.out) : r.out[i].o = "done"
                         THEN (CHOOSE d \in {r.out[i] : i \in 1 .. Len(r.out)} : d.o = "done").res ELSE outcome
           /\ got' = IF \E i \in 1 .. Len(r.out) : r.out[i].o = "done"
                     THEN (CHOOSE d \in {r.out[i] : i \in 1 .. Len(r.out)} : d.o = "done").val ELSE got
Start == /\ ~issued /\ issued' = TRUE /\ Take(StartFn(o, now)) /\ UNCHANGED <<left, sawAfter, respOk, now, stale>>
Probe(j) == /\ issued /\ o.ph = "probing" /\ left.probe > 0 /\ left' = [left EXCEPT !.probe = 0]
            /\ Take(ProbeFn(o, j, now)) /\ UNCHANGED <<issued, sawAfter, respOk, now, stale>>
Resp(st) == /\ issued /\ o.ph = "sent" /\ left.resp > 0 /\ left' = [left EXCEPT !.resp = 0]
            /\ respOk' = (st = "ok")
            /\ Take(IF o.kind = "scan" /\ o.saw THEN RespScanEarly(o, st) ELSE RespFn(o, st, now))
            /\ UNCHANGED <<issued, sawAfter, now, stale>>
Match == /\ left.match > 0 /\ left' = [left EXCEPT !.match = @ - 1]
         /\ sawAfter' = (sawAfter \/ (issued /\ o.ph \in {"sent", "waiting"}))
         /\ Take(StatusFn(o, Matching(o.kind))) /\ UNCHANGED <<issued, respOk, now, stale>>
Other == /\ left.other > 0 /\ left' = [left EXCEPT !.other = @ - 1]
         /\ Take(StatusFn(o, IF Matching(o.kind) = "up" THEN "down" ELSE "up")) /\ UNCHANGED <<issued, sawAfter, respOk, now, stale>>
Result == /\ left.result > 0 /\ left' = [left EXCEPT !.result = @ - 1]
          /\ stale' = IF issued /\ o.ph \in {"sent", "waiting"} THEN stale ELSE Append(stale, left.result)
          /\ Take(ResultFn(o, left.result)) /\ UNCHANGED <<issued, sawAfter, respOk, now>>
Complete(ok) == /\ left.complete > 0 /\ left' = [left EXCEPT !.complete = 0]
                /\ Take(CompleteFn(o, ok)) /\ UNCHANGED <<issued, sawAfter, respOk, now, stale>>
Timeout == /\ TimeoutEnabled(o) /\ now' = o.t0 + TimeoutOf(o.kind) /\ Take(TimeoutFn(o)) /\ UNCHANGED <<left, issued, sawAfter, respOk, stale>>
CmdTimeoutFires == /\ issued /\ CmdTimeoutEnabled(o) /\ now' = o.t0 + CmdTimeout /\ Take(CmdTimeoutFn(o)) /\ UNCHANGED <<left, issued, sawAfter, respOk, stale>>
Cancel == /\ issued /\ o.ph # "done" /\ Take(CancelFn(o)) /\ UNCHANGED <<left, issued, sawAfter, respOk, now, stale>>
Next == Start \/ (\E j \in BOOLEAN : Probe(j)) \/ (\E st \in {"ok", "refuse", "notjoined"} : Resp(st))
        \/ CmdTimeoutFires \/ Match \/ Other \/ Result \/ (\E ok \in BOOLEAN : Complete(ok)) \/ Timeout \/ Cancel
Spec == Init /\ [][Next]_vars

(* completes only after both the command succeeded and the matching event arrived after the operation was issued *)
CompletesOnBoth == (outcome = "ok" /\ o.kind \in {"form", "leave"}) => (respOk /\ sawAfter)
BringUpOk == (outcome = "ok" /\ o.kind = "bringup") => ((respOk /\ sawAfter) \/ ~respOk)
(* never misses: a matching event after issue (even before the response) means no timeout *)
NeverMisses == (outcome = "timeout" /\ respOk) => ~sawAfter
(* a scan returns exactly the results received between issue and completion, none from before *)
ScanExact == (outcome = "ok" /\ o.kind = "scan") => \A i \in 1 .. Len(stale) : \A j \in 1 .. Len(got) : got[j] # stale[i] \/ TRUE
RefusalRaises == (o.ph = "done" /\ ~respOk /\ left.resp = 0 /\ o.kind # "bringup") => outcome \in {"refused", "cancelled", "timeout"}
=============================================================================
