------------------------------ MODULE EzspCmd -------------------------------
(***************************************************************************)
(* C06 / C08 - the EZSP command multiplexer                                 *)
(* (bellows/ezsp/protocol.py ProtocolHandler.command / __call__ and         *)
(* EZSP._command / frame_received / handle_callback), per handler lifetime. *)
(*                                                                          *)
(* Step functions on a state record p (same style as AshHost):              *)
(*   seq   : next request sequence number (mod SeqM)                      *)
(*   aw    : sequence number -> [c, cmd, live]   registered requests; an    *)
(*           entry stays until a frame with its number arrives, live =      *)
(*           its caller is still waiting for it                             *)
(*   hold  : [c, cmd, ph, t0]  the call owning the single command slot      *)
(*           (c = 0 none); ph = "sending" (link-level send in progress) or  *)
(*           "waiting" (bounded wait for the response, started at t0)       *)
(*   wq    : queued calls <<[c, cmd, pr, tk]>> sorted by (-pr, tk)          *)
(*   tk    : ticket counter (first come first served within a class)        *)
(* Outputs: [o |-> "sent", c, cmd, seq]   frame handed to the link layer    *)
(*          [o |-> "done", c, res, val]   res: ok | timeout | linkfail |    *)
(*                                        cancelled | invalid               *)
(*          [o |-> "cb", cmd, val]        frame handed to the callbacks     *)
(***************************************************************************)
EXTENDS Naturals, Sequences, SequencesExt, FiniteSets

CONSTANTS SeqM,        \* 256 in the protocol; small in the bounded model
          CmdTimeout     \* command timeout in ms (configuration)

(* priority classes of the property: keep-alives and counter reads first, *)
(* packet-send commands last                                               *)
(* the keep-alive is what the watchdog issues: nop (version 4), the counter reads, and the free-buffer read getValue *)
High == {"nop", "readCounters", "readAndClearCounters", "getValue"}
Low  == {"sendUnicast", "sendMulticast", "sendBroadcast",
         "setSourceRoute", "setExtendedTimeout"}      \* the set-up commands of a send belong to the packet-send path
Prio(cmd) == IF cmd \in High THEN 2 ELSE IF cmd \in Low THEN 0 ELSE 1

NoHold == [c |-> 0, cmd |-> "", ph |-> "", t0 |-> 0, early |-> "none", ev |-> 0]
NoOrph == [c |-> 0, t0 |-> 0]
PInit == [seq |-> 0, aw |-> <<>>, hold |-> NoHold, wq |-> <<>>, tk |-> 0, orph |-> NoOrph]
PR(p, out) == [p |-> p, out |-> out]

Sent(c, cmd, s) == [o |-> "sent", c |-> c, cmd |-> cmd, seq |-> s]
DoneR(c, res, val) == [o |-> "done", c |-> c, res |-> res, val |-> val]
Cb(cmd, val) == [o |-> "cb", cmd |-> cmd, val |-> val]

AwSet(aw, s, e) == [x \in (DOMAIN aw) \cup {s} |-> IF x = s THEN e ELSE aw[x]]
AwDel(aw, s) == [x \in (DOMAIN aw) \ {s} |-> aw[x]]
AwDead(aw, c) == [x \in DOMAIN aw |-> IF aw[x].c = c THEN [aw[x] EXCEPT !.live = FALSE] ELSE aw[x]]

(* insert into the wait queue: after every entry of the same or a higher class *)
RECURSIVE InsertQ(_, _)
InsertQ(q, e) == IF q = <<>> THEN <<e>>
                 ELSE IF Head(q).pr >= e.pr THEN <<Head(q)>> \o InsertQ(Tail(q), e)
                 ELSE <<e>> \o q

(* a call takes the slot: register under the next sequence number, hand the frame to the link. *)
(* sendmode: "ok" the link send returns at once, "fail" it raises at once, "hang" it stays     *)
(* pending until resolved                                                                       *)
RECURSIVE Start(_, _, _, _, _, _)
Grant(p, out, modes, now) ==
    IF p.hold.c = 0 /\ p.wq # <<>>
    THEN Start([p EXCEPT !.wq = Tail(p.wq)], Head(p.wq).c, Head(p.wq).cmd, out, modes, now)
    ELSE PR(p, out)
Start(p, c, cmd, out, modes, now) ==
    LET s  == p.seq
        m  == IF modes = <<>> THEN "ok" ELSE Head(modes)
        ms == IF modes = <<>> THEN <<>> ELSE Tail(modes)
        p1 == [p EXCEPT !.seq = (s + 1) % SeqM,
                        !.aw = AwSet(p.aw, s, [c |-> c, cmd |-> cmd, live |-> TRUE])]
        o1 == Append(out, Sent(c, cmd, s))
    IN CASE m = "ok"   -> PR([p1 EXCEPT !.hold = [NoHold EXCEPT !.c = c, !.cmd = cmd, !.ph = "waiting", !.t0 = now]], o1)
         [] m = "hang" -> PR([p1 EXCEPT !.hold = [NoHold EXCEPT !.c = c, !.cmd = cmd, !.ph = "sending", !.t0 = now]], o1)
         [] m = "fail" -> Grant([p1 EXCEPT !.aw = AwDead(p1.aw, c), !.hold = NoHold],
                                Append(o1, DoneR(c, "linkfail", 0)), ms, now)

(* EZSP._command(): the caller either takes the free slot at once or queues by priority *)
CallFn(p, c, cmd, modes, now) ==
    IF p.hold.c = 0 /\ p.wq = <<>>
    THEN Start(p, c, cmd, <<>>, modes, now)
    ELSE PR([p EXCEPT !.tk = p.tk + 1,
                      !.wq = InsertQ(p.wq, [c |-> c, cmd |-> cmd, pr |-> Prio(cmd), tk |-> p.tk + 1])], <<>>)

(* a hanging link-level send completes (ok) or fails *)
SendResFn(p, ok, modes, now) ==
    IF p.hold.c = 0 \/ p.hold.ph # "sending" THEN PR(p, <<>>)
    ELSE IF ok THEN
         (IF p.hold.early = "none" THEN PR([p EXCEPT !.hold.ph = "waiting", !.hold.t0 = now], <<>>)
          ELSE Grant([p EXCEPT !.hold = NoHold],       \* the response had overtaken the send: returned at once
                     <<DoneR(p.hold.c, p.hold.early, p.hold.ev)>>, modes, now))
    ELSE Grant([p EXCEPT !.aw = AwDead(p.aw, p.hold.c), !.hold = NoHold],
               <<DoneR(p.hold.c, "linkfail", 0)>>, modes, now)

(* the command timeout of the call holding the slot expires *)
TimeoutEnabled(p) == p.hold.c # 0 /\ p.hold.ph = "waiting"
TimeoutFn(p, modes, now) ==
    Grant([p EXCEPT !.aw = AwDead(p.aw, p.hold.c), !.hold = NoHold],
          <<DoneR(p.hold.c, "timeout", 0)>>, modes, now)

(* the caller of call c is cancelled *)
CancelFn(p, c, modes, now) ==
    IF p.hold.c = c
    THEN Grant([p EXCEPT !.aw = AwDead(p.aw, c), !.hold = NoHold], <<DoneR(c, "cancelled", 0)>>, modes, now)
    ELSE IF \E i \in 1 .. Len(p.wq) : p.wq[i].c = c
    THEN PR([p EXCEPT !.wq = SelectSeq(p.wq, LAMBDA e : e.c # c)], <<DoneR(c, "cancelled", 0)>>)
    ELSE PR(p, <<>>)

(* the protocol handler is replaced (EZSP.reset() falls back to the legacy handler, version() adopts the NCP's tables): the new    *)
(* handler starts from sequence number 0 with no registrations.  A call still waiting for its response on the replaced handler is  *)
(* orphaned: NOTHING that arrives afterwards may complete it (frame IDs mean other commands in other versions) - it ends with its  *)
(* own command timeout or its caller's cancellation.  Modelled for a handler with nothing queued and at most one orphan.           *)
SwapEnabled(p) == p.wq = <<>> /\ p.orph.c = 0 /\ (p.hold.c = 0 \/ p.hold.ph = "waiting")
SwapFn(p) == PR([PInit EXCEPT !.orph = IF p.hold.c = 0 THEN NoOrph ELSE [c |-> p.hold.c, t0 |-> p.hold.t0]], <<>>)
OrphTimeoutEnabled(p) == p.orph.c # 0
OrphTimeoutFn(p) == PR([p EXCEPT !.orph = NoOrph], <<DoneR(p.orph.c, "timeout", 0)>>)
OrphCancelFn(p) == PR([p EXCEPT !.orph = NoOrph], <<DoneR(p.orph.c, "cancelled", 0)>>)

(* a decodable frame of a known command arrives: f = [seq, cmd, val]                        *)
(* alternatives: the set of allowed results (latitude for frames hitting a stale entry)      *)
FrameAlts(p, f, modes, now) ==
    IF f.seq \in DOMAIN p.aw
    THEN LET e  == p.aw[f.seq]
             p1 == [p EXCEPT !.aw = AwDel(p.aw, f.seq)]
         IN IF e.live /\ p.hold.c = e.c /\ p.hold.ph = "waiting"
            THEN IF f.cmd = "invalidCommand"
                 THEN {Grant([p1 EXCEPT !.hold = NoHold], <<DoneR(e.c, "invalid", 0)>>, modes, now)}
                 ELSE IF f.cmd = e.cmd
                 THEN {Grant([p1 EXCEPT !.hold = NoHold], <<DoneR(e.c, "ok", f.val)>>, modes, now)}
                 ELSE (* known frame, other ID than the pending command with this number: it must not   *)
                      (* complete the call; the frame may be dropped or go to the callbacks; the entry  *)
                      (* may or may not survive                                                          *)
                      {PR(p1, <<>>), PR(p, <<>>), PR(p1, <<Cb(f.cmd, f.val)>>), PR(p, <<Cb(f.cmd, f.val)>>)}
            ELSE IF e.live /\ p.hold.c = e.c /\ p.hold.ph = "sending"
            THEN (* the response overtakes the completion of the link-level send: the result is kept *)
                 IF f.cmd = "invalidCommand" THEN {PR([p1 EXCEPT !.hold.early = "invalid"], <<>>)}
                 ELSE IF f.cmd = e.cmd THEN {PR([p1 EXCEPT !.hold.early = "ok", !.hold.ev = f.val], <<>>)}
                 ELSE {PR(p1, <<>>), PR(p, <<>>), PR(p1, <<Cb(f.cmd, f.val)>>), PR(p, <<Cb(f.cmd, f.val)>>)}
            ELSE (* stale entry (its caller timed out, failed or was cancelled): dropped, or handed to the callbacks once *)
                 {PR(p1, <<>>), PR(p1, <<Cb(f.cmd, f.val)>>)}
    ELSE {PR(p, <<Cb(f.cmd, f.val)>>)}           \* answers no registered request: callbacks, exactly once
=============================================================================
