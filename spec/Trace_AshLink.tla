---------------------------- MODULE Trace_AshLink ----------------------------
(* Code -> spec binding for C01: a recorded run of the real AshProtocol      *)
(* against the simulated conforming NCP over the faulty line must be a       *)
(* behaviour of host || line || NCP; host steps are checked against AshHost, *)
(* the simulated NCP's steps against AshNcp, the line is a pair of FIFO      *)
(* queues fed by the frames actually written, and the end-to-end delivery    *)
(* invariants are evaluated on every state.                                  *)
EXTENDS AshNcp, Json, IOUtils, TLCExt, TLC, Integers

CONSTANTS TMin, TMax
(* recorded instants are rounded to whole milliseconds: an interval of exactly TMin / TMax may read 1 ms off *)
InWindow(dt) == dt \in (TMin - 1) .. (TMax + 1)

Traces == JsonDeserialize(IOEnv.TRACE_FILE)
VARIABLES h, n, h2n, n2h, hsub, nsub, hUp, nUp, res, canc, tw, heldH, heldN, tid, l
tvars == <<h, n, h2n, n2h, hsub, nsub, hUp, nUp, res, canc, tw, heldH, heldN, tid, l>>
Tr == Traces[tid]

TInit == /\ tid \in 1 .. Len(Traces) /\ l = 1
         /\ h \in {[HInit EXCEPT !.roll = b] : b \in BOOLEAN} /\ n = NInit /\ h2n = <<>> /\ n2h = <<>>
         /\ hsub = {} /\ nsub = {} /\ hUp = <<>> /\ nUp = <<>> /\ res = <<>> /\ canc = {} /\ tw = 0 /\ heldH = <<>> /\ heldN = <<>>

Proj(s, K) == SelectSeq(s, LAMBDA o : o.o \in K)
Frames(out) == LET w == Proj(out, {"write"}) IN [i \in 1 .. Len(w) |-> w[i].f]
Pls(out) == LET u == Proj(out, {"up_data"}) IN [i \in 1 .. Len(u) |-> u[i].pl]
HasData(out) == \E i \in 1 .. Len(out) : out[i].o = "write" /\ out[i].f.type = "DATA"

(* host: writes matched with latitude, upward calls exact, outcomes exact for callers still listening *)
HostSame(obsOut, modOut) ==
    /\ LET wa == Frames(obsOut) wb == Frames(modOut) IN
         Len(wa) = Len(wb) /\ \A i \in 1 .. Len(wa) : MatchFrame(wa[i], wb[i])
    /\ Proj(obsOut, {"up_data", "up_reset"}) = Proj(modOut, {"up_data", "up_reset"})
    /\ Proj(obsOut, {"done"}) = SelectSeq(modOut, LAMBDA o : o.o = "done" /\ o.id \notin canc)
    /\ Proj(obsOut, {"raised"}) = <<>>

HostApply(e, r) ==
    /\ HostSame(e.out, r.out)
    /\ h' = r.h
    /\ h2n' = h2n \o Frames(e.out)
    /\ hUp' = hUp \o Pls(e.out)
    /\ res' = res \o [i \in 1 .. Len(Proj(r.out, {"done"})) |-> Proj(r.out, {"done"})[i]]
    /\ tw' = IF HasData(e.out) THEN e.t ELSE tw
NcpApply(e, r) ==
    /\ e.out = r.out
    /\ n' = r.h
    /\ n2h' = n2h \o Frames(e.out)
    /\ nUp' = nUp \o Pls(e.out)

Garbage == [type |-> "GARBAGE"]
TNext ==
  /\ l <= Len(Tr)
  /\ LET e == Tr[l] IN
       \/ /\ e.a = "hsubmit" /\ HostApply(e, StepSubmit(h, e.id, e.id))
          /\ hsub' = hsub \cup {e.id} /\ UNCHANGED <<n, n2h, nsub, nUp, canc, heldH, heldN>>
       \/ /\ e.a = "nsubmit" /\ NcpApply(e, NSubmitFn(n, e.pl))
          /\ nsub' = nsub \cup {e.pl} /\ UNCHANGED <<h, h2n, hsub, hUp, res, canc, tw, heldH, heldN>>
       \/ /\ e.a = "tohost" /\ n2h # <<>>
          /\ LET f == IF e.fault = "corrupt" THEN Garbage ELSE Head(n2h)
                 q == IF e.fault = "dup" THEN n2h ELSE Tail(n2h) IN
               IF e.fault = "drop"
               THEN e.out = <<>> /\ n2h' = q /\ UNCHANGED <<h, h2n, hUp, res, tw>>
               ELSE /\ HostApply(e, IF e.late = 1 THEN StepRecvLate(h, <<f>>) ELSE StepRecv(h, <<f>>))
                    /\ (e.late = 1 => InWindow(e.t - tw))
                    /\ n2h' = q
          /\ heldH' = IF e.fault = "hold" THEN <<Head(n2h)>> ELSE heldH
          /\ (e.fault = "hold" => heldH = <<>>)
          /\ UNCHANGED <<n, hsub, nsub, nUp, canc, heldN>>
       \/ /\ e.a = "toncp" /\ h2n # <<>>
          /\ LET f == IF e.fault = "corrupt" THEN Garbage ELSE Head(h2n)
                 q == IF e.fault = "dup" THEN h2n ELSE Tail(h2n) IN
               IF e.fault = "drop"
               THEN e.out = <<>> /\ h2n' = q /\ UNCHANGED <<n, n2h, nUp>>
               ELSE /\ e.out = NRecvFn(n, f).out
                    /\ n' = NRecvFn(n, f).h
                    /\ n2h' = n2h \o Frames(e.out)
                    /\ nUp' = nUp \o Pls(e.out)
                    /\ h2n' = q
          /\ heldN' = IF e.fault = "hold" THEN <<Head(h2n)>> ELSE heldN
          /\ (e.fault = "hold" => heldN = <<>>)
          /\ UNCHANGED <<h, hsub, nsub, hUp, res, canc, tw, heldH>>
       \* the stalled copy of a duplicated frame arrives
       \/ /\ e.a = "hrelease" /\ heldH # <<>> /\ HostApply(e, StepRecv(h, heldH)) /\ heldH' = <<>>
          /\ UNCHANGED <<n, n2h, hsub, nsub, nUp, canc, heldN>>
       \/ /\ e.a = "nrelease" /\ heldN # <<>>
          /\ e.out = NRecvFn(n, heldN[1]).out /\ n' = NRecvFn(n, heldN[1]).h
          /\ n2h' = n2h \o Frames(e.out) /\ nUp' = nUp \o Pls(e.out) /\ heldN' = <<>>
          /\ UNCHANGED <<h, h2n, hsub, nsub, hUp, res, canc, tw, heldH>>
       \/ /\ e.a = "htick" /\ TimerEnabled(h) /\ InWindow(e.t - tw)
          /\ HostApply(e, StepTick(h))
          /\ UNCHANGED <<n, n2h, hsub, nsub, nUp, canc, heldH, heldN>>
       \/ /\ e.a = "ntick" /\ NTimerEnabled(n) /\ NcpApply(e, NTimerFn(n))
          /\ UNCHANGED <<h, h2n, hsub, nsub, hUp, res, canc, tw, heldH, heldN>>
       \* the transport is set to raise out of the host's next DATA write
       \/ /\ e.a = "harm" /\ ~h.wf /\ e.out = <<>> /\ h' = ArmFn(h)
          /\ UNCHANGED <<n, h2n, n2h, hsub, nsub, hUp, nUp, res, canc, tw, heldH, heldN>>
       \/ /\ e.a = "hcancel" /\ e.out = <<>> /\ canc' = canc \cup {e.id}
          /\ UNCHANGED <<h, n, h2n, n2h, hsub, nsub, hUp, nUp, res, tw, heldH, heldN>>
       \/ /\ e.a = "end" /\ e.pending = <<>> /\ e.out = <<>> /\ h.cur.id = 0 /\ h.q = <<>>
          /\ UNCHANGED <<h, n, h2n, n2h, hsub, nsub, hUp, nUp, res, canc, tw, heldH, heldN>>
  /\ l' = l + 1
  /\ UNCHANGED tid
TSpec == TInit /\ [][TNext]_tvars

StrictlyIncreasing(s) == \A i \in 1 .. Len(s) - 1 : s[i] < s[i + 1]
UpInOrderH2N == StrictlyIncreasing(nUp) /\ \A i \in 1 .. Len(nUp) : nUp[i] \in hsub
UpInOrderN2H == StrictlyIncreasing(hUp) /\ \A i \in 1 .. Len(hUp) : hUp[i] \in nsub
OkDeliveredOnce == \A k \in 1 .. Len(res) :
                      res[k].res = "ok" => Cardinality({j \in 1 .. Len(nUp) : nUp[j] = res[k].id}) = 1
AckedDelivered == \A p \in nsub :
                      (/\ \A k \in 1 .. Len(n.win) : n.win[k].pl # p
                       /\ \A k \in 1 .. Len(n.q) : n.q[k] # p) =>
                      \E k \in 1 .. Len(hUp) : hUp[k] = p

Progress == TLCSet(1, [TLCGet(1) EXCEPT ![tid] = IF @ < l THEN l ELSE @])
Post == /\ PrintT(<<"BVPROGRESS", TLCGet(1)>>)
        /\ \A i \in 1 .. Len(Traces) : TLCGet(1)[i] = Len(Traces[i]) + 1
ASSUME TLCSet(1, [i \in 1 .. Len(Traces) |-> 0])
=============================================================================
