--------------------------- MODULE ThreadedConnect ---------------------------
(***************************************************************************)
(* Extension X07 (beyond the listed properties): the serial connection on  *)
(* its own thread - bellows.uart.connect(config, application,              *)
(* use_thread=True).  Two loops: M (the caller's, where the EZSP layer /   *)
(* application lives) and S (the serial thread started for the connection, *)
(* where Gateway and AshProtocol live).                                    *)
(*   - what connect() returns stands for the gateway: every call made      *)
(*     through it from M is executed on S (coroutines: result / exception  *)
(*     relayed to M; plain calls: queued);                                 *)
(*   - everything the gateway tells the application (frames, failures,     *)
(*     connection loss) is executed on M, in the order it happened on S;   *)
(*   - when the connection is gone (lost, EOF, closed) the serial thread   *)
(*     ends: its loop is closed, and later calls through the returned      *)
(*     object are dropped without executing or blocking;                   *)
(*   - if the port cannot be opened, connect() raises and no thread stays  *)
(*     behind.                                                             *)
(* An observer over per-thread logs (as ThreadProxy.tla / C20): state      *)
(*   ph  : "idle" | "up" | "down"   connection phase                       *)
(*   pend: calls issued from M and not yet seen executing on S (ids)       *)
(*   ups : notifications produced on S, not yet seen executing on M        *)
(***************************************************************************)
EXTENDS Naturals, Sequences, FiniteSets

TC0 == [ph |-> "idle", pend |-> {}, ups |-> <<>>, ran |-> {}]

(* connect() returned normally / raised *)
ConnectOk(s) == s.ph = "idle"
Connected(s) == [s EXCEPT !.ph = "up"]
(* a call through the returned object, made on M while the connection is up: it will execute on S *)
CallOk(s, id) == id \notin s.pend \cup s.ran
Call(s, id) == IF s.ph = "up" THEN [s EXCEPT !.pend = @ \cup {id}] ELSE s           \* down: dropped
(* a gateway / link method is seen executing: on S, and only a call that was made *)
ExecOk(s, id, thread) == id \in s.pend /\ thread = "S"
Exec(s, id) == [s EXCEPT !.pend = @ \ {id}, !.ran = @ \cup {id}]
(* the gateway notifies the application (on S): queued towards M *)
Notify(s, what) == [s EXCEPT !.ups = Append(@, what)]
(* the application method is seen executing: on M, in order *)
UpOk(s, what, thread) == s.ups # <<>> /\ Head(s.ups) = what /\ thread = "M"
Up(s) == [s EXCEPT !.ups = Tail(@)]
(* the connection is gone *)
Down(s) == [s EXCEPT !.ph = "down"]
(* end of the run *)
EndOk(s, sAlive, blocked) == /\ s.ups = <<>> /\ ~blocked
                             /\ (s.ph \in {"down", "idle"} => ~sAlive)          \* no serial thread stays behind
=============================================================================
