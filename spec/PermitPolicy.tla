----------------------------- MODULE PermitPolicy -----------------------------
(***************************************************************************)
(* Extension X03 (beyond the listed properties): opening the network for   *)
(* joining.  ControllerApplication.permit(T) starts a background task      *)
(* (the protocol handler's pre_permit) and then, on the caller's path,     *)
(* broadcasts Mgmt_Permit_Joining_req(T) and tells the NCP permitJoining:  *)
(*                                                                         *)
(*   task (version >= 5)  addTransientLinkKey(ff:..:ff, "ZigBeeAlliance09")*)
(*        (version >= 8)  setPolicy(TRUST_CENTER_POLICY, ALLOW_JOINS |     *)
(*                                  ALLOW_UNSECURED_REJOINS);              *)
(*                        sleep(T + Grace);                                *)
(*                        setPolicy(TRUST_CENTER_POLICY, configured value) *)
(*   caller               sendBroadcast(..);  permitJoining(T)             *)
(*                                                                         *)
(* The tasks of successive permit() calls are independent: none cancels or *)
(* extends another.  One step function per code segment between awaits     *)
(* (every command answered at once).  State                                *)
(*   pol   : "tc" | "allow"   what TRUST_CENTER_POLICY holds               *)
(*   open  : instant (ms) until which the NCP lets devices join (0: shut)  *)
(*   wakes : instants at which a sleeping task will restore the policy     *)
(*   keys  : wildcard transient keys handed to the NCP so far              *)
(* vc: version class "v4" (4) | "v5" (5..7) | "v8" (8 and later).           *)
(***************************************************************************)
EXTENDS Naturals, Sequences

Grace == 2000          \* the task sleeps T + 2 s (literal in the code)

PInit0 == [pol |-> "tc", open |-> 0, wakes |-> <<>>, keys |-> 0]
PRes(s, task, main) == [s |-> s, task |-> task, main |-> main]

TaskCmds(vc) == CASE vc = "v4" -> <<>> [] vc = "v5" -> <<"addKey">> [] OTHER -> <<"addKey", "allow">>
MainCmds == <<"broadcast", "permitJoining">>

(* permit(T) at instant now; T in seconds *)
PermitFn(s, T, now, vc) ==
    LET s1 == [s EXCEPT !.open = IF T = 0 THEN 0 ELSE now + T * 1000,
                        !.keys = IF vc = "v4" THEN @ ELSE @ + 1]
        s2 == IF vc = "v8" THEN [s1 EXCEPT !.pol = "allow", !.wakes = Append(@, now + T * 1000 + Grace)] ELSE s1
    IN PRes(s2, TaskCmds(vc), MainCmds)

Due(s, now) == \E i \in 1 .. Len(s.wakes) : s.wakes[i] = now
(* every task whose sleep ends now restores the configured policy *)
WakeFn(s, now) ==
    LET n == Len(SelectSeq(s.wakes, LAMBDA w : w = now))
    IN PRes([s EXCEPT !.pol = "tc", !.wakes = SelectSeq(@, LAMBDA w : w # now)], [i \in 1 .. n |-> "restore"], <<>>)

(* ---- what one would like to hold *)
(* nothing pending => the configured policy is back *)
RestoredWhenIdle(s) == s.wakes = <<>> => s.pol = "tc"
(* while the NCP lets devices join, the trust centre hands out the key (version >= 8) - this is what the flip is for.  *)
(* It does NOT hold for overlapping permits: the first task's restore falls into the second window (PermitPolicyMC     *)
(* produces the counter-example; recorded as a deviation of the code, not one of the listed properties)                 *)
WindowCovered(s, now, vc) == (vc = "v8" /\ now < s.open) => s.pol = "allow"
=============================================================================
