-------------------------- MODULE Trace_EzspCodec ---------------------------
(* C07 binding: events recorded from the real command tables and the real    *)
(* call / receive paths of every protocol version.                           *)
EXTENDS EzspCodec, Json, IOUtils, TLCExt, TLC
Traces == JsonDeserialize(IOEnv.TRACE_FILE)
VARIABLES tid, l
tvars == <<tid, l>>
Tr == Traces[tid]
TInit == tid \in 1 .. Len(Traces) /\ l = 1

Explains(e) ==
    \/ /\ e.a = "table"                 \* the version's command table
       /\ IdsInjective(e.tbl) /\ NamesInjective(e.tbl) /\ IdFits(Layout(e.ver), e.tbl)
    \/ /\ e.a = "tx"                    \* a command call, positional and keyword form
       /\ e.raised = ""
       /\ e.pos = HdrTx(Layout(e.ver), e.seq, e.id) \o Concat(e.chunks)
       /\ e.kw = HdrTx(Layout(e.ver), (e.seq + 1) % 256, e.id) \o Concat(e.chunks)
       (* further call forms (keywords in another order, positional prefix + keywords): the order in which the *)
       (* caller writes keyword arguments is immaterial, the arguments go out in DECLARED order                  *)
       /\ \A k \in 1 .. Len(e.forms) : e.forms[k] = HdrTx(Layout(e.ver), (e.seq + 1 + k) % 256, e.id) \o Concat(e.chunks)
    \/ /\ e.a = "rx"                    \* an encoded value tuple fed through the receive path
       /\ e.raised = ""
       /\ e.frame = HdrRx(Layout(e.ver), e.seq, e.id, e.fc) \o Concat(e.chunks)
       /\ e.deliveries = 1              \* handed over exactly once (as result if pending, else to callbacks)
       /\ e.kind = (IF e.pending = 1 THEN "result" ELSE "callback")
       /\ e.gotname = e.name
       /\ e.got = e.values              \* exactly the encoded values
       /\ e.relen = Len(Concat(e.chunks))   \* nothing left over

TNext == /\ l <= Len(Tr) /\ Explains(Tr[l]) /\ l' = l + 1 /\ UNCHANGED tid
TSpec == TInit /\ [][TNext]_tvars
Progress == TLCSet(1, [TLCGet(1) EXCEPT ![tid] = IF @ < l THEN l ELSE @])
Post == /\ PrintT(<<"BVPROGRESS", TLCGet(1)>>)
        /\ \A i \in 1 .. Len(Traces) : TLCGet(1)[i] = Len(Traces[i]) + 1
ASSUME TLCSet(1, [i \in 1 .. Len(Traces) |-> 0])
=============================================================================
