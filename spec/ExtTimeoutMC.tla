---------------------------- MODULE ExtTimeoutMC ----------------------------
(* every small NCP address-table state x request x cache state: the allowed   *)
(* command sequences of ExtTimeout.tla achieve the request, change at most    *)
(* one thing, and never disturb another node's slot except by replacing it.   *)
EXTENDS ExtTimeout, TLC
VARIABLES n, eui, want, cached
vars == <<n, eui, want, cached>>
Euis == {"a", "b", Free}
Init == /\ n \in [tbl : UNION {[1 .. k -> [eui : Euis, nwk : {1}]] : k \in 1 .. 3}, ext : SUBSET {"a", "b", "c"}, sizeOk : BOOLEAN]
        /\ \A i, j \in 1 .. Len(n.tbl) : (i # j /\ n.tbl[i].eui # Free) => n.tbl[i].eui # n.tbl[j].eui
        /\ n.ext \subseteq ({n.tbl[i].eui : i \in 1 .. Len(n.tbl)} \cup {"c"}) \ {Free}
        /\ eui \in {"a", "c"} /\ want \in BOOLEAN /\ cached \in BOOLEAN
Next == UNCHANGED vars
Spec == Init /\ [][Next]_vars
RequestAchieved == Achieves(n, eui, 7, want, cached)
SomethingAllowed == Allowed(n, eui, 7, want, cached) # {}
=============================================================================
