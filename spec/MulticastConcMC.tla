--------------------------- MODULE MulticastConcMC ---------------------------
(* closed model: up to MaxCalls overlapping subscribe / unsubscribe calls over   *)
(* Groups on a table of N entries (initially free or holding G0), every answer.  *)
EXTENDS MulticastConc, TLC
CONSTANTS Groups, N, MaxCalls
VARIABLES s, nc
vars == <<s, nc>>
Init == /\ \E t \in [0 .. N - 1 -> {Free} \cup Groups] :
             /\ \A i, j \in 0 .. N - 1 : (i # j /\ t[i] # Free) => t[i] # t[j]
             /\ s = MC0(t, N)
        /\ nc = 0
InFlight == {s.calls[k].g : k \in 1 .. Len(s.calls)}
(* sameGroup = FALSE: overlapping calls concern different groups (one call per group at a time) *)
BeginG(sameGroup) ==
         /\ nc < MaxCalls /\ nc' = nc + 1
         /\ \E g \in Groups : (sameGroup \/ g \notin InFlight) /\ \E r \in SubBegin(s, nc + 1, g) \cup UnsubBegin(s, nc + 1, g) : s' = r.s
Begin == BeginG(FALSE)
BeginAny == BeginG(TRUE)
Finish == /\ s.calls # <<>> /\ \E a \in {"ok", "reject", "timeout"} : s' = End(s, a).s
          /\ UNCHANGED nc
Spec == Init /\ [][Begin \/ Finish]_vars
(* overlapping calls for the SAME group: the code makes no provision (two subscribes program the group twice and forget one index) -  *)
(* TLC must find the counter-example; recorded as a deviation outside the property, which speaks of sequences of calls                *)
SpecSame == Init /\ [][BeginAny \/ Finish]_vars
TableUnique == \A i, j \in 0 .. N - 1 : (i # j /\ s.tbl[i] # Free) => s.tbl[i] # s.tbl[j]
Owned == IndexOwnedOnce(s, N)
Mirror == QuietMirror(s, N)
=============================================================================
