--------------------------- MODULE Trace_Incoming ---------------------------
(* C13 binding: callback bytes built by the harness's own encoder in the      *)
(* version's field order are fed through EZSP.frame_received; what the        *)
(* application hands to zigpy must be what the mapping says.                  *)
EXTENDS Incoming, Json, IOUtils, TLCExt, TLC
Traces == JsonDeserialize(IOEnv.TRACE_FILE)
VARIABLES tid, l
tvars == <<tid, l>>
Tr == Traces[tid]
TInit == tid \in 1 .. Len(Traces) /\ l = 1
Explains(e) ==
    \/ /\ e.a = "incoming"
       /\ e.order = FieldOrder(e.ver)                       \* the encoder used the specification's field order
       /\ e.raised = 0 /\ e.joins = <<>>
       /\ LET want == Packets(e.cb, e.own) IN
            /\ Len(e.packets) = Len(want)
            /\ \A i \in 1 .. Len(want) : SamePacket(e.packets[i], want[i])
    \/ /\ e.a = "join"
       /\ e.raised = 0 /\ e.packets = <<>>
       /\ e.joins = Joins(e.cb)
TNext == /\ l <= Len(Tr) /\ Explains(Tr[l]) /\ l' = l + 1 /\ UNCHANGED tid
TSpec == TInit /\ [][TNext]_tvars
Progress == TLCSet(1, [TLCGet(1) EXCEPT ![tid] = IF @ < l THEN l ELSE @])
Post == /\ PrintT(<<"BVPROGRESS", TLCGet(1)>>)
        /\ \A i \in 1 .. Len(Traces) : TLCGet(1)[i] = Len(Traces[i]) + 1
ASSUME TLCSet(1, [i \in 1 .. Len(Traces) |-> 0])
=============================================================================
