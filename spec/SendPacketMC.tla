---------------------------- MODULE SendPacketMC ----------------------------
(* An abstract model of send_packet (request lock around set-up + enqueue,    *)
(* retry on busy, wait for the own confirmation with a timeout) for two       *)
(* concurrent requests against an NCP that answers each enqueue with any      *)
(* status class and emits arbitrary confirmations (own, foreign tag, foreign  *)
(* destination, duplicate, before the enqueue answer); the observer of        *)
(* SendPacket.tla must accept every event the model produces.                 *)
EXTENDS SendPacket, TLC
CONSTANTS Kinds
VARIABLES s, pc, lock, now, out, nconf, viol, needs
vars == <<s, pc, lock, now, out, nconf, viol, needs>>
R == {1, 2}
Dst(r) == 100 + r
Tag(r) == 10 + r
Init == /\ s = SInitWith(<<5, 10, 15>>, 1200) /\ pc = [r \in R |-> "idle"] /\ lock = 0 /\ now = 0 /\ out = [r \in R |-> "none"] /\ nconf = 0 /\ viol = FALSE
        /\ needs \in [R -> BOOLEAN]          \* whether the request has a source route / extended timeout to set up (fixed per request)

Begin(r, k) == /\ pc[r] = "idle" /\ pc' = [pc EXCEPT ![r] = "wantlock"] /\ s' = Start(s, r, k, Dst(r), now)
               /\ UNCHANGED <<needs, lock, now, out, nconf, viol>>
Lock(r) == /\ pc[r] = "wantlock" /\ lock = 0 /\ lock' = r /\ pc' = [pc EXCEPT ![r] = "setup"]
           /\ UNCHANGED <<needs, s, now, out, nconf, viol>>
DoSetup(r) == /\ pc[r] = "setup" /\ lock = r /\ s.reqs[r].kind = "unicast" /\ needs[r]
              /\ viol' = (viol \/ ~SetupOk(s, Dst(r))) /\ s' = Setup(s, Dst(r)) /\ pc' = [pc EXCEPT ![r] = "send"]
              /\ UNCHANGED <<needs, lock, now, out, nconf>>
SkipSetup(r) == /\ pc[r] = "setup" /\ lock = r /\ (~needs[r] \/ s.reqs[r].kind # "unicast") /\ pc' = [pc EXCEPT ![r] = "send"] /\ UNCHANGED <<needs, s, lock, now, out, nconf, viol>>
Send(r, ans) == /\ pc[r] = "send" /\ lock = r
                /\ viol' = (viol \/ ~EnqueueOk(s, r, Dst(r), Tag(r), now))
                /\ s' = Enqueue(s, r, Tag(r), ans, now) /\ lock' = 0
                /\ pc' = [pc EXCEPT ![r] = CASE ans = "ok" -> IF s.reqs[r].kind # "unicast" THEN "ret_ok"
                                                                   ELSE IF s.reqs[r].okConf THEN "ret_ok"        \* its confirmation overtook the enqueue answer
                                                                   ELSE IF s.reqs[r].badConf THEN "ret_err" ELSE "confirmwait"
                                                [] ans = "refuse" -> "ret_err"
                                                [] OTHER -> "busywait"]
                /\ UNCHANGED <<needs, now, out, nconf>>
BusyDelay(r) == /\ pc[r] = "busywait" /\ now' = now + s.delays[s.reqs[r].enq]
                /\ pc' = [pc EXCEPT ![r] = IF s.reqs[r].enq < MaxEnq(s) THEN "wantlock" ELSE "ret_err"]
                /\ UNCHANGED <<needs, s, lock, out, nconf, viol>>
NcpConfirm(d, g, ok) == /\ nconf < 3 /\ nconf' = nconf + 1 /\ s' = Confirm(s, d, g, ok, now)
                        /\ pc' = [r \in R |-> IF pc[r] = "confirmwait" /\ Dst(r) = d /\ Tag(r) = g
                                               THEN (IF s'.reqs[r].okConf THEN "ret_ok" ELSE IF s'.reqs[r].badConf THEN "ret_err" ELSE pc[r]) ELSE pc[r]]
                        /\ UNCHANGED <<needs, lock, now, out, viol>>
ConfirmTimeoutFires(r) == /\ pc[r] = "confirmwait" /\ now' = s.reqs[r].tAcc + s.ct /\ now' >= now
                          /\ viol' = (viol \/ ~FinishOk(s, r, "TimeoutError", now')) /\ out' = [out EXCEPT ![r] = "TimeoutError"]
                          /\ s' = Finish(s, r) /\ pc' = [pc EXCEPT ![r] = "done"] /\ UNCHANGED <<needs, lock, nconf>>
Return(r) == /\ pc[r] \in {"ret_ok", "ret_err", "ret_timeout"}
             /\ LET o == CASE pc[r] = "ret_ok" -> "ok" [] pc[r] = "ret_err" -> "DeliveryError" [] OTHER -> "TimeoutError" IN
                  /\ viol' = (viol \/ ~FinishOk(s, r, o, now)) /\ out' = [out EXCEPT ![r] = o]
             /\ s' = Finish(s, r) /\ pc' = [pc EXCEPT ![r] = "done"] /\ UNCHANGED <<needs, lock, now, nconf>>
Next == \/ \E r \in R : \/ \E k \in Kinds : Begin(r, k)
                        \/ Lock(r) \/ DoSetup(r) \/ SkipSetup(r) \/ BusyDelay(r) \/ ConfirmTimeoutFires(r) \/ Return(r)
                        \/ \E a \in {"ok", "busy", "refuse"} : Send(r, a)
        \/ \E d \in {101, 102, 999}, g \in {11, 12, 77}, ok \in BOOLEAN : NcpConfirm(d, g, ok)
Spec == Init /\ [][Next]_vars
ObserverAccepts == ~viol
OkOnlyOnOwnConfirm == \A r \in R : (out[r] = "ok" /\ s.reqs[r].kind = "unicast") => s.reqs[r].okConf
LockDiscipline == \A r \in R : pc[r] \in {"setup", "send"} => lock = r
=============================================================================
