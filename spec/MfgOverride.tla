----------------------------- MODULE MfgOverride -----------------------------
(***************************************************************************)
(* Extension X02 (beyond the listed properties): the temporary             *)
(* manufacturer-code override.  When a device whose IEEE address starts    *)
(* with one of a few vendor prefixes is allowed to join, the application   *)
(* programs that vendor's manufacturer code into the NCP and restores the  *)
(* default one Delay later (ControllerApplication._handle_tc_join_handler  *)
(* and _reset_mfg_id):                                                     *)
(*                                                                         *)
(*     if a task is pending: cancel it                                     *)
(*     task := { setManufacturerCode(m); sleep(Delay);                     *)
(*               setManufacturerCode(Default) }                            *)
(*                                                                         *)
(* One step function per code segment between awaits.  State               *)
(*   ncp   : the code the NCP holds (it applies a command on receipt)      *)
(*   task  : [m, ph, t0]  ph = "none" | "w1" (first command awaiting its   *)
(*           response since t0) | "sleep" (since t0) | "w2"                *)
(*   dead  : the task's first command timed out: the task ended with the   *)
(*           exception and nothing is restored until a later override      *)
(*           completes (named deviation of the code)                       *)
(* A cancelled command call frees the command slot at once, so the next    *)
(* task's command follows immediately; the NCP sees commands in the order  *)
(* they were sent.  Responses to a cancelled call hit a stale registration *)
(* and are dropped (EzspCmd).                                              *)
(***************************************************************************)
EXTENDS Naturals, Sequences

CONSTANTS Default,      \* the manufacturer code restored afterwards (configuration)
          Delay,        \* how long the override lasts, ms (configuration)
          CmdTimeout    \* EZSP command timeout, ms (configuration)

NoTask == [m |-> 0, ph |-> "none", t0 |-> 0, k |-> 0]
MInit == [ncp |-> Default, task |-> NoTask, dead |-> FALSE, n |-> 0]      \* n: commands sent so far; task.k: the one it waits for
MR(s, out) == [s |-> s, out |-> out]
Set(c) == [o |-> "set", code |-> c]

(* the response to command number k arrives *)
RespFn(s, k, now) ==
    CASE s.task.ph = "w1" /\ s.task.k = k -> MR([s EXCEPT !.task.ph = "sleep", !.task.t0 = now], <<>>)
      [] s.task.ph = "w2" /\ s.task.k = k -> MR([s EXCEPT !.task = NoTask, !.dead = FALSE], <<>>)
      [] OTHER -> MR(s, <<>>)                   \* answers a cancelled call: dropped

(* a trust-centre join that is handed on (not denied, not a departure); m = 0 for an ordinary address.      *)
(* mode: how the NCP answers the command sent in this step - "reply" (at once), "late" (a later resp event), *)
(* "never"                                                                                                  *)
JoinFn(s, m, mode, now) ==
    IF m = 0 THEN MR(s, <<>>)
    ELSE LET s1 == [s EXCEPT !.ncp = m, !.n = @ + 1, !.task = [m |-> m, ph |-> "w1", t0 |-> now, k |-> s.n + 1]]
                                                                       \* old task cancelled, new one sends
         IN IF mode = "reply" THEN MR(RespFn(s1, s1.n, now).s, <<Set(m)>>) ELSE MR(s1, <<Set(m)>>)

SleepDue(s, now) == s.task.ph = "sleep" /\ now = s.task.t0 + Delay
TimeoutDue(s, now) == s.task.ph \in {"w1", "w2"} /\ now = s.task.t0 + CmdTimeout
TimerDue(s, now) == SleepDue(s, now) \/ TimeoutDue(s, now)

(* a timer of the task fires *)
TimerFn(s, mode, now) ==
    IF SleepDue(s, now)
    THEN LET s1 == [s EXCEPT !.ncp = Default, !.n = @ + 1, !.task.ph = "w2", !.task.t0 = now, !.task.k = s.n + 1]
         IN IF mode = "reply" THEN MR(RespFn(s1, s1.n, now).s, <<Set(Default)>>) ELSE MR(s1, <<Set(Default)>>)
    ELSE IF TimeoutDue(s, now)
    THEN MR([s EXCEPT !.task = NoTask, !.dead = (s.task.ph = "w1")], <<>>)     \* the task dies with the timeout; if that was the
                                                                             \* first command the vendor code stays (deviation)
    ELSE MR(s, <<>>)

(* ---- what the override promises (checked on the model by MfgOverrideMC, on every state of a recorded run by Trace_MfgOverride) *)
(* while the task sleeps the NCP holds the joining device's code *)
ActiveDuringWindow(s) == s.task.ph = "sleep" => s.ncp = s.task.m
(* when nothing is pending the default code is back - unless a command timed out on the way *)
RestoredWhenIdle(s) == (s.task.ph = "none" /\ ~s.dead) => s.ncp = Default
=============================================================================
