--------------------------- MODULE Trace_EnergyScan ---------------------------
(* X05 binding: the real ControllerApplication.energy_scan against the simulated *)
(* NCP.  Events: every startScan that reached the NCP (scan type, channel mask,   *)
(* duration) with the results the NCP reported for it, and the end of the call    *)
(* (outcome; per returned channel the mean handed to the energy mapping as a      *)
(* fraction num / den).                                                           *)
EXTENDS EnergyScan, Json, IOUtils, TLCExt, TLC
Traces == JsonDeserialize(IOEnv.TRACE_FILE)
VARIABLES s, tid, l
tvars == <<s, tid, l>>
Tr == Traces[tid]
ToSet(q) == {q[i] : i \in 1 .. Len(q)}
Chans == ToSet(Tr[1].chans)
TInit == tid \in 1 .. Len(Traces) /\ l = 2 /\ Traces[tid][1].a = "cfg"
         /\ s = ES0(ToSet(Traces[tid][1].chans), Traces[tid][1].count)
Res(e) == [i \in 1 .. Len(e.res) |-> <<e.res[i].c, e.res[i].v>>]
TNext ==
  /\ l <= Len(Tr)
  /\ LET e == Tr[l] IN
       \/ /\ e.a = "scan" /\ Running(s)
          /\ e.energy = 1 /\ ToSet(e.mask) = Asked(s) /\ e.dur = Tr[1].dur          \* an energy scan of exactly the missing channels
          /\ s' = ScanFn(s, Chans, Res(e))
       \/ /\ e.a = "end" /\ ~Running(s) /\ e.out = "ok"
          /\ {e.result[i].c : i \in 1 .. Len(e.result)} = (IF Tr[1].count > 0 THEN Chans ELSE {}) /\ Len(e.result) = Cardinality(Chans) * (IF Tr[1].count > 0 THEN 1 ELSE 0)
          /\ \A i \in 1 .. Len(e.result) :
                LET r == e.result[i] IN r.c \in DOMAIN s.acc /\ r.den > 0 /\ r.num * s.acc[r.c][2] = s.acc[r.c][1] * r.den
          /\ UNCHANGED s
  /\ l' = l + 1 /\ UNCHANGED tid
TSpec == TInit /\ [][TNext]_tvars
Done == Complete(s, Chans, Tr[1].count)
Missing == AsksOnlyMissing(s, Chans)
Progress == TLCSet(1, [TLCGet(1) EXCEPT ![tid] = IF @ < l THEN l ELSE @])
Post == /\ PrintT(<<"BVPROGRESS", TLCGet(1)>>)
        /\ \A i \in 1 .. Len(Traces) : TLCGet(1)[i] = Len(Traces[i]) + 1
ASSUME TLCSet(1, [i \in 1 .. Len(Traces) |-> 0])
=============================================================================
