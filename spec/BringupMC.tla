----------------------------- MODULE BringupMC ------------------------------
(* The host's negotiation (as EZSP.startup_reset / version / reset do it)    *)
(* against an NCP of any version: the NCP-side contract is never violated,   *)
(* the host adopts the reported version, and a later reset falls back to the *)
(* legacy format.                                                            *)
EXTENDS Bringup, TLC
CONSTANTS Versions
VARIABLES ncpVer, path, boot, hostVer, hostFmt, hostTables, phase, step, resets
vars == <<ncpVer, path, boot, hostVer, hostFmt, hostTables, phase, step, resets>>
(* step: what the host does next *)
Init == /\ ncpVer \in Versions /\ path \in {"serial", "socket"} /\ boot \in {"absent", "inwindow", "late"}
        /\ hostVer = 4 /\ hostFmt = "legacy3" /\ hostTables = 4 /\ phase = "fresh" /\ step = "connect" /\ resets = 0
(* connect: on a socket path wait for the start-up reset; if it is seen in the window no RST is sent *)
Connect == /\ step = "connect"
           /\ step' = IF path = "socket" /\ boot = "inwindow" THEN "version1" ELSE "reset"
           /\ UNCHANGED <<ncpVer, path, boot, hostVer, hostFmt, hostTables, phase, resets>>
(* EZSP.reset(): RST / RSTACK, the host always switches back to the version-4 handler *)
Reset == /\ step = "reset"
         /\ phase' = "fresh" /\ hostVer' = 4 /\ hostFmt' = "legacy3" /\ hostTables' = 4 /\ resets' = resets + 1
         /\ step' = "version1"
         /\ UNCHANGED <<ncpVer, path, boot>>
(* first query in the current host format, asking for the current host version *)
Version1 == /\ step = "version1"
            /\ phase' = PhaseAfter(ncpVer, phase, hostFmt, 0, hostVer)
            /\ IF ncpVer # hostVer
               THEN /\ hostVer' = ncpVer /\ hostTables' = TablesFor(ncpVer) /\ hostFmt' = Layout(TablesFor(ncpVer))
                    /\ step' = "version2"
               ELSE /\ UNCHANGED <<hostVer, hostTables, hostFmt>> /\ step' = "ready"
            /\ UNCHANGED <<ncpVer, path, boot, resets>>
Version2 == /\ step = "version2"
            /\ phase' = PhaseAfter(ncpVer, phase, hostFmt, 0, hostVer)
            /\ step' = "ready"
            /\ UNCHANGED <<ncpVer, path, boot, hostVer, hostFmt, hostTables, resets>>
(* any later command, then (once) a second reset *)
Command == /\ step = "ready"
           /\ phase' = PhaseAfter(ncpVer, phase, hostFmt, 82, 0)
           /\ step' = IF resets < 2 THEN "reset" ELSE "end"
           /\ UNCHANGED <<ncpVer, path, boot, hostVer, hostFmt, hostTables, resets>>
Next == Connect \/ Reset \/ Version1 \/ Version2 \/ Command
Spec == Init /\ [][Next]_vars

ContractHolds == phase \in {"fresh", "queried", "native"}
AdoptsReported == step \in {"ready", "end"} => (hostVer = ncpVer /\ hostTables = TablesFor(ncpVer) /\ phase = "native")
FallbackAfterReset == step = "version1" /\ resets > 0 => hostFmt = "legacy3"
=============================================================================
