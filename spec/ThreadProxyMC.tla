---------------------------- MODULE ThreadProxyMC ---------------------------
(* owner loop || caller: every method kind from either loop, the owner's loop *)
(* closing at any moment; queued calls run on the owner only, dropped calls   *)
(* never run, coroutine callers get exactly the body's value or exception.    *)
EXTENDS ThreadProxy, TLC
CONSTANTS NCalls
VARIABLES owner, q, c, n
vars == <<owner, q, c, n>>
Init == owner = "running" /\ q = <<>> /\ c = <<>> /\ n = 0
(* look = the loop on which the proxy attribute was looked up: it has no influence - what a call does is decided *)
(* by the loop it is made from, at the time it is made (a bound wrapper may be kept and invoked later)          *)
Invoke(kind, src, look) ==
    /\ n < NCalls /\ n' = n + 1
    /\ (src = "owner" => owner = "running")
    /\ LET r == InvokeResult(kind, src, owner) IN
         /\ c' = Append(c, [kind |-> kind, src |-> src, st |-> r.st, execOn |-> r.execOn, ret |-> r.ret, rep |-> "none"])
         /\ q' = IF r.enq THEN Append(q, n + 1) ELSE q
    /\ UNCHANGED owner
(* the owner's loop runs the head of its queue on its own thread; a coroutine's outcome is relayed to the caller *)
OwnerStep ==
    /\ owner = "running" /\ q # <<>>
    /\ LET i == Head(q) IN
         c' = [c EXCEPT ![i].st = "executed", ![i].execOn = "owner",
                        ![i].ret = IF IsCoro(c[i].kind) THEN Relayed(c[i].kind) ELSE c[i].ret,
                        ![i].rep = Reported(c[i].kind)]
    /\ q' = Tail(q) /\ UNCHANGED <<owner, n>>
(* a coroutine called directly on the owner's loop completes *)
DirectCoroDone(i) == /\ i \in 1 .. Len(c) /\ c[i].src = "owner" /\ IsCoro(c[i].kind) /\ c[i].ret = "pending"
                     /\ c' = [c EXCEPT ![i].ret = Relayed(c[i].kind)] /\ UNCHANGED <<owner, q, n>>
Close == /\ owner = "running" /\ owner' = "closed" /\ q' = <<>> /\ UNCHANGED <<c, n>>      \* queued calls are discarded
Next == (\E k \in Kinds, s \in {"owner", "other"}, lk \in {"owner", "other"} : Invoke(k, s, lk)) \/ OwnerStep \/ (\E i \in 1 .. NCalls : DirectCoroDone(i)) \/ Close
Spec == Init /\ [][Next]_vars

ExecOnOwner == \A i \in 1 .. Len(c) : c[i].st = "executed" => c[i].execOn = "owner"
NeverOnCaller == \A i \in 1 .. Len(c) : c[i].execOn \in {"owner", "nobody"}
RelayedExactly == \A i \in 1 .. Len(c) : (IsCoro(c[i].kind) /\ c[i].st = "executed" /\ c[i].ret # "pending") => c[i].ret = BodyOutcome(c[i].kind)
PlainReturnsNothing == \A i \in 1 .. Len(c) : (~IsCoro(c[i].kind) /\ c[i].src = "other" /\ c[i].kind # "notCallable") => c[i].ret = "none"
(* a queued plain call that hands back a value (any value) or raises is reported on the owner's loop, and only such a call is *)
ValueReported == \A i \in 1 .. Len(c) : (c[i].st = "executed" /\ c[i].src = "other" /\ ~IsCoro(c[i].kind))
                                          => (c[i].rep = "typeerror") = (BodyOutcome(c[i].kind) = "val")
DroppedNeverRuns == \A i \in 1 .. Len(c) : c[i].st = "dropped" => (c[i].execOn = "nobody" /\ c[i].ret = "none")
NotCallableRefused == \A i \in 1 .. Len(c) : c[i].kind = "notCallable" => (c[i].st = "refused" /\ c[i].ret = "typeerror")
=============================================================================
