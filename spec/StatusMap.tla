----------------------------- MODULE StatusMap ------------------------------
(***************************************************************************)
(* C18 - normalisation of NCP status values to the unified status family.  *)
(* A total relation: Allowed(fam, code) is the set of unified values the   *)
(* conversion may return.  Numeric codes are pinned from the EmberZNet     *)
(* headers (error-def.h, sl_status.h), not read from the code under test.  *)
(*   fam = "ember"   legacy stack status, 8 bit                            *)
(*         "ezsp"    serial-protocol status, 8 bit                         *)
(*         "unified" sl_status, 32 bit                                     *)
(***************************************************************************)
EXTENDS Naturals, FiniteSets

SL_OK == 0
SL_NETWORK_UP == 21              \* 0x0015
SL_NETWORK_DOWN == 22            \* 0x0016
SL_NOT_JOINED == 23              \* 0x0017
SL_ALLOCATION_FAILED == 25       \* 0x0019
SL_INVALID_INDEX == 39           \* 0x0027
SL_NOT_FOUND == 45               \* 0x002D
SL_TRANSMIT_BUSY == 52           \* 0x0034
SL_ZIGBEE_DELIVERY_FAILED == 3074        \* 0x0C02
SL_ZIGBEE_MAX_MESSAGE_LIMIT == 3075      \* 0x0C03

(* statuses on which a packet send is retried ("busy") *)
BusySet == {SL_ZIGBEE_MAX_MESSAGE_LIMIT, SL_TRANSMIT_BUSY, SL_ALLOCATION_FAILED}

(* EmberStatus codes that steer retries and start-up decisions *)
EMBER_NO_BUFFERS == 24                   \* 0x18
EMBER_DELIVERY_FAILED == 102             \* 0x66
EMBER_MAX_MESSAGE_LIMIT_REACHED == 114   \* 0x72
EMBER_NETWORK_UP == 144                  \* 0x90
EMBER_NETWORK_DOWN == 145                \* 0x91
EMBER_NOT_JOINED == 147                  \* 0x93
EMBER_NETWORK_BUSY == 161                \* 0xA1
EMBER_INDEX_OUT_OF_RANGE == 177          \* 0xB1
EMBER_TABLE_ENTRY_ERASED == 182          \* 0xB6

Pinned(code) ==
    CASE code = EMBER_NOT_JOINED -> {SL_NOT_JOINED}
      [] code = EMBER_NETWORK_UP -> {SL_NETWORK_UP}
      [] code = EMBER_NETWORK_DOWN -> {SL_NETWORK_DOWN}
      [] code = EMBER_TABLE_ENTRY_ERASED -> {SL_NOT_FOUND}
      [] code = EMBER_INDEX_OUT_OF_RANGE -> {SL_INVALID_INDEX}
      [] code = EMBER_MAX_MESSAGE_LIMIT_REACHED -> {SL_ZIGBEE_MAX_MESSAGE_LIMIT}
      [] code = EMBER_NETWORK_BUSY -> BusySet            \* a busy status that is retried
      [] code = EMBER_NO_BUFFERS -> BusySet
      [] code = EMBER_DELIVERY_FAILED -> {SL_ZIGBEE_DELIVERY_FAILED}
      [] OTHER -> {}
Steering == {EMBER_NOT_JOINED, EMBER_NETWORK_UP, EMBER_NETWORK_DOWN, EMBER_TABLE_ENTRY_ERASED, EMBER_INDEX_OUT_OF_RANGE,
             EMBER_MAX_MESSAGE_LIMIT_REACHED, EMBER_NETWORK_BUSY, EMBER_NO_BUFFERS, EMBER_DELIVERY_FAILED}

(* is `res` an acceptable normalisation of (fam, code)? *)
Ok(fam, code, res) ==
    IF fam = "unified" THEN res = code
    ELSE IF code = 0 THEN res = SL_OK
    ELSE IF fam = "ember" /\ code \in Steering THEN res \in Pinned(code)
    ELSE res # SL_OK                                     \* any failure status (latitude)
=============================================================================
