------------------------------- MODULE Stack -------------------------------
(***************************************************************************)
(* The host side of bellows as ONE machine: the EZSP command multiplexer   *)
(* (EzspCmd.tla: ProtocolHandler.command / __call__, EZSP._command /       *)
(* frame_received / enter_failed_state / reset / close) on top of the      *)
(* reset gateway (Gateway.tla: bellows/uart.py) on top of the ASH host     *)
(* (AshHost.tla: bellows/ash.py).  The three component modules are used    *)
(* unchanged; this module is only the glue the code has between them:      *)
(*                                                                         *)
(*   command granted the slot  --Sent-->  Gateway.send_data -> ASH submit  *)
(*   ASH send finished         --Done-->  the command task resumes         *)
(*                                        (bounded wait for the response,  *)
(*                                        or the link error is raised)     *)
(*   ASH hands a payload up    --UpData-> EZSP.frame_received              *)
(*   ASH reports a reset code  --UpReset> Gateway.reset_received (triage)  *)
(*   gateway reports failure   --Failed/AppLost--> EZSP.enter_failed_state *)
(*        with an application callback registered: EZSP.close() (EZSP      *)
(*        stopped, transport closed) and ONE controller-reset request      *)
(*   EZSP.reset()              stop, Gateway.reset(), then legacy framing  *)
(*                             and start again                             *)
(*                                                                         *)
(* A step = one input of the environment (a call, frames read from the     *)
(* port, a timer, a loss) followed by the event loop running until nothing *)
(* is runnable at this instant.  Signals between the layers are kept in a  *)
(* FIFO work list, like the loop's ready queue: what a layer does          *)
(* synchronously inside a callback happens at once, what a task does after *)
(* being woken is queued behind everything already runnable.               *)
(*                                                                         *)
(* State s:                                                                *)
(*   g    : Gateway state (contains the ASH host state g.h)                *)
(*   p    : EzspCmd state                                                  *)
(*   run  : EZSP is running (start_ezsp / stop_ezsp)                       *)
(*   open : EZSP still has its gateway (not closed)                        *)
(*   reg  : an application callback is registered                          *)
(*   hv   : protocol version of the active protocol handler (4 after     *)
(*          every reset, the NCP's version once negotiated)               *)
(*   lay  : header layout in use = Layout(hv) (EzspCodec)                  *)
(*   v1,v2: ids of EZSP.version() operations waiting for their first /     *)
(*          confirming `version` query (the latter under id + 1000)        *)
(*   req  : number of controller-reset requests handed to the application  *)
(*   ek   : id of the EZSP.reset() call in progress (0 none)               *)
(* External outputs: write / rst (bytes to the port), cdone (outcome of a  *)
(* command call), cb (frame handed to the callbacks), request, edone       *)
(* (outcome of EZSP.reset()), sdone (start-up-reset waiter).               *)
(***************************************************************************)
EXTENDS Gateway, EzspCmd, EzspCodec

(* Latitude EzspCmd.FrameAlts gives for frames that hit a registration which is not the pending call's own: a reply under  *)
(* a stale registration (its caller timed out, failed or was cancelled) is dropped or handed to the callbacks once; a frame *)
(* with a foreign ID under the pending number is dropped or handed to the callbacks, and the registration survives or not.  *)
(* The code as it stands drops both and forgets the registration (CodeLat); trace validation accepts every member.          *)
CodeLat == [cb |-> FALSE, keep |-> FALSE]
Lats == [cb : BOOLEAN, keep : BOOLEAN]
SInit == [g |-> GInit, p |-> PInit, run |-> FALSE, open |-> TRUE, reg |-> FALSE,
          hv |-> 4, lay |-> Layout(4), req |-> 0, ek |-> 0, v1 |-> {}, v2 |-> {}, lat |-> CodeLat]
SR(s, out) == [s |-> s, out |-> out]

CDone(c, res, val) == [o |-> "cdone", c |-> c, res |-> res, val |-> val]
Request == [o |-> "request"]
EDone(k, res) == [o |-> "edone", k |-> k, res |-> res]
VDone(c, res, val) == [o |-> "vdone", c |-> c, res |-> res, val |-> val]
Sig(name) == [o |-> name]

AllHang == [i \in 1 .. 8 |-> "hang"]     \* every link-level send is a real ASH send: pending until acknowledged

(* the payload of the DATA frame carrying a command: what the peer's EZSP layer will see *)
CmdPl(seq, cmd, lay) == [seq |-> seq, cmd |-> cmd, lay |-> lay]

(* outcome of the link-level send as the command call reports it *)
LinkRes(r) == IF r = "ok" THEN "ok" ELSE "linkfail"

(***************************************************************************)
(* EZSP.frame_received -> ProtocolHandler.__call__ for a decodable frame   *)
(* of a known command, as the code does it (one member of EzspCmd's        *)
(* FrameAlts).  Synchronous part only: the registration is popped and the  *)
(* future completed; the slot is handed on when the task resumes ("grant"  *)
(* signal, a later loop iteration).                                        *)
(***************************************************************************)
FrameSync(p, f, lat) ==
    IF f.seq \in DOMAIN p.aw
    THEN LET e  == p.aw[f.seq]
             p1 == [p EXCEPT !.aw = AwDel(p.aw, f.seq)]
         IN IF e.live /\ p.hold.c = e.c /\ p.hold.ph = "waiting"
            THEN IF f.cmd = "invalidCommand"
                 THEN PR([p1 EXCEPT !.hold = NoHold], <<DoneR(e.c, "invalid", 0), Sig("grant")>>)
                 ELSE IF f.cmd = e.cmd
                 THEN PR([p1 EXCEPT !.hold = NoHold], <<DoneR(e.c, "ok", f.val), Sig("grant")>>)
                 ELSE PR(IF lat.keep THEN p ELSE p1, IF lat.cb THEN <<Cb(f.cmd, f.val)>> ELSE <<>>)
                                          \* foreign ID under a pending number: (as the code stands) the assertion fails
                                          \* inside __call__, frame_received swallows it; the registration is gone
            ELSE IF e.live /\ p.hold.c = e.c /\ p.hold.ph = "sending"
            THEN IF f.cmd = "invalidCommand" THEN PR([p1 EXCEPT !.hold.early = "invalid"], <<>>)
                 ELSE IF f.cmd = e.cmd THEN PR([p1 EXCEPT !.hold.early = "ok", !.hold.ev = f.val], <<>>)
                 ELSE PR(IF lat.keep THEN p ELSE p1, IF lat.cb THEN <<Cb(f.cmd, f.val)>> ELSE <<>>)
            ELSE PR(p1, IF lat.cb THEN <<Cb(f.cmd, f.val)>> ELSE <<>>)
                                          \* stale registration: its future is already done; (as the code stands) dropped
    ELSE PR(p, <<Cb(f.cmd, f.val)>>)      \* answers no registered request: to the callbacks, once

(* FrameSync is one of the behaviours EzspCmd allows (checked by StackMC as an invariant over reachable states) *)
SyncRefines(p, f, now) ==
    LET r == FrameSync(p, f, CodeLat)
        dn == SelectSeq(r.out, LAMBDA o : o.o = "done")
        cb == SelectSeq(r.out, LAMBDA o : o.o = "cb")
    IN \E alt \in FrameAlts(p, f, AllHang, now) :
          /\ SelectSeq(alt.out, LAMBDA o : o.o = "done") = dn
          /\ SelectSeq(alt.out, LAMBDA o : o.o = "cb") = cb

(***************************************************************************)
(* The work list.  Signals:                                                *)
(*   EzspCmd outputs : sent / done (call outcome) / cb                     *)
(*   "grant"         : the slot is free, the next queued call may start    *)
(*   AshHost outputs : write / up_data / up_reset / done (send outcome,    *)
(*                     renamed "adone" here)                               *)
(*   Gateway outputs : rst / failed / applost / rdone / sdone              *)
(*   "closed"        : the transport reports connection_lost(None) after   *)
(*                     a deliberate close                                  *)
(***************************************************************************)
FromP(out) == out       \* EzspCmd outputs are used as they are
FromH(out) == [i \in 1 .. Len(out) |-> IF out[i].o = "done" THEN [out[i] EXCEPT !.o = "adone"] ELSE out[i]]

RECURSIVE Pump(_, _, _, _)
(* nothing left in the work list: tasks that became runnable inside the lower layers *)
Idle(s, out, now) ==
    IF ResumeEnabled(s.g.h)                       \* an ASH send task resumes (acknowledged, NAKed, failed, closed)
    THEN LET r == ResumeFn(s.g.h) IN Pump([s EXCEPT !.g.h = r.h], FromH(r.out), out, now)
    ELSE IF NextEnabled(s.g.h)                    \* the next ASH send gets the window
    THEN LET r == NextFn(s.g.h) IN Pump([s EXCEPT !.g.h = r.h], FromH(r.out), out, now)
    ELSE IF s.g.rw = "resolved" \/ s.g.sw = "resolved"     \* reset / start-up waiters resume
    THEN LET r == GWake(s.g, <<>>) IN Pump([s EXCEPT !.g = r.g], r.out, out, now)
    ELSE SR(s, out)

Pump(s, todo, out, now) ==
    IF todo = <<>> THEN Idle(s, out, now)
    ELSE LET x == Head(todo) rest == Tail(todo) IN
      CASE x.o = "write" -> Pump(s, rest, Append(out, x), now)
        [] x.o = "rst" -> Pump(s, rest, Append(out, x), now)
        [] x.o = "cb" -> Pump(s, rest, Append(out, x), now)
        [] x.o = "sdone" -> Pump(s, rest, Append(out, x), now)
        [] x.o = "done" ->
             IF x.c \in s.v1                  \* EZSP.version(): the first query returned
             THEN IF x.res = "ok" /\ x.val # s.hv
                  THEN (* the NCP reports another version: a NEW protocol handler (own sequence numbers, registrations and  *)
                       (* command slot) framing for that version, and the version is confirmed with a second query          *)
                       LET s1 == [s EXCEPT !.p = PInit, !.hv = x.val, !.lay = Layout(x.val),
                                           !.v1 = @ \ {x.c}, !.v2 = @ \cup {x.c + 1000}]
                           r  == CallFn(s1.p, x.c + 1000, "version", AllHang, now)
                       IN Pump([s1 EXCEPT !.p = r.p], rest \o FromP(r.out), out, now)
                  ELSE Pump([s EXCEPT !.v1 = @ \ {x.c}], rest, Append(out, VDone(x.c, x.res, x.val)), now)
             ELSE IF x.c \in s.v2
             THEN Pump([s EXCEPT !.v2 = @ \ {x.c}], rest, Append(out, VDone(x.c - 1000, x.res, x.val)), now)
             ELSE Pump(s, rest, Append(out, CDone(x.c, x.res, x.val)), now)
        [] x.o = "sent" ->        \* Gateway.send_data -> AshProtocol.send_data (eager task: runs to its first wait)
             LET r == SubmitFn(s.g.h, x.c, CmdPl(x.seq, x.cmd, s.lay))
             IN Pump([s EXCEPT !.g.h = r.h], rest \o FromH(r.out), Append(out, x), now)   \* "sent" is kept as a note
        [] x.o = "adone" ->       \* the link-level send of call x.id ended: its command task resumes
             IF s.p.hold.c = x.id /\ s.p.hold.ph = "sending"
             THEN LET r == SendResFn(s.p, x.res = "ok", AllHang, now)
                  IN Pump([s EXCEPT !.p = r.p], rest \o FromP(r.out), out, now)
             ELSE Pump(s, rest, out, now)            \* its caller was cancelled meanwhile (the send is shielded)
        [] x.o = "grant" ->
             LET r == Grant(s.p, <<>>, AllHang, now) IN Pump([s EXCEPT !.p = r.p], rest \o FromP(r.out), out, now)
        [] x.o = "up_data" ->     \* Gateway.data_received -> EZSP.frame_received
             LET r == FrameSync(s.p, x.pl, s.lat) IN Pump([s EXCEPT !.p = r.p], rest \o FromP(r.out), out, now)
        [] x.o = "up_reset" ->    \* Gateway.reset_received / error_received
             LET r == Triage(s.g, x.code) IN Pump([s EXCEPT !.g = r.g], rest \o r.out, out, now)
        [] x.o \in {"failed", "applost"} ->     \* EZSP.enter_failed_state / connection_lost
             IF s.reg
             THEN Pump([s EXCEPT !.run = FALSE, !.open = FALSE, !.req = @ + 1],
                       IF s.open THEN Append(rest, Sig("closed")) ELSE rest,   \* close(): the transport closes
                       Append(out, Request), now)
             ELSE Pump(s, rest, out, now)            \* nobody to tell: logged only
        [] x.o = "closed" ->      \* connection_lost(None) after the deliberate close
             LET r == LostFn(s.g, FALSE) IN Pump([s EXCEPT !.g = r.g], rest \o r.out, out, now)
        [] x.o = "rdone" ->       \* Gateway.reset() returned to EZSP.reset(): legacy framing again, EZSP started
             IF x.k = s.ek /\ s.ek # 0
             THEN Pump(IF x.res = "ok" THEN [s EXCEPT !.ek = 0, !.p = PInit, !.hv = 4, !.lay = Layout(4), !.run = TRUE]
                                        ELSE [s EXCEPT !.ek = 0],
                       rest, Append(out, EDone(x.k, x.res)), now)
             ELSE Pump(s, rest, Append(out, x), now)

(***************************************************************************)
(* Inputs                                                                  *)
(***************************************************************************)
(* EZSP._command(name) by caller c *)
SCall(s, c, cmd, now) ==
    IF ~s.run THEN SR(s, <<CDone(c, "notrunning", 0)>>)
    ELSE LET r == CallFn(s.p, c, cmd, AllHang, now) IN Pump([s EXCEPT !.p = r.p], FromP(r.out), <<>>, now)

(* EZSP.version() by caller c: query in the current framing; the continuation is in Pump ("done") *)
SVersion(s, c, now) ==
    IF ~s.run THEN SR(s, <<VDone(c, "notrunning", 0)>>)
    ELSE LET r == CallFn(s.p, c, "version", AllHang, now)
         IN Pump([s EXCEPT !.p = r.p, !.v1 = @ \cup {c}], FromP(r.out), <<>>, now)

(* the caller of call c is cancelled *)
SCancel(s, c, now) ==
    LET r == CancelFn(s.p, c, AllHang, now) IN Pump([s EXCEPT !.p = r.p], FromP(r.out), <<>>, now)

(***************************************************************************)
(* Frames read from the port, each read its own callback, queued back to   *)
(* back.  What a layer does synchronously inside data_received() - the     *)
(* acknowledgement, the hand-over to EZSP.frame_received (registration     *)
(* popped, future completed, callbacks run), the gateway's triage of a     *)
(* reset code, EZSP.enter_failed_state with its close() - happens before   *)
(* the next read is looked at; a read queued behind one that closed the    *)
(* transport is not delivered.  What tasks do after being woken is         *)
(* deferred behind all the reads.                                          *)
(***************************************************************************)
RECURSIVE SyncPump(_, _, _, _)
SyncPump(s, todo, later, out) ==
    IF todo = <<>> THEN [s |-> s, later |-> later, out |-> out]
    ELSE LET x == Head(todo) rest == Tail(todo) IN
      CASE x.o \in {"write", "cb"} -> SyncPump(s, rest, later, Append(out, x))
        [] x.o = "up_data" ->
             LET r == FrameSync(s.p, x.pl, s.lat) IN
             SyncPump([s EXCEPT !.p = r.p], rest \o SelectSeq(r.out, LAMBDA o : o.o = "cb"),
                      later \o SelectSeq(r.out, LAMBDA o : o.o # "cb"), out)
        [] x.o = "up_reset" -> LET r == Triage(s.g, x.code) IN SyncPump([s EXCEPT !.g = r.g], rest \o r.out, later, out)
        [] x.o \in {"failed", "applost"} ->
             IF s.reg
             THEN SyncPump([s EXCEPT !.run = FALSE, !.open = FALSE, !.req = @ + 1], rest,
                           IF s.open THEN Append(later, Sig("closed")) ELSE later, Append(out, Request))
             ELSE SyncPump(s, rest, later, out)
        [] OTHER -> SyncPump(s, rest, Append(later, x), out)

SRecv(s, fs, now) ==
    LET r == FoldLeft(LAMBDA acc, f :
                        IF ~(acc.s.open /\ acc.s.g.up) THEN acc          \* the transport was closed by an earlier read
                        ELSE LET x == RecvFn(acc.s.g.h, f)
                             IN SyncPump([acc.s EXCEPT !.g.h = x.h], FromH(x.out), acc.later, acc.out),
                      [s |-> s, later |-> <<>>, out |-> <<>>], fs)
    IN Pump(r.s, r.later, r.out, now)

(* timers *)
STick(s, now) == LET r == TimerFn(s.g.h) IN Pump([s EXCEPT !.g.h = r.h], FromH(r.out), <<>>, now)
SCmdTimeout(s, now) ==
    LET r == TimeoutFn(s.p, AllHang, now) IN Pump([s EXCEPT !.p = r.p], FromP(r.out), <<>>, now)
SResetTimeout(s, now) == LET r == ResetTimeoutFn(s.g) IN Pump([s EXCEPT !.g = r.g], r.out, <<>>, now)

(* EZSP.reset() by caller k: EZSP stopped, Gateway.reset() *)
SReset(s, k, now) ==
    LET r == ResetCallFn(s.g, k, now)
    IN Pump([s EXCEPT !.run = FALSE, !.g = r.g, !.ek = k], r.out, <<>>, now)

(* wait_for_startup_reset() (socket:// bring-up) *)
SStartupWait(s, k) == SR([s EXCEPT !.g = StartupWaitFn(s.g, k).g], <<>>)

(* the connection is lost (exc) or reaches end-of-file *)
SLost(s, now) == LET r == LostFn(s.g, TRUE) IN Pump([s EXCEPT !.g = r.g], r.out, <<>>, now)

(* EZSP.close(): a deliberate close produces no request *)
SClose(s, now) ==
    IF s.open THEN Pump([s EXCEPT !.run = FALSE, !.open = FALSE], <<Sig("closed")>>, <<>>, now)
    ELSE SR([s EXCEPT !.run = FALSE], <<>>)

(* start_ezsp() / negotiated: bring-up bookkeeping driven by the layer above *)
SStart(s) == [s EXCEPT !.run = TRUE]
SNative(s, v) == [s EXCEPT !.p = PInit, !.hv = v, !.lay = Layout(v)]      \* _switch_protocol_version(v) done directly
SRegister(s) == [s EXCEPT !.reg = TRUE]
=============================================================================
