--------------------------- MODULE Trace_Multicast ---------------------------
(* Trace validation for Multicast.tla: every recorded execution of the real  *)
(* bellows.multicast.Multicast must be a behaviour of the specification,     *)
(* with the observed return status, table write, NCP table and the           *)
(* behaviourally probed host view matching at every step.                    *)
EXTENDS Multicast, Json, IOUtils, TLCExt

Traces == JsonDeserialize(IOEnv.TRACE_FILE)

VARIABLES tid, l
tvars == <<vars, tid, l>>

Tr == Traces[tid]
ToTbl(s) == [i \in 0 .. (Len(s) - 1) |-> s[i + 1]]
ToSet(s) == {s[i] : i \in 1 .. Len(s)}

TInit == /\ tid \in 1 .. Len(Traces)
         /\ l = 2
         /\ Traces[tid][1].a = "Init"
         /\ n = Len(Traces[tid][1].tbl)
         /\ tbl = ToTbl(Traces[tid][1].tbl)
         /\ sub = <<>> /\ avail = {} /\ started = FALSE /\ ret = "none" /\ wrote = None

Observed(e) == /\ ret' = e.ret
               /\ wrote' = e.wrote
               /\ tbl' = ToTbl(e.tbl)
               /\ DOMAIN sub' = ToSet(e.subs)
               /\ Cardinality(avail') = e.free

TNext == /\ l <= Len(Tr)
         /\ LET e == Tr[l] IN
              /\ \/ e.a = "Startup" /\ Startup /\ Observed(e)
                 \/ e.a = "Subscribe" /\ Subscribe(e.g, e.ans) /\ Observed(e)
                 \/ e.a = "Unsubscribe" /\ Unsubscribe(e.g, e.ans) /\ Observed(e)
                 \/ e.a = "NcpChange" /\ NcpChange /\ tbl' = ToTbl(e.tbl)      \* the host's view is not looked at: it is stale by construction
         /\ l' = l + 1
         /\ UNCHANGED tid

TSpec == TInit /\ [][TNext]_tvars

(* progress register: furthest position explained per trace *)
Progress == TLCSet(1, [TLCGet(1) EXCEPT ![tid] = IF @ < l THEN l ELSE @])
Post == /\ PrintT(<<"BVPROGRESS", TLCGet(1)>>)
        /\ \A i \in 1 .. Len(Traces) : TLCGet(1)[i] = Len(Traces[i]) + 1
ASSUME TLCSet(1, [i \in 1 .. Len(Traces) |-> 0])
=============================================================================
