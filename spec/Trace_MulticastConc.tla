------------------------- MODULE Trace_MulticastConc -------------------------
(* C15 binding for overlapping calls: the real Multicast with table writes that  *)
(* the harness answers when the schedule says so.                                 *)
EXTENDS MulticastConc, Json, IOUtils, TLCExt, TLC
Traces == JsonDeserialize(IOEnv.TRACE_FILE)
VARIABLES s, tid, l
tvars == <<s, tid, l>>
Tr == Traces[tid]
ToTbl(q) == [i \in 0 .. (Len(q) - 1) |-> q[i + 1]]
N == Len(Tr[1].tbl)
TInit == tid \in 1 .. Len(Traces) /\ l = 2 /\ Traces[tid][1].a = "Init" /\ s = MC0(ToTbl(Traces[tid][1].tbl), Len(Traces[tid][1].tbl))
(* "error": how the call ends is left open (the code raises; returning a status would do) - what counts is that the bookkeeping is not touched *)
RetSame(a, m) == a = m \/ (m = "error" /\ a # "pending")
Obs(e, r) == /\ RetSame(e.ret, r.ret) /\ e.wrote = r.wrote /\ ToTbl(e.tbl) = r.s.tbl
TNext ==
  /\ l <= Len(Tr)
  /\ LET e == Tr[l] IN
       \/ e.a = "SubBegin" /\ \E r \in SubBegin(s, e.id, e.g) : Obs(e, r) /\ s' = r.s
       \/ e.a = "UnsubBegin" /\ \E r \in UnsubBegin(s, e.id, e.g) : Obs(e, r) /\ s' = r.s
       \/ e.a = "End" /\ s.calls # <<>> /\ Head(s.calls).id = e.id /\ Obs(e, End(s, e.ans)) /\ s' = End(s, e.ans).s
       \/ e.a = "Cancel" /\ (\E k \in 1 .. Len(s.calls) : s.calls[k].id = e.id) /\ Obs(e, CancelQueued(s, e.id)) /\ s' = CancelQueued(s, e.id).s
       \* start-up scans the table again (nothing in flight): the view is rebuilt from the table
       \/ e.a = "Rescan" /\ s.calls = <<>> /\ s' = MC0(ToTbl(e.tbl), N)
       \* quiet: the host's view probed behaviourally (which groups subscribe() takes as already there, how many fresh ones fit)
       \/ e.a = "Probe" /\ s.calls = <<>> /\ {e.subs[i] : i \in 1 .. Len(e.subs)} = DOMAIN s.sub /\ e.free = Cardinality(s.avail)
                        /\ ToTbl(e.tbl) = s.tbl /\ UNCHANGED s
  /\ l' = l + 1 /\ UNCHANGED tid
TSpec == TInit /\ [][TNext]_tvars
Owned == IndexOwnedOnce(s, N)
Mirror == QuietMirror(s, N)
(* the host never programs a group into two entries *)
Unique == \A i, j \in 0 .. N - 1 : (i # j /\ s.tbl[i] # Free) => s.tbl[i] # s.tbl[j]
Progress == TLCSet(1, [TLCGet(1) EXCEPT ![tid] = IF @ < l THEN l ELSE @])
Post == /\ PrintT(<<"BVPROGRESS", TLCGet(1)>>)
        /\ \A i \in 1 .. Len(Traces) : TLCGet(1)[i] = Len(Traces[i]) + 1
ASSUME TLCSet(1, [i \in 1 .. Len(Traces) |-> 0])
=============================================================================
