------------------------------ MODULE EnergyScan ------------------------------
(***************************************************************************)
(* Extension X05 (beyond the listed properties): the energy scan of        *)
(* ControllerApplication.energy_scan(channels, duration, count).           *)
(*                                                                         *)
(*   for each of `count` passes:  todo := channels                         *)
(*        while todo # {}:  results := startScan(ENERGY, mask = todo, dur) *)
(*              every (channel, rssi) of the results is recorded,          *)
(*              its channel leaves todo                                     *)
(*   result: channel -> energy(mean of everything recorded for it), for    *)
(*           exactly the requested channels                                *)
(*                                                                         *)
(* The NCP may report a partial scan (fewer channels than asked: the loop  *)
(* asks again for the rest), report a channel twice (both values count -   *)
(* named deviation: duplicates weigh in the mean), or report a channel     *)
(* nobody asked for (recorded, never returned).  State                     *)
(*   todo : channels still to be reported in the current pass              *)
(*   left : passes still to run (including the current one)                *)
(*   acc  : channel -> <<sum, n>> of the values recorded so far            *)
(* One step per startScan call: ScanFn(s, chans, res), res a sequence of   *)
(* <<channel, rssi>>.  The mean is kept as the pair <<sum, n>> (TLC has no *)
(* rationals); the mapping to an energy value is numeric and not modelled. *)
(***************************************************************************)
EXTENDS Integers, Sequences, FiniteSets

ES0(chans, count) == [todo |-> IF count > 0 THEN chans ELSE {}, left |-> count, acc |-> [c \in {} |-> <<0, 0>>]]
ChansOf(res) == {res[i][1] : i \in 1 .. Len(res)}
RECURSIVE Add(_, _)
Add(acc, res) ==
    IF res = <<>> THEN acc
    ELSE LET c == Head(res)[1]  v == Head(res)[2]
             old == IF c \in DOMAIN acc THEN acc[c] ELSE <<0, 0>>
             a2 == [x \in (DOMAIN acc) \cup {c} |-> IF x = c THEN <<old[1] + v, old[2] + 1>> ELSE acc[x]]
         IN Add(a2, Tail(res))
(* the mask the next startScan must carry *)
Asked(s) == s.todo
Running(s) == s.left > 0 /\ s.todo # {}
ScanFn(s, chans, res) ==
    LET t2 == s.todo \ ChansOf(res)
        a2 == Add(s.acc, res)
    IN IF t2 # {} THEN [s EXCEPT !.todo = t2, !.acc = a2]
       ELSE [todo |-> IF s.left > 1 THEN chans ELSE {}, left |-> s.left - 1, acc |-> a2]
(* ---- clauses *)
(* finished: every requested channel has at least `count` recorded values *)
Complete(s, chans, count) == (s.left = 0 /\ count > 0) => \A c \in chans : c \in DOMAIN s.acc /\ s.acc[c][2] >= count
(* a channel already reported in this pass is not asked for again in the same pass *)
AsksOnlyMissing(s, chans) == s.todo \subseteq chans
=============================================================================
