------------------------------- MODULE NetInfo ------------------------------
(***************************************************************************)
(* C14 - network settings survive a write / read round trip through the    *)
(* NCP (ControllerApplication.write_network_info / load_network_info and   *)
(* the per-version accessors).  A contract over one recorded run:          *)
(*   w    : the settings supplied (keys and addresses as byte sequences,   *)
(*          counters as decimal strings so that 32-bit values fit)         *)
(*   sec  : the initial security state the NCP was sent                    *)
(*   st   : the NCP's store after the write                                *)
(*   r    : the settings read back                                         *)
(*   ver  : protocol version;  order : state-changing commands in order    *)
(* What a version can store: the network-key frame counter from version 5  *)
(* on, the child table from version 9 on.  From version 5 on the NCP is    *)
(* given the hashed form of the trust-centre link key (kept in stack-      *)
(* specific data) and only the well-known link key round-trips (a stated   *)
(* limitation of bellows); version 4 gets the raw key.                     *)
(***************************************************************************)
EXTENDS Naturals, Sequences, FiniteSets

WellKnown == <<90, 105, 103, 66, 101, 101, 65, 108, 108, 105, 97, 110, 99, 101, 48, 57>>      \* "ZigBeeAlliance09"
Zeros8 == <<0, 0, 0, 0, 0, 0, 0, 0>>

CanCounters(ver) == ver >= 5
CanChildren(ver) == ver >= 9
Hashes(ver) == ver >= 5

ToSet(s) == {s[i] : i \in 1 .. Len(s)}
Pos(s, x) == CHOOSE i \in 1 .. Len(s) : s[i] = x
Before(s, a, b) == (a \in ToSet(s) /\ b \in ToSet(s)) => Pos(s, a) < Pos(s, b)

(* the security state sent to the NCP carries exactly the supplied keys, flags match the supplied fields *)
SecurityStateExact(ver, w, sec) ==
    /\ sec.netKey = w.netKey /\ sec.netSeq = w.netSeq
    /\ sec.flagNetKey = 1 /\ sec.flagPreKey = 1
    /\ sec.flagTcEui = (IF w.tcKnown = 1 THEN 1 ELSE 0)
    /\ sec.tcEui = (IF w.tcKnown = 1 THEN w.tcEui ELSE Zeros8)
    /\ sec.flagHashed = (IF Hashes(ver) THEN 1 ELSE 0)
    /\ sec.preKey = (IF Hashes(ver) THEN w.hashedTclk ELSE w.tclk)

(* the NCP's store after the write holds the settings *)
StoreHolds(ver, w, st) ==
    /\ st.pan = w.pan /\ st.epan = w.epan /\ st.channel = w.channel /\ st.mask = w.mask /\ st.updateId = w.updateId
    /\ st.netKey = w.netKey /\ st.netSeq = w.netSeq
    /\ (CanCounters(ver) => st.netFc = w.netFc)
    /\ ToSet(st.linkKeys) = ToSet(w.linkKeys)
    /\ (CanChildren(ver) => ToSet(st.children) = ToSet(w.children))
    /\ st.running = 1

(* reading back returns what was written *)
RoundTrip(ver, w, r) ==
    /\ r.pan = w.pan /\ r.epan = w.epan /\ r.channel = w.channel /\ r.mask = w.mask /\ r.updateId = w.updateId
    /\ r.netKey = w.netKey /\ r.netSeq = w.netSeq
    /\ (CanCounters(ver) => r.netFc = w.netFc)
    /\ r.tclk = w.tclk
    /\ (Hashes(ver) => r.hashedTclk = w.hashedTclk)
    /\ ToSet(r.linkKeys) = ToSet(w.linkKeys)
    /\ Len(r.linkKeys) = Cardinality(ToSet(w.linkKeys))
    /\ (CanChildren(ver) => ToSet(r.children) = ToSet(w.children))

(* restore order: counters before the security state and only while no network runs; keys, children and security before forming *)
OrderOk(order) ==
    /\ "formNetwork" \in ToSet(order)
    /\ Before(order, "setInitialSecurityState", "formNetwork")
    /\ Before(order, "setValue:VALUE_NWK_FRAME_COUNTER", "formNetwork")
    /\ Before(order, "setValue:VALUE_APS_FRAME_COUNTER", "formNetwork")
    /\ \A i \in 1 .. Len(order) : order[i] \in {"addOrUpdateKeyTableEntry", "importLinkKey", "setChildData"} => i < Pos(order, "formNetwork")
    /\ Before(order, "clearKeyTable", "setInitialSecurityState")

(* the node's own address: reading back reports the address the NCP runs with; where the NCP can take a   *)
(* new address (rewritable token, or permission to burn the write-once token while it is blank) and the  *)
(* supplied address is known, the NCP runs with the supplied address after the write - also when the     *)
(* same settings are restored a second time                                                              *)
NodeAddress(w, st, r) ==
    /\ r.ieee = st.eui
    /\ ((w.ieeeKnown = 1 /\ w.canSet = 1) => st.eui = w.ieee)
(* the trust centre of a network formed by this node is the node itself: when the supplied trust-centre  *)
(* address is the supplied node address, the address given in the security state is the address the NCP  *)
(* really runs with (not a stale or unwritten one), and it is read back as the link key's partner        *)
TcAddress(w, sec, st, r) ==
    (w.tcSelf = 1) => (sec.flagTcEui = 1 /\ sec.tcEui = st.eui /\ r.tcPartner = st.eui)

(* two reads of the settings that overlap in time (the second started after the first issued some commands): each reports what a *)
(* read on its own reports - one read's commands must not colour the other's                                                        *)
OverlapFields(x) == <<x.pan, x.epan, x.channel, x.updateId, x.netKey, x.netSeq, x.netFc, x.tclk, x.tcPartner, x.ieee>>
OverlapReads(r, ro) == \A i \in 1 .. Len(ro) : OverlapFields(ro[i]) = OverlapFields(r)

Clauses == {"SecurityStateExact", "StoreHolds", "RoundTrip", "OrderOk", "Completed", "NodeAddress", "TcAddress", "ReadMatchesStore", "OverlapReads"}
Violated(e) == {c \in Clauses :
    ~(CASE c = "SecurityStateExact" -> (e.completed = 1 => SecurityStateExact(e.ver, e.w, e.sec))
        [] c = "StoreHolds" -> (e.completed = 1 => StoreHolds(e.ver, e.w, e.st))
        [] c = "RoundTrip" -> (e.completed = 1 => RoundTrip(e.ver, e.w, e.r))
        [] c = "OrderOk" -> (e.completed = 1 => OrderOk(e.order))
        [] c = "NodeAddress" -> (e.completed = 1 => NodeAddress(e.w, e.st, e.r))
        [] c = "TcAddress" -> (e.completed = 1 => TcAddress(e.w, e.sec, e.st, e.r))
        \* a child left the NCP's table (a hole below occupied slots), then the settings are read again: the child table read is the NCP's
        [] c = "ReadMatchesStore" -> ((e.completed = 1 /\ e.second = 1) => ToSet(e.r2children) = ToSet(e.st2children))
        [] c = "OverlapReads" -> ((e.completed = 1 /\ e.overlap = 1) => (Len(e.ro) = 2 /\ OverlapReads(e.r, e.ro)))
        [] c = "Completed" -> e.completed = 1)}
=============================================================================
