--------------------------- MODULE Trace_EventOps ---------------------------
(* C17 binding: the real EZSP.formNetwork / leaveNetwork / startScan and the  *)
(* real ControllerApplication._ensure_network_running, with the harness       *)
(* playing the NCP at frame level in virtual time.                            *)
EXTENDS EventOps, Json, IOUtils, TLCExt, TLC
Traces == JsonDeserialize(IOEnv.TRACE_FILE)
VARIABLES o, tid, l
tvars == <<o, tid, l>>
Tr == Traces[tid]
TInit == tid \in 1 .. Len(Traces) /\ l = 1 /\ o = OInit("form")
Take(e, r) == e.out = r.out /\ o' = r.o
TNext ==
  /\ l <= Len(Tr)
  /\ LET e == Tr[l] IN
       \/ e.a = "start" /\ Take(e, StartFn(OInit(e.kind), e.t))
       \/ e.a = "probe" /\ Take(e, ProbeFn(o, e.joined = 1, e.t))
       \/ e.a = "resp" /\ Take(e, IF o.kind = "scan" /\ o.ph = "sent" /\ o.saw THEN RespScanEarly(o, e.st) ELSE RespFn(o, e.st, e.t))
       \/ e.a = "status" /\ Take(e, StatusFn(o, e.s))
       \/ e.a = "result" /\ Take(e, ResultFn(o, e.x))
       \/ e.a = "complete" /\ Take(e, CompleteFn(o, e.ok = 1))
       \/ e.a = "tick" /\ TimeoutEnabled(o) /\ e.t = o.t0 + TimeoutOf(o.kind) /\ Take(e, TimeoutFn(o))
       \/ e.a = "tick" /\ CmdTimeoutEnabled(o) /\ e.t = o.t0 + CmdTimeout /\ Take(e, CmdTimeoutFn(o))
       \* a timer of the loop fired and nothing observable happened while the model has no timeout due: stuttering
       \/ e.a = "tick" /\ e.out = <<>> /\ ~(TimeoutEnabled(o) /\ e.t >= o.t0 + TimeoutOf(o.kind))
                        /\ ~(CmdTimeoutEnabled(o) /\ e.t >= o.t0 + CmdTimeout) /\ UNCHANGED o
       \/ e.a = "cancel" /\ Take(e, CancelFn(o))
       \/ e.a = "end" /\ o.ph \in {"idle", "done"} /\ e.pending = 0 /\ e.listeners = 0 /\ e.callbacks = 0 /\ UNCHANGED o
  /\ l' = l + 1 /\ UNCHANGED tid
TSpec == TInit /\ [][TNext]_tvars
Progress == TLCSet(1, [TLCGet(1) EXCEPT ![tid] = IF @ < l THEN l ELSE @])
Post == /\ PrintT(<<"BVPROGRESS", TLCGet(1)>>)
        /\ \A i \in 1 .. Len(Traces) : TLCGet(1)[i] = Len(Traces[i]) + 1
ASSUME TLCSet(1, [i \in 1 .. Len(Traces) |-> 0])
=============================================================================
