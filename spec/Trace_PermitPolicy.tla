-------------------------- MODULE Trace_PermitPolicy --------------------------
(* X03 binding: the real ControllerApplication.permit(T) at chosen virtual      *)
(* instants against the simulated NCP.  Per step the commands the NCP received   *)
(* are split into those of the background task and those of the caller's path;   *)
(* each projection must be the model's sequence, and the policy / join window    *)
(* the NCP holds afterwards must be the model's.                                 *)
EXTENDS PermitPolicy, Json, IOUtils, TLCExt, TLC
Traces == JsonDeserialize(IOEnv.TRACE_FILE)
VARIABLES s, tid, l
tvars == <<s, tid, l>>
Tr == Traces[tid]
TInit == tid \in 1 .. Len(Traces) /\ l = 2 /\ Traces[tid][1].a = "cfg" /\ s = PInit0
Vc == Tr[1].vc
Take(e, r) == /\ e.task = r.task /\ e.main = r.main /\ e.raised = 0
              /\ e.pol = r.s.pol /\ e.open = r.s.open /\ e.keys = r.s.keys
              /\ s' = r.s
TNext ==
  /\ l <= Len(Tr)
  /\ LET e == Tr[l] IN
       \/ e.a = "permit" /\ Take(e, PermitFn(s, e.T, e.t, Vc))
       \/ e.a = "tick" /\ (IF Due(s, e.t) THEN Take(e, WakeFn(s, e.t)) ELSE Take(e, PRes(s, <<>>, <<>>)))
       \/ e.a = "end" /\ s.wakes = <<>> /\ e.pending = 0 /\ e.pol = s.pol /\ UNCHANGED s
  /\ l' = l + 1 /\ UNCHANGED tid
TSpec == TInit /\ [][TNext]_tvars
Restored == RestoredWhenIdle(s)
Progress == TLCSet(1, [TLCGet(1) EXCEPT ![tid] = IF @ < l THEN l ELSE @])
Post == /\ PrintT(<<"BVPROGRESS", TLCGet(1)>>)
        /\ \A i \in 1 .. Len(Traces) : TLCGet(1)[i] = Len(Traces[i]) + 1
ASSUME TLCSet(1, [i \in 1 .. Len(Traces) |-> 0])
=============================================================================
