------------------------------ MODULE Watchdog ------------------------------
(***************************************************************************)
(* C19 - the watchdog feed of the application                              *)
(* (ControllerApplication._watchdog_feed / _watchdog_loop).                *)
(*   fails : consecutive failed feeds so far                               *)
(*   feeds : feeds since the loop (re)started (later versions only)        *)
(*   ver   : "v4" (keep-alive is a no-op command) | "later" (counter read) *)
(*   raised, cmd : outcome / keep-alive command of the last feed           *)
(*   hist  : outcomes so far (history variable for RaisedIff)              *)
(* A feed fails by command timeout or by an EZSP error, at the keep-alive  *)
(* command itself or (later versions) at the free-buffer read after it.    *)
(***************************************************************************)
EXTENDS Naturals, Sequences

CONSTANTS Max,        \* tolerated run of consecutive failures (configuration)
          Period      \* counter read-and-clear period in feeds (configuration)

VARIABLES fails, feeds, ver, raised, cmd, hist
vars == <<fails, feeds, ver, raised, cmd, hist>>

(* "okbad": the keep-alive succeeded and the free-buffer read was answered with an error STATUS - a successful feed *)
Outcomes == {"ok", "okbad", "timeout", "ezsperr", "timeout2"}
Failure(o) == o \notin {"ok", "okbad"}

Init == /\ fails = 0 /\ feeds = 0 /\ ver \in {"v4", "later"}
        /\ raised = FALSE /\ cmd = "none" /\ hist = <<>>

Feed(o) ==
    /\ o \in Outcomes
    /\ (ver = "v4" => o \notin {"timeout2", "okbad"})
    /\ feeds' = IF ver = "v4" THEN feeds ELSE feeds + 1
    /\ cmd' = IF ver = "v4" THEN "nop"
              ELSE IF feeds' % Period = 0 THEN "readAndClearCounters" ELSE "readCounters"
    /\ fails' = IF Failure(o) THEN fails + 1 ELSE 0
    /\ raised' = (fails' > Max)
    /\ hist' = Append(hist, o)
    /\ UNCHANGED ver

(* the watchdog loop is (re)started: both counters start from zero *)
Restart == /\ fails' = 0 /\ feeds' = 0 /\ raised' = FALSE /\ cmd' = "none" /\ hist' = <<>>
           /\ UNCHANGED ver

Next == (\E o \in Outcomes : Feed(o)) \/ Restart
Spec == Init /\ [][Next]_vars

(* a feed raises exactly when the last Max+1 outcomes (including this one) were all failures *)
RECURSIVE TrailingFailures(_)
TrailingFailures(s) == IF s = <<>> \/ ~Failure(s[Len(s)]) THEN 0 ELSE 1 + TrailingFailures(SubSeq(s, 1, Len(s) - 1))
RaisedIff == hist # <<>> => (raised <=> TrailingFailures(hist) > Max)
SuccessClears == (hist # <<>> /\ ~Failure(hist[Len(hist)])) => (fails = 0 /\ ~raised)
KeepAlive == hist # <<>> => (ver = "v4" <=> cmd = "nop")
ClearOnPeriod == (hist # <<>> /\ ver = "later") => ((cmd = "readAndClearCounters") <=> (feeds % Period = 0))
Bound == Len(hist) <= 9
Bound7 == Len(hist) <= 7
=============================================================================
