---------------------------- MODULE ConfigWrite -----------------------------
(***************************************************************************)
(* C16 - the contract of the configuration write (EZSP.write_config) over  *)
(* the ordered sequence of set operations the NCP sees.                    *)
(* A run is a record:                                                      *)
(*   defaults : setting -> value      bellows' defaults for the version    *)
(*   cur      : setting -> value the NCP reports (readable settings only)  *)
(*   ovr      : setting -> user-supplied value                             *)
(*   disabled : settings the user disabled                                 *)
(*   sets     : <<[s, v]>> set operations in the order the NCP saw them    *)
(*   returned : the write returned normally                                *)
(* Capacity settings (table sizes, child and network counts) are pinned    *)
(* here by name, not taken from the code's grow-only flag.                 *)
(***************************************************************************)
EXTENDS Naturals, Sequences, FiniteSets

Capacity == {"CONFIG_NEIGHBOR_TABLE_SIZE", "CONFIG_BINDING_TABLE_SIZE", "CONFIG_ADDRESS_TABLE_SIZE",
             "CONFIG_MULTICAST_TABLE_SIZE", "CONFIG_ROUTE_TABLE_SIZE", "CONFIG_DISCOVERY_TABLE_SIZE",
             "CONFIG_MAX_END_DEVICE_CHILDREN", "CONFIG_TRUST_CENTER_ADDRESS_CACHE_SIZE",
             "CONFIG_SOURCE_ROUTE_TABLE_SIZE", "CONFIG_KEY_TABLE_SIZE", "CONFIG_CERTIFICATE_TABLE_SIZE",
             "CONFIG_BROADCAST_TABLE_SIZE", "CONFIG_MAC_FILTER_TABLE_SIZE", "CONFIG_SUPPORTED_NETWORKS",
             "CONFIG_RF4CE_PAIRING_TABLE_SIZE", "CONFIG_RF4CE_PENDING_OUTGOING_PACKET_TABLE_SIZE",
             "CONFIG_GP_PROXY_TABLE_SIZE", "EZSP_CONFIG_GP_SINK_TABLE_SIZE"}
BufferCount == "CONFIG_PACKET_BUFFER_COUNT"

Names(sets) == {sets[i].s : i \in 1 .. Len(sets)}
Pos(sets, s) == CHOOSE i \in 1 .. Len(sets) : sets[i].s = s

(* each setting at most once *)
AtMostOnce(r) == \A i, j \in 1 .. Len(r.sets) : r.sets[i].s = r.sets[j].s => i = j
(* a user-supplied value is written exactly as given *)
OverrideExact(r) == \A i \in 1 .. Len(r.sets) :
                       r.sets[i].s \in DOMAIN r.ovr => r.sets[i].v = r.ovr[r.sets[i].s]
(* nothing is written for a setting the user disabled *)
DisabledSilent(r) == \A i \in 1 .. Len(r.sets) : r.sets[i].s \notin r.disabled
(* applying bellows' own defaults never lowers a capacity setting below what the NCP reports *)
NeverShrink(r) == \A i \in 1 .. Len(r.sets) : LET s == r.sets[i].s IN
                     (s \in Capacity /\ s \notin DOMAIN r.ovr /\ s \in DOMAIN r.cur) => r.sets[i].v >= r.cur[s]
(* the packet-buffer count is set after every other setting *)
BufferLast(r) == BufferCount \in Names(r.sets) => Pos(r.sets, BufferCount) = Len(r.sets)
(* every setting to be applied was attempted, whatever the NCP answered to the others:          *)
(* user-supplied ones always; defaults unless grow-only and already large enough (or equal)     *)
MustSet(r, s) == /\ s \notin r.disabled
                 /\ \/ s \in DOMAIN r.ovr
                    \/ /\ s \in DOMAIN r.defaults
                       /\ ~(s \in DOMAIN r.cur /\ s \in Capacity /\ r.cur[s] >= r.defaults[s])
                       /\ ~(s \in DOMAIN r.cur /\ r.cur[s] = r.defaults[s])
Complete(r) == /\ r.returned = 1
               /\ \A s \in (DOMAIN r.ovr \cup DOMAIN r.defaults) : MustSet(r, s) => s \in Names(r.sets)
(* nothing outside defaults and overrides is written *)
OnlyKnown(r) == Names(r.sets) \subseteq (DOMAIN r.ovr \cup DOMAIN r.defaults)

Clauses == {"AtMostOnce", "OverrideExact", "DisabledSilent", "NeverShrink", "BufferLast", "Complete", "OnlyKnown"}
Holds(r, c) == CASE c = "AtMostOnce" -> AtMostOnce(r) [] c = "OverrideExact" -> OverrideExact(r)
                 [] c = "DisabledSilent" -> DisabledSilent(r) [] c = "NeverShrink" -> NeverShrink(r)
                 [] c = "BufferLast" -> BufferLast(r) [] c = "Complete" -> Complete(r) [] c = "OnlyKnown" -> OnlyKnown(r)
Violated(r) == {c \in Clauses : ~Holds(r, c)}
=============================================================================
