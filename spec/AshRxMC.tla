------------------------------ MODULE AshRxMC -------------------------------
(* C02 on the specification itself: all byte streams over a reserved-byte-   *)
(* rich alphabet (plus whole valid frames as macro symbols) up to a length   *)
(* bound; nothing is delivered upward unless the candidate had valid escapes *)
(* and a valid CRC, and the buffer holds only bytes since the last boundary. *)
EXTENDS AshRx, TLC

CONSTANTS Alphabet, MaxLen

ValidAck == Wire(Ack(1))
ValidData(n) == Wire([type |-> "DATA", frm |-> n, retx |-> 0, ack |-> 0, pl |-> <<126, 17, 0>>])
Symbols == {<<b>> : b \in Alphabet} \cup {ValidAck, ValidData(0), ValidData(1)}

VARIABLES rx, n, lastCand
vars == <<rx, n, lastCand>>
Init == rx = RxInit /\ n = 0 /\ lastCand = <<>>
Feed(s) == /\ n < MaxLen
           /\ n' = n + 1
           /\ LET r == RxBytes([rx EXCEPT !.out = <<>>], s) IN rx' = r
           /\ lastCand' = IF FLAG \in {s[i] : i \in 1 .. Len(s)} THEN rx.buf \o SubSeq(s, 1, Len(s) - 1) ELSE lastCand
Next == \E s \in Symbols : Feed(s)
Spec == Init /\ [][Next]_vars

Ups(out) == SelectSeq(out, LAMBDA o : o.o \in {"up_data", "up_reset"})
(* an upward delivery in a step implies that the bytes of the candidate unstuff and parse *)
NeverUpOnInvalid == Ups(rx.out) # <<>> => \E k \in 0 .. Len(lastCand) :
                        Decode(SubSeq(lastCand, k + 1, Len(lastCand))).type # "INVALID"
BufBounded == Len(rx.buf) <= MaxLen * 10
NoReservedInBuf == \A i \in 1 .. Len(rx.buf) : rx.buf[i] \notin (ReservedBytes \ {ESC})
DiscardClearsBuf == rx.disc => rx.buf = <<>>
=============================================================================
