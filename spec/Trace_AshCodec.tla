--------------------------- MODULE Trace_AshCodec ---------------------------
(* C03 binding: every vector recorded from the real bellows.ash code         *)
(* (frame -> to_bytes(), bytes given to transport.write() by _write_frame,   *)
(* parse_frame() verdicts, _stuff_bytes/_unstuff_bytes results) must equal   *)
(* what the AshCodec specification computes.                                 *)
EXTENDS AshCodec, Json, IOUtils, TLCExt, TLC

Traces == JsonDeserialize(IOEnv.TRACE_FILE)
VARIABLES tid, l
tvars == <<tid, l>>
Tr == Traces[tid]

TInit == tid \in 1 .. Len(Traces) /\ l = 1

Prefix(e) == IF e.cancel = 1 THEN <<CAN>> ELSE <<>>

Explains(e) ==
    \/ /\ e.a = "enc"
       /\ e.bytes = Encode(e.f)
       /\ e.wire = Prefix(e) \o Wire(e.f)
       /\ e.back = e.f
    \/ /\ e.a = "parse"
       /\ e.got = Parse(e.bytes)
    \/ /\ e.a = "stuff"
       /\ e.out = Stuff(e.bytes)
       /\ \A i \in 1 .. Len(e.out) : e.out[i] \in ReservedBytes => e.out[i] = ESC
       /\ e.back = e.bytes
    \/ /\ e.a = "unstuff"
       /\ LET u == Unstuff(e.bytes) IN
            /\ e.ok = u.ok
            /\ u.ok => e.out = u.bytes
    \/ /\ e.a = "rand"
       /\ e.out = SubSeq(LfsrSeq, 1, Len(e.out))

TNext == /\ l <= Len(Tr)
         /\ Explains(Tr[l])
         /\ l' = l + 1
         /\ UNCHANGED tid

TSpec == TInit /\ [][TNext]_tvars

Progress == TLCSet(1, [TLCGet(1) EXCEPT ![tid] = IF @ < l THEN l ELSE @])
Post == /\ PrintT(<<"BVPROGRESS", TLCGet(1)>>)
        /\ \A i \in 1 .. Len(Traces) : TLCGet(1)[i] = Len(Traces[i]) + 1
ASSUME TLCSet(1, [i \in 1 .. Len(Traces) |-> 0])
=============================================================================
