----------------------------- MODULE FailureMC ------------------------------
(* An abstract model of the slice (link up/lost, ASH connected/failed, EZSP   *)
(* running, transport open, commands queued / sending / waiting) in which a   *)
(* failure of every kind is enabled in every state; the observer of           *)
(* Failure.tla must accept every event the model produces, and every call     *)
(* ends (liveness under fair timers).                                         *)
EXTENDS Failure, TLC
CONSTANTS NCmds
VARIABLES s, ash, running, topen, cmd, now, reg0
vars == <<s, ash, running, topen, cmd, now, reg0>>
(* cmd[c] \in "idle" | "queued" | "sending" | "waiting" | "done" *)
Kinds == {"error", "rstack", "silent", "lost", "eof"}
Init == /\ reg0 \in BOOLEAN /\ s = FInit(reg0) /\ ash = "CONN" /\ running = TRUE /\ topen = TRUE
        /\ cmd = [c \in 1 .. NCmds |-> "idle"] /\ now = 0
Slot == {c \in 1 .. NCmds : cmd[c] \in {"sending", "waiting"}}
(* EZSP.enter_failed_state: stop, close, ask the application - only if a callback is registered *)
EnterFailed(s1) == IF s1.reg /\ ~s1.closed THEN /\ RequestOk(s1, now) /\ s' = Request(s1, now) /\ running' = FALSE /\ topen' = FALSE
                   ELSE s' = s1 /\ UNCHANGED <<running, topen>>
IssueCmd(c) == /\ cmd[c] = "idle"
               /\ IF ~running THEN /\ ProbeOk(s, "EzspError", 0) /\ cmd' = [cmd EXCEPT ![c] = "done"] /\ UNCHANGED s
                  ELSE /\ s' = Issue(s, c, now)
                       /\ cmd' = [cmd EXCEPT ![c] = IF Slot = {} THEN "sending" ELSE "queued"]
               /\ UNCHANGED <<ash, running, topen, now, reg0>>
(* the link-level send of the slot holder: written and acknowledged, or refused at the failed / closed gate *)
SendOk(c) == /\ cmd[c] = "sending" /\ ash = "CONN" /\ topen /\ s.kind # "silent"
             /\ WriteOk(s, now) /\ cmd' = [cmd EXCEPT ![c] = "waiting"] /\ UNCHANGED <<s, ash, running, topen, now, reg0>>
Finish(c, next) == cmd' = [x \in 1 .. NCmds |-> IF x = c THEN "done" ELSE IF x = next THEN "sending" ELSE cmd[x]]
NextQueued == IF \E x \in 1 .. NCmds : cmd[x] = "queued" THEN CHOOSE x \in 1 .. NCmds : cmd[x] = "queued" ELSE 0
SendFails(c) == /\ cmd[c] = "sending" /\ (ash = "FAILED" \/ ~topen)
                /\ CompleteOk(s, c, now) /\ s' = Complete(s, c) /\ Finish(c, NextQueued)
                /\ UNCHANGED <<ash, running, topen, now, reg0>>
(* silent NCP: the retry budget runs out, ASH enters FAILED and reports upward *)
Exhaust(c) == /\ cmd[c] = "sending" /\ s.kind = "silent" /\ ash = "CONN" /\ topen
              /\ now' = now + LinkTimeout
              /\ CompleteOk(s, c, now') /\ ash' = "FAILED"
              /\ LET s1 == Complete(s, c) IN
                   IF s1.reg /\ ~s1.closed THEN s' = Request(s1, now') /\ running' = FALSE /\ topen' = FALSE
                   ELSE s' = s1 /\ UNCHANGED <<running, topen>>
              /\ Finish(c, NextQueued) /\ UNCHANGED reg0
Reply(c) == /\ cmd[c] = "waiting" /\ ~Failed(s) /\ CompleteOk(s, c, now) /\ s' = Complete(s, c) /\ Finish(c, NextQueued)
            /\ UNCHANGED <<ash, running, topen, now, reg0>>
CmdTimeoutFires(c) == /\ cmd[c] = "waiting" /\ now' = now + CmdTimeout
                      /\ CompleteOk(s, c, now') /\ s' = Complete(s, c) /\ Finish(c, NextQueued)
                      /\ UNCHANGED <<ash, running, topen, reg0>>
FailNow(k) == /\ ~Failed(s) /\ ~s.closed
              /\ LET s1 == Fail(s, k, now) IN
                   CASE k \in {"error", "rstack"} -> /\ ash' = (IF k = "error" THEN "FAILED" ELSE ash) /\ EnterFailed(s1)
                     [] k \in {"lost", "eof"} -> /\ ash' = "FAILED" /\ EnterFailed(s1)
                     [] k = "silent" -> /\ s' = s1 /\ UNCHANGED <<ash, running, topen>>
              /\ UNCHANGED <<cmd, now, reg0>>
Close == /\ ~Failed(s) /\ ~s.closed /\ s' = CloseDeliberately(s) /\ running' = FALSE /\ topen' = FALSE
         /\ UNCHANGED <<ash, cmd, now, reg0>>
Next == \/ \E c \in 1 .. NCmds : IssueCmd(c) \/ SendOk(c) \/ SendFails(c) \/ Exhaust(c) \/ Reply(c) \/ CmdTimeoutFires(c)
        \/ \E k \in Kinds : FailNow(k)
        \/ Close
Fair == \A c \in 1 .. NCmds : WF_vars(SendOk(c) \/ SendFails(c) \/ Exhaust(c) \/ CmdTimeoutFires(c))
Spec == Init /\ [][Next]_vars /\ Fair

Reported == (Failed(s) /\ s.reg /\ ~s.closed /\ s.kind # "silent") => s.reqs >= 1
Stopped == Known(s) => (~running /\ ~topen)
NoRequestOnClose == s.closed /\ ~Failed(s) => s.reqs = 0
NoRequestUnregistered == ~s.reg => s.reqs = 0
CallsEnd == \A c \in 1 .. NCmds : (cmd[c] \in {"sending", "waiting"}) ~> (cmd[c] = "done")
Bound == now <= 3 * (CmdTimeout + LinkTimeout)
=============================================================================
