----------------------------- MODULE AshCodecMC -----------------------------
(* C03 - the codec specification checked against itself: parsing inverts     *)
(* encoding, stuffing removes every reserved byte but ESC and is inverted by *)
(* unstuffing, the control-byte classes partition 0..255, and every 1- and   *)
(* 2-bit corruption of an encoded frame is rejected.  One state per frame.   *)
EXTENDS AshCodec, TLC

CONSTANTS PlBytes,     \* payload alphabet
          MaxPl,       \* maximal payload length explored
          Codes        \* reset / error codes explored

RECURSIVE SeqsUpTo(_, _)
SeqsUpTo(S, n) == IF n = 0 THEN {<<>>} ELSE
                  LET r == SeqsUpTo(S, n - 1) IN r \cup {Append(s, b) : s \in {x \in r : Len(x) = n - 1}, b \in S}

Frames ==
    {[type |-> "DATA", frm |-> a, retx |-> r, ack |-> k, pl |-> p] :
        a \in 0 .. 7, r \in 0 .. 1, k \in 0 .. 7, p \in SeqsUpTo(PlBytes, MaxPl)}
    \cup {[type |-> ty, res |-> x, nrdy |-> y, ack |-> k] : ty \in {"ACK", "NAK"}, x \in 0 .. 1, y \in 0 .. 1, k \in 0 .. 7}
    \cup {[type |-> "RST"]}
    \cup {[type |-> ty, ver |-> 2, code |-> c] : ty \in {"RSTACK", "ERROR"}, c \in Codes}

VARIABLE f
Init == f \in Frames
Next == UNCHANGED f
Spec == Init /\ [][Next]_f

RoundTrip == Parse(Encode(f)) = f
WireRoundTrip == LET w == Wire(f) IN /\ w[Len(w)] = FLAG
                                     /\ Decode(SubSeq(w, 1, Len(w) - 1)) = f
NoReservedOnWire == LET s == Stuff(Encode(f)) IN
                    /\ \A i \in 1 .. Len(s) : s[i] \in ReservedBytes => s[i] = ESC
                    /\ Unstuff(s) = [ok |-> TRUE, bytes |-> Encode(f)]
ClassOk == Classify(Ctrl(f)) = f.type

FlipBit(bytes, k) == LET i == (k \div 8) + 1 b == k % 8 IN
                     [bytes EXCEPT ![i] = @ ^^ (2 ^ b)]
BitFlipsRejected == LET e == Encode(f) n == Len(e) * 8 IN
                    /\ \A k \in 0 .. (n - 1) : Parse(FlipBit(e, k)) = Invalid
                    /\ \A k \in 0 .. (n - 1) : \A m \in (k + 1) .. (n - 1) :
                          Parse(FlipBit(FlipBit(e, k), m)) = Invalid

(* the six classes and "unknown" partition the control bytes as the ASH text says *)
ASSUME \A c \in Byte : Classify(c) = (CASE c \in 0 .. 127 -> "DATA" [] c \in 128 .. 159 -> "ACK"
                                        [] c \in 160 .. 191 -> "NAK" [] c = 192 -> "RST" [] c = 193 -> "RSTACK"
                                        [] c = 194 -> "ERROR" [] OTHER -> "UNKNOWN")
(* CRC check value of the ASCII string "123456789" for CRC-16/CCITT-FALSE *)
ASSUME Crc16(<<49, 50, 51, 52, 53, 54, 55, 56, 57>>) = 10673
(* first bytes of the ASH pseudo-random sequence (UG101: 0x42 0x21 0xA8 0x54 0x2A) *)
ASSUME SubSeq(LfsrSeq, 1, 5) = <<66, 33, 168, 84, 42>>
(* RST / RSTACK examples of the ASH text: C0 38 BC 7E and C1 02 02 9B 7B 7E *)
ASSUME Wire([type |-> "RST"]) = <<192, 56, 188, 126>>
ASSUME Wire([type |-> "RSTACK", ver |-> 2, code |-> 2]) = <<193, 2, 2, 155, 123, 126>>
(* DATA example of the ASH text (version command): 25 00 00 00 02 -> 25 42 21 A8 56 A6 09 7E *)
ASSUME Wire([type |-> "DATA", frm |-> 2, retx |-> 0, ack |-> 5, pl |-> <<0, 0, 0, 2>>]) = <<37, 66, 33, 168, 86, 166, 9, 126>>
(* ACK / NAK examples: 81 60 59 7E ; A6 34 DC 7E *)
ASSUME Wire([type |-> "ACK", res |-> 0, nrdy |-> 0, ack |-> 1]) = <<129, 96, 89, 126>>
ASSUME Wire([type |-> "NAK", res |-> 0, nrdy |-> 0, ack |-> 6]) = <<166, 52, 220, 126>>
(* ERROR example: C2 02 52 98 DE 7E ; stuffing example *)
ASSUME Wire([type |-> "ERROR", ver |-> 2, code |-> 82]) = <<194, 2, 82, 152, 222, 126>>
ASSUME Stuff(<<126, 17, 19, 24, 26, 125>>) = <<125, 94, 125, 49, 125, 51, 125, 56, 125, 58, 125, 93>>
=============================================================================
