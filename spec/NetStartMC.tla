------------------------------ MODULE NetStartMC ------------------------------
(* Closed model for X04: the procedure of NetStart against an NCP that may give  *)
(* every class of answer to every command (or none), with or without the         *)
(* NETWORK_UP event.  Every reachable state satisfies the clauses of NetStart.   *)
EXTENDS NetStart, TLC
CONSTANTS Src, V8, Tok, NPol
VARIABLES s
C == [src |-> Src, v8 |-> V8, tok |-> Tok, npol |-> NPol, upT |-> 0]
Cmd(n, rs, k) == {[a |-> "cmd", n |-> n, r |-> r, k |-> k, t |-> 0] : r \in rs \cup {"noreply"}}
Offers ==
    CASE s.pc = "state" -> Cmd("networkState", {"joined", "nonet"}, "read")
      [] s.pc = "boot" -> Cmd("networkState", {"joined", "nonet"}, "read") \cup Cmd("setConfigurationValue", {"-"}, "write")
      [] s.pc = "init" -> Cmd("networkInit", {"ok", "notjoined", "fail"}, "write")
      [] s.pc = "wait" -> {[a |-> "up", t |-> 0], [a |-> "end", out |-> "TimeoutError", running |-> FALSE, cbs |-> 0, t |-> 0]}
      [] s.pc = "eui" -> Cmd("getEui64", {"-"}, "read")
      [] s.pc = "sec" -> Cmd("getCurrentSecurityState", {"match", "mismatch", "bad"}, "read")
      [] s.pc = "tokget" -> Cmd("getTokenData", {"ok", "bad", "invalid"}, "read")
      [] s.pc = "tokset" -> Cmd("setTokenData", {"ok", "bad"}, "write")
      [] s.pc = "reset" -> {[a |-> "reset", t |-> 0]}
      [] s.pc = "conc" -> Cmd("setConcentrator", {"ok", "bad"}, "write")
      [] s.pc = "disc" -> Cmd("setSourceRouteDiscoveryMode", {"-"}, "write")
      [] s.pc = "pol" -> Cmd("setPolicy", {"ok", "bad"}, "write") \cup Cmd("networkState", {"joined"}, "read")
      [] s.pc = "load" -> Cmd("getNetworkParameters", {"-"}, "read") \cup {[a |-> "reg", t |-> 0], [a |-> "set", t |-> 0]}
      [] s.pc = "mid" -> {[a |-> "reg", t |-> 0], [a |-> "set", t |-> 0]}
      [] s.pc = "mcast" -> Cmd("getMulticastTableEntry", {"-"}, "read") \cup {[a |-> "end", out |-> "ok", running |-> TRUE, cbs |-> 1, t |-> 0]}
      [] s.pc = "raise" -> {[a |-> "end", out |-> s.out, running |-> s.running, cbs |-> s.cbs, t |-> 0]}
      [] OTHER -> {}
Init == s = NS0
Next == \E e \in Offers : s' \in Steps(C, s, e)
Spec == Init /\ [][Next]_s
\* every offer of the closed model is a behaviour of the procedure (no dead offers except where the guard says so)
Up == RunningImpliesUp(C, s)
LateUp == LateImpliesUp(s)
OnceOnly == Once(s)
TokReset == TokenThenReset(s)
Clean == FailedClean(s)
\* reachability witnesses (negated: TLC must violate each)
NeverOk == ~(s.pc = "ended" /\ s.out = "ok")
NeverRepaired == ~(s.pc = "ended" /\ s.out = "ok" /\ s.resets = 1)
=============================================================================
