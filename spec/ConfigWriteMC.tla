--------------------------- MODULE ConfigWriteMC ----------------------------
(* The contract is satisfiable for every abstract input: for five            *)
(* representative settings (capacity default, plain default, buffer count,   *)
(* override-only capacity, override-only plain) and every combination of     *)
(* reported value (below / equal / above / unreadable), override (absent /   *)
(* value / disabled), TLC constructs the canonical write and checks that it  *)
(* satisfies all clauses, and that the characteristic bad writes violate     *)
(* exactly the clause they should.                                           *)
EXTENDS ConfigWrite, TLC

S == <<"CONFIG_KEY_TABLE_SIZE", "CONFIG_STACK_PROFILE", "CONFIG_PACKET_BUFFER_COUNT", "CONFIG_BINDING_TABLE_SIZE", "CONFIG_MAX_HOPS">>
Defaults == [s \in {S[1], S[2], S[3]} |-> 10]
CurChoice == {"below", "equal", "above", "unreadable"}
OvrChoice == {"absent", "value", "disabled"}
VARIABLES cc, oc
Init == cc \in [1 .. 5 -> CurChoice] /\ oc \in [1 .. 5 -> OvrChoice]
Next == UNCHANGED <<cc, oc>>
Spec == Init /\ [][Next]_<<cc, oc>>

CurVal(c) == CASE c = "below" -> 5 [] c = "equal" -> 10 [] c = "above" -> 20 [] OTHER -> 0
Run(sets) == [defaults |-> Defaults,
              cur |-> [s \in {S[i] : i \in {j \in 1 .. 5 : cc[j] # "unreadable"}} |->
                          CurVal(cc[CHOOSE i \in 1 .. 5 : S[i] = s])],
              ovr |-> [s \in {S[i] : i \in {j \in 1 .. 5 : oc[j] = "value"}} |-> 7],
              disabled |-> {S[i] : i \in {j \in 1 .. 5 : oc[j] = "disabled"}},
              sets |-> sets, returned |-> 1]
(* canonical conforming write: overrides and needed defaults, buffer count last *)
Want(i) == LET s == S[i] IN
           IF oc[i] = "disabled" THEN <<>>
           ELSE IF oc[i] = "value" THEN <<[s |-> s, v |-> 7]>>
           ELSE IF s \notin DOMAIN Defaults THEN <<>>
           ELSE IF s \in Capacity /\ cc[i] \in {"equal", "above"} THEN <<>>
           ELSE <<[s |-> s, v |-> 10]>>
Canonical == Want(1) \o Want(2) \o Want(4) \o Want(5) \o Want(3)
Satisfiable == Violated(Run(Canonical)) = {}
(* moving the buffer count to the front is caught whenever something else is written too *)
BufferFirst == Want(3) \o Want(1) \o Want(2) \o Want(4) \o Want(5)
BufferOrderCaught == (Want(3) # <<>> /\ Len(Canonical) > 1) => "BufferLast" \in Violated(Run(BufferFirst))
(* writing the default over a larger reported capacity is caught *)
ShrinkCaught == (oc[1] = "absent" /\ cc[1] = "above") =>
                   "NeverShrink" \in Violated(Run(<<[s |-> S[1], v |-> 10]>> \o Canonical))
=============================================================================
