---------------------------- MODULE Trace_Outgoing ----------------------------
(* X06 binding: the real send_packet on every version; the commands the NCP     *)
(* received for each packet, projected by the harness's own per-version reader. *)
EXTENDS Outgoing, Json, IOUtils, TLCExt, TLC
Traces == JsonDeserialize(IOEnv.TRACE_FILE)
VARIABLES tid, l
tvars == <<tid, l>>
Tr == Traces[tid]
TInit == tid \in 1 .. Len(Traces) /\ l = 2 /\ Traces[tid][1].a = "cfg"
Same(a, b) == DOMAIN a = DOMAIN b /\ \A k \in DOMAIN a : a[k] = b[k]
TNext ==
  /\ l <= Len(Tr)
  /\ LET e == Tr[l]  want == ExpectedCmds(e.p, Tr[1].srcRouting, Tr[1].v14, Tr[1].routeCmd, e.tag) IN
       /\ e.a = "send" /\ e.out = "ok"
       /\ Len(e.cmds) = Len(want) /\ \A i \in 1 .. Len(want) : Same(e.cmds[i], want[i])
  /\ l' = l + 1 /\ UNCHANGED tid
TSpec == TInit /\ [][TNext]_tvars
Progress == TLCSet(1, [TLCGet(1) EXCEPT ![tid] = IF @ < l THEN l ELSE @])
Post == /\ PrintT(<<"BVPROGRESS", TLCGet(1)>>)
        /\ \A i \in 1 .. Len(Traces) : TLCGet(1)[i] = Len(Traces[i]) + 1
ASSUME TLCSet(1, [i \in 1 .. Len(Traces) |-> 0])
=============================================================================
