---------------------------- MODULE MulticastConc ----------------------------
(***************************************************************************)
(* C15, overlapping calls: subscribe / unsubscribe are coroutines - each   *)
(* makes its decisions, issues one table write and is suspended until the  *)
(* NCP answers; other calls may run in between.  One action per code       *)
(* segment: Begin (up to the write being issued, or an immediate return)   *)
(* and End (the NCP's answer).  The NCP processes writes in the order they *)
(* were issued (one EZSP command at a time) and applies a write when it    *)
(* accepts it.                                                             *)
(*   tbl    : NCP table (index -> group | Free)                            *)
(*   sub    : group -> index the host believes programmed                  *)
(*   avail  : indices the host believes free                               *)
(*   calls  : calls suspended in their write, in issue order:              *)
(*            [id, op ("sub" | "unsub"), g, idx]                           *)
(* A subscribe claims its index when it begins, so two overlapping         *)
(* subscribes never share one; the claimed index is returned when the      *)
(* write fails.                                                            *)
(***************************************************************************)
EXTENDS Naturals, FiniteSets, Sequences

Free == "free"
MC0(tbl, n) == [tbl |-> tbl, sub |-> [g \in {tbl[i] : i \in {j \in 0 .. n - 1 : tbl[j] # Free}} |-> CHOOSE i \in 0 .. n - 1 : tbl[i] = g],
                avail |-> {i \in 0 .. n - 1 : tbl[i] = Free}, calls |-> <<>>]
R(s, ret, wrote) == [s |-> s, ret |-> ret, wrote |-> wrote]
NoWrite == <<>>

(* subscribe(g) up to its first suspension: the set of possible results (the index taken from the free pool is not determined) *)
SubBegin(s, id, g) ==
    IF g \in DOMAIN s.sub THEN {R(s, "ok", NoWrite)}
    ELSE IF s.avail = {} THEN {R(s, "invalid_index", NoWrite)}
    ELSE {R([s EXCEPT !.avail = @ \ {i}, !.calls = Append(@, [id |-> id, op |-> "sub", g |-> g, idx |-> i])],
            "pending", [idx |-> i, grp |-> g, ep |-> 1]) : i \in s.avail}
UnsubBegin(s, id, g) ==
    IF g \notin DOMAIN s.sub THEN {R(s, "invalid_index", NoWrite)}
    ELSE {R([s EXCEPT !.calls = Append(@, [id |-> id, op |-> "unsub", g |-> g, idx |-> s.sub[g]])],
            "pending", [idx |-> s.sub[g], grp |-> g, ep |-> 0])}
(* the NCP answers the oldest outstanding write: a in "ok" | "reject" | "timeout" *)
End(s, a) ==
    LET c == Head(s.calls)  rest == Tail(s.calls) IN
    IF c.op = "sub"
    THEN IF a = "ok"
         THEN R([s EXCEPT !.calls = rest, !.tbl = [@ EXCEPT ![c.idx] = c.g],
                          !.sub = [x \in DOMAIN s.sub \cup {c.g} |-> IF x = c.g THEN c.idx ELSE s.sub[x]]], "ok", NoWrite)
         ELSE R([s EXCEPT !.calls = rest, !.avail = @ \cup {c.idx}], IF a = "reject" THEN "rejected" ELSE "exception", NoWrite)
    ELSE IF a = "ok" /\ c.g \notin DOMAIN s.sub
         \* an overlapping unsubscribe of the same group completed first: the entry is cleared once more on the NCP (the write was issued
         \* before anyone could claim the index again), the host's bookkeeping is NOT touched a second time - the call ends with an error
         THEN R([s EXCEPT !.calls = rest, !.tbl = [@ EXCEPT ![c.idx] = Free]], "error", NoWrite)
    ELSE IF a = "ok"
         THEN R([s EXCEPT !.calls = rest, !.tbl = [@ EXCEPT ![c.idx] = Free],
                          !.sub = [x \in DOMAIN s.sub \ {c.g} |-> s.sub[x]], !.avail = @ \cup {c.idx}], "ok", NoWrite)
         ELSE R([s EXCEPT !.calls = rest], IF a = "reject" THEN "rejected" ELSE "exception", NoWrite)

(* the caller of call `id` is cancelled while its write has not reached the NCP yet (still queued behind other traffic): the write never   *)
(* happens; a subscribe gives its claimed index back; nothing else changes                                                              *)
CancelQueued(s, id) ==
    LET k == CHOOSE k \in 1 .. Len(s.calls) : s.calls[k].id = id
        c == s.calls[k] IN
    R([s EXCEPT !.calls = SelectSeq(s.calls, LAMBDA x : x.id # id),
                !.avail = IF c.op = "sub" THEN @ \cup {c.idx} ELSE @], "cancelled", NoWrite)

(* ---- clauses *)
Claimed(s) == {s.calls[k].idx : k \in {k \in 1 .. Len(s.calls) : s.calls[k].op = "sub"}}
(* every index is free, used by exactly one group, or claimed by exactly one subscribe in progress *)
IndexOwnedOnce(s, n) ==
    /\ \A g, h \in DOMAIN s.sub : s.sub[g] = s.sub[h] => g = h
    /\ \A k, m \in 1 .. Len(s.calls) : (s.calls[k].op = "sub" /\ s.calls[m].op = "sub" /\ s.calls[k].idx = s.calls[m].idx) => k = m
    /\ s.avail \cap Claimed(s) = {} /\ s.avail \cap {s.sub[g] : g \in DOMAIN s.sub} = {}
(* with no call in progress the host's view is the NCP's table *)
QuietMirror(s, n) == s.calls = <<>> =>
    /\ DOMAIN s.sub = {s.tbl[i] : i \in {j \in 0 .. n - 1 : s.tbl[j] # Free}}
    /\ \A g \in DOMAIN s.sub : s.tbl[s.sub[g]] = g
    /\ s.avail = {i \in 0 .. n - 1 : s.tbl[i] = Free}
=============================================================================
