------------------------------ MODULE Gateway -------------------------------
(***************************************************************************)
(* C11 (reset handshake) and the link half of C10: bellows/uart.py Gateway *)
(* on top of the ASH host (AshHost.tla), at the granularity of event-loop  *)
(* callbacks.                                                              *)
(*                                                                         *)
(* State g:                                                                *)
(*   h   : ASH host state (AshHost)                                        *)
(*   rw  : reset waiter  "none" | "pending" | "resolved"                   *)
(*         resolved = its future is completed but the waiting coroutine    *)
(*         (and the clean-up callback) has not run yet - a distinct loop   *)
(*         iteration in the code                                           *)
(*   rk  : callers waiting for the reset outcome (sequence of ids)         *)
(*   rt  : time the pending reset was requested                            *)
(*   sw  : start-up-reset waiter, same three states;  sk : its caller id   *)
(*   up  : the serial transport is open                                    *)
(* Outputs (besides AshHost's write / up_data / done):                     *)
(*   [o |-> "rst"]                       CANCEL + RST frame + FLAG written *)
(*   [o |-> "failed", code |-> c]        application.enter_failed_state(c) *)
(*   [o |-> "applost"]                   application.connection_lost(exc)  *)
(*   [o |-> "rdone", k, res]   outcome of reset(): ok | timeout | connerr   *)
(*   [o |-> "sdone", k, res]   outcome of wait_for_startup_reset()         *)
(***************************************************************************)
EXTENDS AshHost

CONSTANTS ResetTimeout    \* ms, configuration

SoftwareReset == 11       \* ASH reset code 0x0B: reset acknowledged after a host RST

GInit == [h |-> HInit, rw |-> "none", rk |-> <<>>, rt |-> 0, sw |-> "none", sk |-> 0, up |-> TRUE]
GR(g, out) == [g |-> g, out |-> out]

Rst == [o |-> "rst"]
Failed(c) == [o |-> "failed", code |-> c]
AppLost == [o |-> "applost"]
RDone(k, r) == [o |-> "rdone", k |-> k, res |-> r]
SDone(k, r) == [o |-> "sdone", k |-> k, res |-> r]

(* Gateway.reset() called by caller k at time now *)
ResetCallFn(g, k, now) ==
    IF ~g.up THEN GR(g, <<RDone(k, "ncpfail")>>)                   \* closed-transport gate: nothing is written
    ELSE IF g.rw # "none"
    THEN GR([g EXCEPT !.rk = Append(g.rk, k)], <<>>)              \* joins the reset in progress: no second RST
    ELSE GR([g EXCEPT !.rw = "pending", !.rk = <<k>>, !.rt = now], <<Rst>>)

StartupWaitFn(g, k) == GR([g EXCEPT !.sw = "pending", !.sk = k], <<>>)

(* what the gateway does with a reset / error code reported by the ASH layer *)
Triage(g, code) ==
    IF code # SoftwareReset THEN GR(g, <<Failed(code)>>)           \* not the acknowledgement of a requested reset
    ELSE IF g.rw = "pending" THEN GR([g EXCEPT !.rw = "resolved"], <<>>)
    ELSE IF g.sw = "pending" THEN GR([g EXCEPT !.sw = "resolved"], <<>>)
    ELSE GR(g, <<>>)                                               \* unexpected software reset: logged only

(* one frame from the peer: the ASH host processes it, upward reset notices are triaged *)
GRecvFn(g, f) ==
    LET r  == RecvFn(g.h, f)
        g1 == [g EXCEPT !.h = r.h]
        rs == SelectSeq(r.out, LAMBDA o : o.o = "up_reset")
        rest == SelectSeq(r.out, LAMBDA o : o.o # "up_reset")
    IN IF rs = <<>> THEN GR(g1, rest)
       ELSE LET t == Triage(g1, rs[1].code) IN GR(t.g, rest \o t.out)

(* the loop turns: resolved waiters resume, their callers get the outcome *)
GWake(g, out) ==
    LET o1 == IF g.rw = "resolved" THEN [i \in 1 .. Len(g.rk) |-> RDone(g.rk[i], "ok")] ELSE <<>>
        g1 == IF g.rw = "resolved" THEN [g EXCEPT !.rw = "none", !.rk = <<>>] ELSE g
        o2 == IF g.sw = "resolved" THEN <<SDone(g.sk, "ok")>> ELSE <<>>
        g2 == IF g.sw = "resolved" THEN [g1 EXCEPT !.sw = "none", !.sk = 0] ELSE g1
    IN GR(g2, out \o o1 \o o2)

(* the reset timeout fires *)
ResetTimeoutEnabled(g) == g.rw = "pending"
ResetTimeoutFn(g) ==
    (* the first caller owns the timeout; a caller that joined awaits the same future, which the expiry *)
    (* cancels: it sees a timeout or a cancellation (latitude, the code logs such a request as an error) *)
    GR([g EXCEPT !.rw = "none", !.rk = <<>>],
       [i \in 1 .. Len(g.rk) |-> RDone(g.rk[i], IF i = 1 THEN "timeout" ELSE "timeout*")])

(* the connection is lost (exc = TRUE) or closed deliberately (exc = FALSE): every pending waiter is *)
(* released with the connection error; the application is told only about an unexpected loss          *)
LostFn(g, exc) ==
    LET o1 == IF g.sw = "pending" THEN <<SDone(g.sk, "connerr")>> ELSE <<>>
        o2 == IF g.rw = "pending" THEN [i \in 1 .. Len(g.rk) |-> RDone(g.rk[i], "connerr")] ELSE <<>>
        o3 == IF exc THEN <<AppLost>> ELSE <<>>
        g1 == [g EXCEPT !.up = FALSE,
                        !.h.st = "FAILED",            \* the link is unusable: sends raise at the closed-transport gate
                        !.h.cur.wake = IF g.h.cur.id # 0 /\ g.h.cur.wake = "none" THEN "closed" ELSE @,
                        !.sw = IF g.sw = "pending" THEN "none" ELSE @, !.sk = IF g.sw = "pending" THEN 0 ELSE @,
                        !.rw = IF g.rw = "pending" THEN "none" ELSE @, !.rk = IF g.rw = "pending" THEN <<>> ELSE @]
    IN GR(g1, o3 \o o1 \o o2)

(* composed steps = one harness input followed by "run the loop until idle" *)
GSettle(g, out) == LET s == Settle(g.h, <<>>) w == GWake([g EXCEPT !.h = s.h], out \o s.out) IN w
GStepRecv(g, fs) ==
    LET r == FoldLeft(LAMBDA acc, f : LET x == GRecvFn(acc.g, f) IN GR(x.g, acc.out \o x.out), GR(g, <<>>), fs)
    IN GSettle(r.g, r.out)
(* frames, then loss of the connection, delivered as two callbacks in the same loop iteration *)
GStepRecvLost(g, fs, exc) ==
    LET r == FoldLeft(LAMBDA acc, f : LET x == GRecvFn(acc.g, f) IN GR(x.g, acc.out \o x.out), GR(g, <<>>), fs)
        x == LostFn(r.g, exc)
    IN GSettle(x.g, r.out \o x.out)
GStepLost(g, exc) == LET x == LostFn(g, exc) IN GSettle(x.g, x.out)
GStepReset(g, k, now) == LET r == ResetCallFn(g, k, now) IN GSettle(r.g, r.out)
GStepStartup(g, k) == StartupWaitFn(g, k)
GStepTimeout(g) == LET r == ResetTimeoutFn(g) IN GSettle(r.g, r.out)
GStepSubmit(g, id, pl) == LET r == StepSubmit(g.h, id, pl) IN GR([g EXCEPT !.h = r.h], r.out)
GStepTick(g) == LET r == StepTick(g.h) IN GR([g EXCEPT !.h = r.h], r.out)
=============================================================================
