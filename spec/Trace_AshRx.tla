----------------------------- MODULE Trace_AshRx -----------------------------
(* Code -> spec binding for C02: each trace is a byte stream cut into reads; *)
(* after every read the real AshProtocol.data_received must have produced    *)
(* exactly the upward calls and ACK/NAK numbers of the reference decoder,    *)
(* and nothing may raise.  A "mem" event carries a tracemalloc measurement    *)
(* taken while flag-free garbage was fed; TLC decides the bound.             *)
EXTENDS AshRx, Json, IOUtils, TLCExt, TLC

CONSTANTS MaxBuf          \* receive-buffer bound in bytes (configuration, read from the tree)

Traces == JsonDeserialize(IOEnv.TRACE_FILE)
VARIABLES rx, tid, l
tvars == <<rx, tid, l>>
Tr == Traces[tid]
TInit == tid \in 1 .. Len(Traces) /\ l = 1 /\ rx = RxInit

Proj(s, K) == SelectSeq(s, LAMBDA o : o.o \in K)
SameOut(a, b) == /\ LET wa == Proj(a, {"write"}) wb == Proj(b, {"write"}) IN
                      Len(wa) = Len(wb) /\ \A i \in 1 .. Len(wa) : MatchFrame(wa[i].f, wb[i].f)
                 /\ Proj(a, {"up_data", "up_reset"}) = Proj(b, {"up_data", "up_reset"})
                 /\ Proj(a, {"raised"}) = <<>>

TNext == /\ l <= Len(Tr)
         /\ LET e == Tr[l] IN
              \/ /\ e.a = "rx"
                 /\ IF "odd" \in DOMAIN e      \* the stream holds DATA candidates of a length outside 3 .. 128 (either handling, see AshRx)
                    THEN \E r \in RxBytesAlts([rx EXCEPT !.out = <<>>], e.bytes) : SameOut(e.out, r.out) /\ rx' = r
                    ELSE LET r == RxBytes([rx EXCEPT !.out = <<>>], e.bytes) IN
                           SameOut(e.out, r.out) /\ rx' = r
              \/ /\ e.a = "mem"        \* e.fed bytes of flag-free garbage in reads of e.chunk bytes
                 /\ e.peak <= 4 * (MaxBuf + e.chunk) + 65536
                 /\ e.held <= 4 * (MaxBuf + e.chunk) + 65536
                 /\ rx' = [rx EXCEPT !.buf = <<>>, !.out = <<>>]
         /\ l' = l + 1
         /\ UNCHANGED tid
TSpec == TInit /\ [][TNext]_tvars

Progress == TLCSet(1, [TLCGet(1) EXCEPT ![tid] = IF @ < l THEN l ELSE @])
Post == /\ PrintT(<<"BVPROGRESS", TLCGet(1)>>)
        /\ \A i \in 1 .. Len(Traces) : TLCGet(1)[i] = Len(Traces[i]) + 1
ASSUME TLCSet(1, [i \in 1 .. Len(Traces) |-> 0])
=============================================================================
