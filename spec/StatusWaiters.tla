---------------------------- MODULE StatusWaiters ----------------------------
(***************************************************************************)
(* C17, several operations at once: the stack-status listener registry     *)
(* (EZSP.wait_for_stack_status / stack_status_callback) that forming,      *)
(* leaving and bring-up all wait on.  A waiter is inside its `with` block   *)
(* from Enter to Exit.  State w : id -> [st, ph]                           *)
(*   ph: "out" (not registered) | "in" (registered, unresolved)            *)
(*       | "got" (resolved by its status, still inside the block)          *)
(* A status event resolves EVERY registered unresolved waiter of that      *)
(* status - not only the first; a waiter sees the event whenever it        *)
(* arrives while the waiter is registered; leaving the block (normally,    *)
(* by timeout or by cancellation) removes the registration.                *)
(***************************************************************************)
EXTENDS Naturals, FiniteSets

W0(ids) == [i \in ids |-> [st |-> "none", ph |-> "out"]]
EnterFn(w, i, st) == [w EXCEPT ![i] = [st |-> st, ph |-> "in"]]
Resolved(w, st) == {i \in DOMAIN w : w[i].ph = "in" /\ w[i].st = st}
StatusFnW(w, st) == [i \in DOMAIN w |-> IF i \in Resolved(w, st) THEN [w[i] EXCEPT !.ph = "got"] ELSE w[i]]
ExitFn(w, i) == [w EXCEPT ![i] = [st |-> "none", ph |-> "out"]]
Registered(w) == Cardinality({i \in DOMAIN w : w[i].ph = "in"})       \* unresolved registrations (resolved ones may linger until the block is left)
Inside(w) == Cardinality({i \in DOMAIN w : w[i].ph # "out"})
=============================================================================
