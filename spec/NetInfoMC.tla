------------------------------ MODULE NetInfoMC -----------------------------
(* An abstract model of the restore and read-back procedures against the NCP  *)
(* store, for every protocol version: TLC builds the run record the model     *)
(* produces for every combination of supplied settings (link keys, children,  *)
(* trust-centre address known or not, counters) and checks that the contract  *)
(* of NetInfo.tla accepts it - the contract is satisfiable by the intended    *)
(* procedure and depends on the version exactly as stated.                    *)
EXTENDS NetInfo, TLC
VARIABLES ver, nkeys, nchildren, tcKnown
Init == ver \in 4 .. 14 /\ nkeys \in 0 .. 2 /\ nchildren \in 0 .. 2 /\ tcKnown \in {0, 1}
Next == UNCHANGED <<ver, nkeys, nchildren, tcKnown>>
Spec == Init /\ [][Next]_<<ver, nkeys, nchildren, tcKnown>>
Key(i) == [j \in 1 .. 16 |-> i]
Eui(i) == [j \in 1 .. 8 |-> i]
W == [pan |-> 6699, epan |-> Eui(9), channel |-> 20, mask |-> "134217728", updateId |-> 3, netKey |-> Key(1), netSeq |-> 7,
      netFc |-> "74565", tclk |-> WellKnown, hashedTclk |-> Key(5), tcKnown |-> tcKnown, tcEui |-> Eui(4),
      ieeeKnown |-> 1, ieee |-> Eui(4), tcSelf |-> tcKnown, canSet |-> 1,
      linkKeys |-> [i \in 1 .. nkeys |-> [key |-> Key(10 + i), partner |-> Eui(10 + i)]],
      children |-> [i \in 1 .. nchildren |-> [eui |-> Eui(20 + i), nwk |-> 1000 + i]]]
(* the procedure: security state from the settings, store filled by the restore commands, read-back through the accessors *)
Sec == [netKey |-> W.netKey, netSeq |-> W.netSeq, flagNetKey |-> 1, flagPreKey |-> 1, flagTcEui |-> tcKnown,
        tcEui |-> IF tcKnown = 1 THEN W.tcEui ELSE Zeros8, flagHashed |-> IF Hashes(ver) THEN 1 ELSE 0,
        preKey |-> IF Hashes(ver) THEN W.hashedTclk ELSE W.tclk]
St == [pan |-> W.pan, epan |-> W.epan, channel |-> W.channel, mask |-> W.mask, updateId |-> W.updateId, netKey |-> W.netKey,
       netSeq |-> W.netSeq, netFc |-> IF CanCounters(ver) THEN W.netFc ELSE "0", linkKeys |-> W.linkKeys,
       children |-> IF CanChildren(ver) THEN W.children ELSE <<>>, running |-> 1, eui |-> W.ieee]
Rd == [pan |-> St.pan, epan |-> St.epan, channel |-> St.channel, mask |-> St.mask, updateId |-> St.updateId, netKey |-> St.netKey,
       netSeq |-> St.netSeq, netFc |-> St.netFc, tclk |-> IF Hashes(ver) THEN WellKnown ELSE Sec.preKey,
       hashedTclk |-> IF Hashes(ver) THEN Sec.preKey ELSE <<>>, linkKeys |-> St.linkKeys, children |-> St.children, ieee |-> St.eui, tcPartner |-> St.eui]
Order == <<"clearKeyTable">> \o (IF CanCounters(ver) THEN <<"setValue:VALUE_NWK_FRAME_COUNTER", "setValue:VALUE_APS_FRAME_COUNTER">> ELSE <<>>)
         \o <<"setInitialSecurityState">> \o [i \in 1 .. nkeys |-> IF ver >= 13 THEN "importLinkKey" ELSE "addOrUpdateKeyTableEntry"]
         \o (IF CanChildren(ver) THEN [i \in 1 .. nchildren |-> "setChildData"] ELSE <<>>) \o <<"formNetwork">>
Run == [ver |-> ver, w |-> W, sec |-> Sec, st |-> St, r |-> Rd, order |-> Order, completed |-> 1, second |-> 0, r2children |-> <<>>, st2children |-> <<>>, overlap |-> 0, ro |-> <<>>]
Satisfiable == Violated(Run) = {}
(* dropping the link keys or writing the counters after forming is caught *)
LostKeysCaught == nkeys > 0 => "RoundTrip" \in Violated([Run EXCEPT !.r.linkKeys = <<>>])
(* a stale or unwritten node address is caught: the NCP keeps another address than the one the trust-centre field names *)
StaleAddressCaught == /\ "NodeAddress" \in Violated([Run EXCEPT !.st.eui = Eui(7), !.r.ieee = Eui(7), !.r.tcPartner = Eui(7)])
                      /\ (tcKnown = 1 => "TcAddress" \in Violated([Run EXCEPT !.st.eui = Eui(7), !.r.ieee = Eui(7), !.r.tcPartner = Eui(7)]))
LateCountersCaught == CanCounters(ver) => "OrderOk" \in Violated([Run EXCEPT !.order = Append(SelectSeq(Order, LAMBDA x : x # "setValue:VALUE_NWK_FRAME_COUNTER"), "setValue:VALUE_NWK_FRAME_COUNTER")])
=============================================================================
