---------------------------- MODULE Trace_NetStart ----------------------------
(* X04 binding: the real ControllerApplication.connect() / start_network() /    *)
(* disconnect() against the persistent simulated NCP.  Events: every command     *)
(* reaching the NCP with the class of the NCP's answer, the NETWORK_UP event,    *)
(* gateway resets, the registration of the application callback, the running     *)
(* mark, the end of start_network() with its outcome, disconnect / connected.    *)
EXTENDS NetStart, Json, IOUtils, TLCExt, TLC
Traces == JsonDeserialize(IOEnv.TRACE_FILE)
VARIABLES s, tid, l
tvars == <<s, tid, l>>
Tr == Traces[tid]
C == Tr[1]
TInit == tid \in 1 .. Len(Traces) /\ l = 2 /\ Traces[tid][1].a = "cfg" /\ s = NS0
TNext == /\ l <= Len(Tr)
         /\ s' \in Steps(C, s, Tr[l])
         /\ l' = l + 1 /\ UNCHANGED tid
TSpec == TInit /\ [][TNext]_tvars
Up == RunningImpliesUp(C, s)
LateUp == LateImpliesUp(s)
OnceOnly == Once(s)
TokReset == TokenThenReset(s)
Clean == FailedClean(s)
Progress == TLCSet(1, [TLCGet(1) EXCEPT ![tid] = IF @ < l THEN l ELSE @])
Post == /\ PrintT(<<"BVPROGRESS", TLCGet(1)>>)
        /\ \A i \in 1 .. Len(Traces) : TLCGet(1)[i] = Len(Traces[i]) + 1
ASSUME TLCSet(1, [i \in 1 .. Len(Traces) |-> 0])
=============================================================================
