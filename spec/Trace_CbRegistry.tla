--------------------------- MODULE Trace_CbRegistry ---------------------------
(* binding: the real EZSP.add_callback / remove_callback / handle_callback in     *)
(* every short order of registrations, removals and frames.                        *)
EXTENDS CbRegistry, Sequences, Json, IOUtils, TLCExt, TLC
Traces == JsonDeserialize(IOEnv.TRACE_FILE)
VARIABLES live, tid, l
tvars == <<live, tid, l>>
Tr == Traces[tid]
TInit == tid \in 1 .. Len(Traces) /\ l = 1 /\ live = [h \in {} |-> 0]
ToSet(q) == {q[i] : i \in 1 .. Len(q)}
TNext ==
  /\ l <= Len(Tr)
  /\ LET e == Tr[l] IN
       \/ e.a = "add" /\ e.raised = 0 /\ AddOk(live, e.h, e.id) /\ live' = AddFn(live, e.h, e.id)
       \/ e.a = "remove" /\ e.raised = 0 /\ e.h \in DOMAIN live /\ live' = RemoveFn(live, e.h)
       \* every registration in force hears the frame exactly once, nobody else does
       \/ e.a = "fire" /\ e.raised = 0 /\ ToSet(e.heard) = Heard(live) /\ Len(e.heard) = Cardinality(Heard(live)) /\ UNCHANGED live
       \/ e.a = "end" /\ e.left = Cardinality(DOMAIN live) /\ UNCHANGED live
  /\ l' = l + 1 /\ UNCHANGED tid
TSpec == TInit /\ [][TNext]_tvars
Progress == TLCSet(1, [TLCGet(1) EXCEPT ![tid] = IF @ < l THEN l ELSE @])
Post == /\ PrintT(<<"BVPROGRESS", TLCGet(1)>>)
        /\ \A i \in 1 .. Len(Traces) : TLCGet(1)[i] = Len(Traces[i]) + 1
ASSUME TLCSet(1, [i \in 1 .. Len(Traces) |-> 0])
=============================================================================
