-------------------------- MODULE Trace_ThreadProxy -------------------------
(* C20 binding with REAL threads.  Each thread writes its own log with a      *)
(* per-thread sequence (never wall-clock across threads); the trace spec has  *)
(* one cursor per log and TLC searches for an interleaving of the two logs    *)
(* that the specification allows - rejection means none exists.               *)
(*   caller log: invoke(i, kind, src, closed), returned(i, ret), final(i, ret) *)
(*   owner  log: exec(i, onOwnerThread)                                       *)
EXTENDS ThreadProxy, Json, IOUtils, TLCExt, TLC
Traces == JsonDeserialize(IOEnv.TRACE_FILE)
VARIABLES c, tid, lc, lo, last
tvars == <<c, tid, lc, lo, last>>
CL == Traces[tid].caller
OL == Traces[tid].owner
TInit == tid \in 1 .. Len(Traces) /\ lc = 1 /\ lo = 1 /\ c = <<>> /\ last = 0
Has(i) == i \in DOMAIN c
Put(i, v) == [x \in (DOMAIN c) \cup {i} |-> IF x = i THEN v ELSE c[x]]
CallerStep ==
  /\ lc <= Len(CL)
  /\ LET e == CL[lc] IN
       \/ /\ e.a = "invoke" /\ ~Has(e.i)
          /\ LET r == InvokeResult(e.kind, e.src, IF e.closed = 1 THEN "closed" ELSE "running") IN
               /\ e.ret = r.ret                                         \* what the call returned to its caller at once
               /\ (e.src = "owner" => e.execthread = "owner")           \* direct call on the owner's loop
               /\ c' = Put(e.i, [kind |-> e.kind, src |-> e.src, st |-> r.st, execs |-> IF r.st = "executed" THEN 1 ELSE 0, rep |-> "none"])
       \/ /\ e.a = "final" /\ Has(e.i)                                   \* a coroutine caller got its result
          /\ IsCoro(c[e.i].kind) /\ c[e.i].st = "executed"              \* only after the body ran on the owner
          /\ \/ e.ret = Relayed(c[e.i].kind) /\ e.val = e.i              \* exactly this call's value / exception
             \/ e.ret = "cancelled" /\ e.stopped = 1                      \* or, if the owner's loop was force-stopped meanwhile, its cancellation
          /\ UNCHANGED c
       \/ /\ e.a = "end"
          /\ \A i \in DOMAIN c : /\ c[i].execs <= 1
                                 /\ (c[i].st = "dropped" => c[i].execs = 0)
                                 /\ (c[i].st = "refused" => c[i].execs = 0)
                                 /\ c[i].st # "queued"        \* the owner's loop kept running: every queued call was executed
                                 \* "must return nothing": a queued plain call that handed back a value was reported as a TypeError
                                 /\ ((c[i].st = "executed" /\ c[i].src = "other" /\ ~IsCoro(c[i].kind)) => c[i].rep = Reported(c[i].kind))
          /\ e.blocked = 0
          /\ UNCHANGED c
  /\ lc' = lc + 1 /\ UNCHANGED <<lo, tid, last>>
OwnerStep ==
  /\ lo <= Len(OL)
  /\ LET e == OL[lo] IN
       \/ /\ e.a = "exec" /\ Has(e.i)                                      \* only a call that was invoked
          /\ e.thread = "owner"                                            \* on the owner's thread, never the caller's
          /\ \/ (c[e.i].st = "queued" /\ c' = [c EXCEPT ![e.i].st = "executed", ![e.i].execs = 1])
             \/ (c[e.i].st = "executed" /\ c[e.i].src = "owner" /\ c[e.i].execs = 1 /\ UNCHANGED c)   \* direct call, logged on the owner
          /\ last' = e.i
       \* the owner's loop reports an error for the callback it just ran: the queued plain call executed last
       \/ /\ e.a = "report" /\ last # 0 /\ c[last].src = "other" /\ ~IsCoro(c[last].kind) /\ c[last].rep = "none"
          /\ e.what = Reported(c[last].kind) /\ e.what # "none"
          /\ c' = [c EXCEPT ![last].rep = e.what] /\ UNCHANGED last
  /\ lo' = lo + 1 /\ UNCHANGED <<lc, tid>>
TNext == CallerStep \/ OwnerStep
TSpec == TInit /\ [][TNext]_tvars
Progress == TLCSet(1, [TLCGet(1) EXCEPT ![tid] = IF @ < lc + lo - 1 THEN lc + lo - 1 ELSE @])
Post == /\ PrintT(<<"BVPROGRESS", TLCGet(1)>>)
        /\ \A i \in 1 .. Len(Traces) : TLCGet(1)[i] = Len(Traces[i].caller) + Len(Traces[i].owner) + 1
ASSUME TLCSet(1, [i \in 1 .. Len(Traces) |-> 0])
=============================================================================
