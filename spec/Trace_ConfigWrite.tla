-------------------------- MODULE Trace_ConfigWrite -------------------------
(* C16 binding: each event is one recorded execution of the real             *)
(* EZSP.write_config against the simulated NCP; TLC evaluates the contract.  *)
EXTENDS ConfigWrite, Json, IOUtils, TLCExt, TLC
Traces == JsonDeserialize(IOEnv.TRACE_FILE)
VARIABLES tid, l, bad
tvars == <<tid, l, bad>>
Tr == Traces[tid]
ToSet(s) == {s[i] : i \in 1 .. Len(s)}
TInit == tid \in 1 .. Len(Traces) /\ l = 1 /\ bad = {}
TNext == /\ l <= Len(Tr)
         /\ LET e == Tr[l]
                r == [defaults |-> e.defaults, cur |-> e.cur, ovr |-> e.ovr, disabled |-> ToSet(e.disabled),
                      sets |-> e.sets, returned |-> e.returned]
            IN bad' = Violated(r)
         /\ l' = l + 1 /\ UNCHANGED tid
TSpec == TInit /\ [][TNext]_tvars
AtMostOnceOk == "AtMostOnce" \notin bad
OverrideExactOk == "OverrideExact" \notin bad
DisabledSilentOk == "DisabledSilent" \notin bad
NeverShrinkOk == "NeverShrink" \notin bad
BufferLastOk == "BufferLast" \notin bad
CompleteOk == "Complete" \notin bad
OnlyKnownOk == "OnlyKnown" \notin bad
Progress == TLCSet(1, [TLCGet(1) EXCEPT ![tid] = IF @ < l THEN l ELSE @])
Post == /\ PrintT(<<"BVPROGRESS", TLCGet(1)>>)
        /\ \A i \in 1 .. Len(Traces) : TLCGet(1)[i] = Len(Traces[i]) + 1
ASSUME TLCSet(1, [i \in 1 .. Len(Traces) |-> 0])
=============================================================================
