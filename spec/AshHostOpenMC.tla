--------------------------- MODULE AshHostOpenMC ----------------------------
(* C04 - the host receiver against an OPEN peer: any well-formed frame may   *)
(* arrive in any state.  The receiver clauses are checked as state           *)
(* invariants quantified over the whole alphabet, and the observer used for  *)
(* trace validation is checked against the model on every transition.        *)
EXTENDS AshHost, TLC

CONSTANTS Codes,       \* reset / error codes in the alphabet
          AckNums      \* acknowledgement numbers in the alphabet

DataFrames == {Data(a, r, k, 100 + a * 2 + r) : a \in 0 .. 7, r \in 0 .. 1, k \in AckNums}
Alphabet == DataFrames
            \cup {Ack(k) : k \in AckNums} \cup {Nak(k) : k \in AckNums}
            \cup {[type |-> "RST"]}
            \cup {[type |-> ty, ver |-> 2, code |-> c] : ty \in {"RSTACK", "ERROR"}, c \in Codes}

VARIABLES h, o4
vars == <<h, o4>>

Init == h = HInit /\ o4 = Obs4Init
Recv(f) == LET r == StepRecv(h, <<f>>) IN h' = r.h /\ o4' = Obs4Step(o4, <<f>>, r.out)
Recv2(f, g) == LET r == StepRecv(h, <<f, g>>) IN h' = r.h /\ o4' = Obs4Step(o4, <<f, g>>, r.out)
Next == \/ \E f \in Alphabet : Recv(f)
        \/ \E f \in Alphabet, g \in Alphabet : Recv2(f, g)
Spec == Init /\ [][Next]_vars

Ups(out) == SelectSeq(out, LAMBDA o : o.o \in {"up_data", "up_reset"})
Writes(out) == SelectSeq(out, LAMBDA o : o.o = "write")

(* a DATA frame is handed up iff it carries the next expected number; exactly one ACK/NAK *)
(* with the next expected number answers it, an ACK if it was accepted                      *)
DataRule == \A f \in DataFrames : LET r == RecvFn(h, f) IN
    /\ (Ups(r.out) = <<UpData(f.pl)>>) <=> (f.frm = h.rx)
    /\ (f.frm # h.rx) => Ups(r.out) = <<>>
    /\ r.h.rx = IF f.frm = h.rx THEN (h.rx + 1) % 8 ELSE h.rx
    /\ Len(Writes(r.out)) = 1
    /\ Writes(r.out)[1].f.type \in {"ACK", "NAK", "ACKorNAK"}
    /\ Writes(r.out)[1].f.ack = r.h.rx
    /\ (f.frm = h.rx) => Writes(r.out)[1].f.type = "ACK"
RstackRule == \A c \in Codes : LET r == RecvFn(h, [type |-> "RSTACK", ver |-> 2, code |-> c]) IN
    r.h.rx = 0 /\ r.h.tx = 0 /\ Ups(r.out) = <<UpReset(c)>> /\ Writes(r.out) = <<>>
ErrorRule == \A c \in Codes : LET r == RecvFn(h, [type |-> "ERROR", ver |-> 2, code |-> c]) IN
    Ups(r.out) = <<UpReset(c)>> /\ r.h.rx = h.rx
QuietRule == \A f \in Alphabet : f.type \in {"ACK", "NAK", "RST"} =>
    LET r == RecvFn(h, f) IN Ups(r.out) = <<>> /\ r.h.rx = h.rx /\ Writes(r.out) = <<>>
ObserverAgrees == o4.bad = {} /\ o4.exp = h.rx
=============================================================================
