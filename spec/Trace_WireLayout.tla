-------------------------- MODULE Trace_WireLayout --------------------------
(* binding: each event is one structure built by the host's type from        *)
(* distinct per-field byte strings (e.enc = what the host's serialiser        *)
(* emitted) and the same structure decoded by the host's type from the       *)
(* pinned encoding (e.dec = per-field bytes of what it decoded).              *)
EXTENDS WireLayout, Json, IOUtils, TLCExt, TLC
Traces == JsonDeserialize(IOEnv.TRACE_FILE)
VARIABLES tid, l
tvars == <<tid, l>>
Tr == Traces[tid]
TInit == tid \in 1 .. Len(Traces) /\ l = 1
TNext == /\ l <= Len(Tr)
         /\ LET e == Tr[l] IN
              /\ Known(e.name) /\ e.raised = ""
              /\ WidthsOk(e.name, e.vals)
              /\ e.enc = Encode(e.name, e.vals)           \* the host encodes in the reference layout
              /\ e.dec = e.vals                           \* and decodes the reference layout to the same field values
              /\ e.rest = 0                               \* nothing left over
         /\ l' = l + 1 /\ UNCHANGED tid
TSpec == TInit /\ [][TNext]_tvars
Progress == TLCSet(1, [TLCGet(1) EXCEPT ![tid] = IF @ < l THEN l ELSE @])
Post == /\ PrintT(<<"BVPROGRESS", TLCGet(1)>>)
        /\ \A i \in 1 .. Len(Traces) : TLCGet(1)[i] = Len(Traces[i]) + 1
ASSUME TLCSet(1, [i \in 1 .. Len(Traces) |-> 0])
=============================================================================
