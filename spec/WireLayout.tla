----------------------------- MODULE WireLayout -----------------------------
(***************************************************************************)
(* Wire layouts of the EZSP structures that the restore / read-back, send  *)
(* and multicast procedures exchange with the NCP, pinned from the EZSP    *)
(* reference (field order and width in bytes, little-endian scalars).  A   *)
(* conforming NCP lays these structures out exactly so; the host's types   *)
(* must encode and decode them accordingly - a layout that is merely       *)
(* self-consistent (encoder and decoder changed together) is not enough.   *)
(***************************************************************************)
EXTENDS Naturals, Sequences, SequencesExt

F(n, w) == [n |-> n, w |-> w]
Layouts ==
  [ EmberNetworkParameters |-> <<F("extendedPanId", 8), F("panId", 2), F("radioTxPower", 1), F("radioChannel", 1), F("joinMethod", 1),
                                 F("nwkManagerId", 2), F("nwkUpdateId", 1), F("channels", 4)>>,
    EmberInitialSecurityState |-> <<F("bitmask", 2), F("preconfiguredKey", 16), F("networkKey", 16), F("networkKeySequenceNumber", 1),
                                    F("preconfiguredTrustCenterEui64", 8)>>,
    EmberCurrentSecurityState |-> <<F("bitmask", 2), F("trustCenterLongAddress", 8)>>,
    EmberKeyStruct |-> <<F("bitmask", 2), F("type", 1), F("key", 16), F("outgoingFrameCounter", 4), F("incomingFrameCounter", 4),
                         F("sequenceNumber", 1), F("partnerEUI64", 8)>>,
    SecurityManagerContextV13 |-> <<F("core_key_type", 1), F("key_index", 1), F("derived_type", 2), F("eui64", 8), F("multi_network_index", 1),
                                    F("flags", 1), F("psa_key_alg_permission", 4)>>,
    SecurityManagerNetworkKeyInfo |-> <<F("network_key_set", 1), F("alternate_network_key_set", 1), F("network_key_sequence_number", 1),
                                        F("alt_network_key_sequence_number", 1), F("network_key_frame_counter", 4)>>,
    SecurityManagerAPSKeyMetadata |-> <<F("bitmask", 2), F("outgoing_frame_counter", 4), F("incoming_frame_counter", 4), F("ttl_in_seconds", 2)>>,
    EmberMulticastTableEntry |-> <<F("multicastId", 2), F("endpoint", 1), F("networkIndex", 1)>>,
    EmberApsFrame |-> <<F("profileId", 2), F("clusterId", 2), F("sourceEndpoint", 1), F("destinationEndpoint", 1), F("options", 2),
                        F("groupId", 2), F("sequence", 1)>>,
    EmberChildDataV7 |-> <<F("eui64", 8), F("type", 1), F("id", 2), F("phy", 1), F("power", 1), F("timeout", 1)>> ]

Known(name) == name \in DOMAIN Layouts
(* the bytes of a structure whose field `n` holds the byte string vals[n] *)
Encode(name, vals) == FoldLeft(LAMBDA acc, f : acc \o vals[f.n], <<>>, Layouts[name])
WidthsOk(name, vals) == \A i \in 1 .. Len(Layouts[name]) : Len(vals[Layouts[name][i].n]) = Layouts[name][i].w
=============================================================================
