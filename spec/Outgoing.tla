------------------------------- MODULE Outgoing -------------------------------
(***************************************************************************)
(* Extension X06 (beyond the listed properties): what the NCP is asked to  *)
(* transmit for a packet handed to ControllerApplication.send_packet - the *)
(* counterpart of Incoming.tla (C13).                                      *)
(*   packet p: mode ("nwk" | "group" | "bcast"), dst, srcEp, dstEp (-1:    *)
(*             none), profile, cluster, tsn, radius, nonMember, data,      *)
(*             sr (source-route relays or <<>>), srGiven, ext              *)
(*   config  : srcRouting (source routing enabled)                         *)
(* One send command of the kind the destination calls for carries the APS  *)
(* frame built from the packet; a unicast with a source route is preceded  *)
(* by setSourceRoute for the same destination with the same relays.        *)
(* Pinned from the EmberZNet reference: APS options RETRY 0x0040,          *)
(* ENABLE_ROUTE_DISCOVERY 0x0100, ENABLE_ADDRESS_DISCOVERY 0x1000;         *)
(* outgoing type DIRECT = 0; multicasts of version 14 go to the            *)
(* RX-on-when-idle broadcast address 0xFFFD without alias.                 *)
(***************************************************************************)
EXTENDS Integers, Sequences, TLC

OptRetry == 64
OptRouteDisc == 256
OptAddrDisc == 4096
Options(srcRouting) == OptRetry + (IF srcRouting THEN OptAddrDisc ELSE OptRouteDisc)

Aps(p, srcRouting) ==
    [profile |-> p.profile, cluster |-> p.cluster, srcEp |-> p.srcEp, dstEp |-> IF p.dstEp < 0 THEN 0 ELSE p.dstEp,
     options |-> Options(srcRouting), group |-> IF p.mode = "group" THEN p.dst ELSE 0, seq |-> p.tsn]

SendCmd(p) == CASE p.mode = "nwk" -> "sendUnicast" [] p.mode = "group" -> "sendMulticast" [] OTHER -> "sendBroadcast"

(* the send command as the NCP must see it; v14: the argument shapes of version 14 *)
ExpectedSend(p, srcRouting, v14, tag) ==
    LET base == [cmd |-> SendCmd(p), aps |-> Aps(p, srcRouting), tag |-> tag, data |-> p.data] IN
    CASE p.mode = "nwk"   -> base @@ [type |-> 0, dst |-> p.dst]
      [] p.mode = "group" -> IF v14 THEN base @@ [hops |-> p.radius, bcastAddr |-> 65533, alias |-> 0, seq |-> p.tsn]
                                    ELSE base @@ [hops |-> p.radius, nonMember |-> p.nonMember]
      [] OTHER            -> IF v14 THEN base @@ [dst |-> p.dst, radius |-> p.radius, alias |-> 0, seq |-> p.tsn]
                                    ELSE base @@ [dst |-> p.dst, radius |-> p.radius]
ExpectedRoute(p) == [cmd |-> "setSourceRoute", dst |-> p.dst, relays |-> p.sr]
(* the commands of one request, set-up first *)
(* routeCmd: the protocol version still has a working setSourceRoute (versions 4..8); from version 9 on the code issues nothing - the   *)
(* route supplied with the packet is not used (named deviation: the NCP keeps its own route table as a concentrator)                  *)
ExpectedCmds(p, srcRouting, v14, routeCmd, tag) ==
    (IF p.mode = "nwk" /\ p.srGiven /\ routeCmd THEN <<ExpectedRoute(p)>> ELSE <<>>) \o <<ExpectedSend(p, srcRouting, v14, tag)>>
=============================================================================
