---------------------------- MODULE Trace_Stack -----------------------------
(* Code -> spec binding for the composed host stack (Stack.tla): runs of the   *)
(* real bellows.ezsp.EZSP over the real uart.connect / Gateway / AshProtocol   *)
(* on a fake serial transport.  The peer (simulated ASH + EZSP NCP) and the    *)
(* line are the harness; every read from the port is an input of the trace,    *)
(* every byte written (decoded by the harness's own ASH and EZSP header        *)
(* decoders), every command outcome, every callback and every controller-      *)
(* reset request is an observed output that the composed model must produce.   *)
(* Property clauses evaluated on every state of an accepted run:               *)
(*   SilentAfterRequest   no DATA frame is written once the application was    *)
(*                        asked to reset the controller (C10)                  *)
(*   StoppedAfterRequest  EZSP is stopped from then on until restarted         *)
EXTENDS Stack, Json, IOUtils, TLCExt, TLC, Integers
CONSTANTS TMin, TMax
(* recorded instants are rounded to whole milliseconds: an interval of exactly TMin / TMax may read 1 ms off *)
InWindow(dt) == dt \in (TMin - 1) .. (TMax + 1)

Traces == JsonDeserialize(IOEnv.TRACE_FILE)
VARIABLES s, tw, bad, tid, l
tvars == <<s, tw, bad, tid, l>>
Tr == Traces[tid]
TInit == tid \in 1 .. Len(Traces) /\ l = 1 /\ s = SInit /\ tw = 0 /\ bad = {}

Proj(o, K) == SelectSeq(o, LAMBDA x : x.o \in K)
(* an outcome the model calls a link failure is seen by the caller as the link layer's exception: *)
(* NcpFailure / NotAcked ("linkfail") or the ACK-timeout's TimeoutError ("timeout")               *)
ResMatch(a, m) == a = m \/ (m = "linkfail" /\ a \in {"linkfail", "timeout"})
SameOut(a, b) ==
    /\ LET wa == Proj(a, {"write"}) wb == Proj(b, {"write"}) IN
         Len(wa) = Len(wb) /\ \A i \in 1 .. Len(wa) : MatchFrame(wa[i].f, wb[i].f)
    /\ Len(Proj(a, {"rst"})) = Len(Proj(b, {"rst"}))
    /\ LET ca == Proj(a, {"cdone"}) cb == Proj(b, {"cdone"}) IN
         Len(ca) = Len(cb) /\ \A i \in 1 .. Len(ca) :
             ca[i].c = cb[i].c /\ ResMatch(ca[i].res, cb[i].res) /\ (cb[i].res = "ok" => ca[i].val = cb[i].val)
    /\ LET va == Proj(a, {"vdone"}) vb == Proj(b, {"vdone"}) IN
         Len(va) = Len(vb) /\ \A i \in 1 .. Len(va) :
             va[i].c = vb[i].c /\ ResMatch(va[i].res, vb[i].res) /\ (vb[i].res = "ok" => va[i].val = vb[i].val)
    /\ LET xa == Proj(a, {"cb"}) xb == Proj(b, {"cb"}) IN
         Len(xa) = Len(xb) /\ \A i \in 1 .. Len(xa) : xa[i].cmd = xb[i].cmd /\ xa[i].val = xb[i].val
    /\ Len(Proj(a, {"request"})) = Len(Proj(b, {"request"}))
    /\ LET ea == Proj(a, {"edone"}) eb == Proj(b, {"edone"}) IN
         Len(ea) = Len(eb) /\ \A i \in 1 .. Len(ea) :
             ea[i].k = eb[i].k /\ (ea[i].res = eb[i].res \/ (eb[i].res = "timeout*" /\ ea[i].res \in {"timeout", "cancelled"}))
    /\ Proj(a, {"raised"}) = <<>>
HasData(o) == \E i \in 1 .. Len(o) : o[i].o = "write" /\ o[i].f.type = "DATA"
Apply(e, r) ==
    /\ SameOut(e.out, r.out)
    /\ s' = [r.s EXCEPT !.lat = CodeLat]
    /\ tw' = IF HasData(e.out) THEN e.t ELSE tw
    /\ bad' = bad \cup (IF s.req > 0 /\ HasData(e.out) THEN {"SilentAfterRequest"} ELSE {})
                  \cup (IF r.s.req > 0 /\ r.s.req > s.req /\ r.s.run THEN {"StoppedAfterRequest"} ELSE {})
Quiet(e, s1) == e.out = <<>> /\ s' = s1 /\ UNCHANGED <<tw, bad>>

TNext ==
  /\ l <= Len(Tr)
  /\ LET e == Tr[l] IN
       \/ e.a = "register" /\ Quiet(e, SRegister(s))
       \/ e.a = "start" /\ Quiet(e, SStart(s))
       \/ e.a = "switch" /\ Quiet(e, SNative(s, e.ver))
       \/ e.a = "reset" /\ Apply(e, SReset(s, e.k, e.t))
       \/ e.a = "version" /\ Apply(e, SVersion(s, e.c, e.t))
       \/ e.a = "call" /\ Apply(e, SCall(s, e.c, e.cmd, e.t))
       \/ e.a = "cancel" /\ Apply(e, SCancel(s, e.c, e.t))
       \/ e.a = "recv" /\ \E x \in Lats : Apply(e, SRecv([s EXCEPT !.lat = x], e.fs, e.t))
       \/ e.a = "lost" /\ Apply(e, SLost(s, e.t))
       \/ e.a = "close" /\ Apply(e, SClose(s, e.t))
       \/ e.a = "timer" /\ TimeoutEnabled(s.p) /\ e.t = s.p.hold.t0 + CmdTimeout /\ Apply(e, SCmdTimeout(s, e.t))
       \/ e.a = "timer" /\ ResetTimeoutEnabled(s.g) /\ e.t = s.g.rt + ResetTimeout /\ Apply(e, SResetTimeout(s, e.t))
       \/ e.a = "timer" /\ TimerEnabled(s.g.h) /\ InWindow(e.t - tw) /\ Apply(e, STick(s, e.t))
       \* a timer of the loop fired and nothing observable happened while no timeout of the model is due: stuttering
       \/ e.a = "timer" /\ e.out = <<>> /\ ~(TimeoutEnabled(s.p) /\ e.t >= s.p.hold.t0 + CmdTimeout)
                         /\ ~(ResetTimeoutEnabled(s.g) /\ e.t >= s.g.rt + ResetTimeout)
                         /\ (~TimerEnabled(s.g.h) \/ e.t - tw < TMax) /\ UNCHANGED <<s, tw, bad>>
       \/ e.a = "end" /\ e.pending = <<>> /\ s.p.hold.c = 0 /\ s.p.wq = <<>> /\ e.out = <<>> /\ UNCHANGED <<s, tw, bad>>
  /\ l' = l + 1 /\ UNCHANGED tid
TSpec == TInit /\ [][TNext]_tvars

SilentAfterRequest == "SilentAfterRequest" \notin bad
StoppedAfterRequest == "StoppedAfterRequest" \notin bad

Progress == TLCSet(1, [TLCGet(1) EXCEPT ![tid] = IF @ < l THEN l ELSE @])
Post == /\ PrintT(<<"BVPROGRESS", TLCGet(1)>>)
        /\ \A i \in 1 .. Len(Traces) : TLCGet(1)[i] = Len(Traces[i]) + 1
ASSUME TLCSet(1, [i \in 1 .. Len(Traces) |-> 0])
=============================================================================
