---------------------------- MODULE StatusMapMC -----------------------------
(* The relation is total (some result is allowed for every input) and allows *)
(* OK exactly for the family's success code; the 8-bit families are the      *)
(* whole state space.                                                        *)
EXTENDS StatusMap, TLC
CONSTANT UnifiedSamples
VARIABLES fam, code
Init == \/ fam \in {"ember", "ezsp"} /\ code \in 0 .. 255
        \/ fam = "unified" /\ code \in UnifiedSamples
Next == UNCHANGED <<fam, code>>
Spec == Init /\ [][Next]_<<fam, code>>
Candidates == {SL_OK, 1, SL_NETWORK_UP, SL_NETWORK_DOWN, SL_NOT_JOINED, SL_ALLOCATION_FAILED, SL_INVALID_INDEX, SL_NOT_FOUND,
               SL_TRANSMIT_BUSY, SL_ZIGBEE_DELIVERY_FAILED, SL_ZIGBEE_MAX_MESSAGE_LIMIT} \cup UnifiedSamples
Total == \E r \in Candidates : Ok(fam, code, r)
OkOnlyForSuccess == Ok(fam, code, SL_OK) <=> code = 0
PassThrough == fam = "unified" => \A r \in Candidates : Ok(fam, code, r) <=> r = code
=============================================================================
