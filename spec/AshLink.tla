------------------------------ MODULE AshLink -------------------------------
(***************************************************************************)
(* C01 - host (AshHost, as bellows implements it) || faulty FIFO serial    *)
(* line || specification-conforming NCP (AshNcp).                          *)
(* The line keeps two FIFO queues of frames; the head of either queue can  *)
(* be delivered, dropped, corrupted (delivered as GARBAGE), or duplicated  *)
(* (delivered with a copy kept); "stall" is the sender's timer firing      *)
(* while its frame still sits in the queue.  A duplicated frame's copy may *)
(* also be stalled on its own ("hold"): it reaches the receiver after up   *)
(* to HoldSpan later frames of that direction (a longer delay would        *)
(* outlive the 3-bit frame numbers - no ARQ protocol with a modulus of 8   *)
(* survives that).  Faults are budgeted.                                   *)
(* Host steps are fine-grained (receive, ACK timer, task resume, next      *)
(* waiter) so that everything the event loop can interleave is explored.   *)
(***************************************************************************)
EXTENDS AshNcp, TLC

CONSTANTS HPayloads,      \* number of host sends (ids 1..HPayloads)
          NPayloads,      \* number of NCP payloads (tokens 101..100+NPayloads)
          MaxFaults,      \* line-fault budget
          Cap,            \* line capacity per direction
          StartPairs,     \* initial counters, encoded hostTx * 8 + ncpTx (hostTx = ncpRx, ncpTx = hostRx)
          MaxCancel,      \* number of caller cancellations explored
          MaxHolds,       \* stalled duplicate copies explored (0: none)
          HoldSpan,       \* a stalled copy is overtaken by at most this many frames
          MaxWF           \* 1: the host's transport may raise out of a DATA write (counts as a line fault); 0: never

VARIABLES h, n, h2n, n2h, faults, hsub, nsub, hUp, nUp, res, canc, held
vars == <<h, n, h2n, n2h, faults, hsub, nsub, hUp, nUp, res, canc, held>>
(* held: the stalled copies, [toH |-> <<frame>> or <<>>, toN |-> ..., ageH, ageN (frames that overtook the copy), used] *)
NoHeld == [toH |-> <<>>, toN |-> <<>>, ageH |-> 0, ageN |-> 0, used |-> 0]

Init == /\ \E p \in StartPairs : \E b \in (IF MaxWF > 0 THEN BOOLEAN ELSE {FALSE}) :
              h = [HInitAt(p \div 8, p % 8) EXCEPT !.roll = b] /\ n = NInitAt(p % 8, p \div 8)
        /\ h2n = <<>> /\ n2h = <<>> /\ faults = 0
        /\ hsub = 0 /\ nsub = 0 /\ hUp = <<>> /\ nUp = <<>>
        /\ res = [i \in 1 .. HPayloads |-> "none"] /\ canc = {} /\ held = NoHeld

Writes(out) == SelectSeq(out, LAMBDA o : o.o = "write")
UpsData(out) == SelectSeq(out, LAMBDA o : o.o = "up_data")
Dones(out) == SelectSeq(out, LAMBDA o : o.o = "done")
Frames(out) == [i \in 1 .. Len(Writes(out)) |-> Writes(out)[i].f]
Pls(out) == [i \in 1 .. Len(UpsData(out)) |-> UpsData(out)[i].pl]
HasWild(fs) == \E i \in 1 .. Len(fs) : fs[i].type = "ACKorNAK"
Resolve(fs, ty) == [i \in 1 .. Len(fs) |-> IF fs[i].type = "ACKorNAK" THEN [fs[i] EXCEPT !.type = ty] ELSE fs[i]]

(* apply a host step result: frames go on the line (ACK-or-NAK latitude resolved either way) *)
HostTake(r) ==
    /\ h' = r.h
    /\ \E ty \in (IF HasWild(Frames(r.out)) THEN {"ACK", "NAK"} ELSE {"ACK"}) :
          h2n' = h2n \o Resolve(Frames(r.out), ty)
    /\ hUp' = hUp \o Pls(r.out)
    /\ res' = [i \in 1 .. HPayloads |->
                 IF \E k \in 1 .. Len(Dones(r.out)) : Dones(r.out)[k].id = i
                 THEN (CHOOSE d \in {Dones(r.out)[k] : k \in 1 .. Len(Dones(r.out))} : d.id = i).res
                 ELSE res[i]]
NcpTake(r) == /\ n' = r.h
              /\ n2h' = n2h \o Frames(r.out)
              /\ nUp' = nUp \o Pls(r.out)

HSubmit == /\ hsub < HPayloads /\ hsub' = hsub + 1
           /\ HostTake(SubmitFn(h, hsub + 1, hsub + 1))
           /\ UNCHANGED <<n, n2h, faults, nsub, nUp, canc, held>>
HTimer == /\ TimerEnabled(h) /\ HostTake(TimerFn(h))
          /\ UNCHANGED <<n, n2h, faults, hsub, nsub, nUp, canc, held>>
HResume == /\ ResumeEnabled(h) /\ HostTake(ResumeFn(h))
           /\ UNCHANGED <<n, n2h, faults, hsub, nsub, nUp, canc, held>>
HNext == /\ NextEnabled(h) /\ HostTake(NextFn(h))
         /\ UNCHANGED <<n, n2h, faults, hsub, nsub, nUp, canc, held>>
(* the serial transport will raise out of the host's next DATA write (transient serial error) *)
HArm == /\ MaxWF > 0 /\ ~h.wf /\ faults < MaxFaults /\ faults' = faults + 1
        /\ h' = ArmFn(h)
        /\ UNCHANGED <<n, h2n, n2h, hsub, nsub, hUp, nUp, res, canc, held>>
(* cancelling the caller of a send: the shielded task goes on, no link state changes *)
HCancel(i) == /\ i \in 1 .. hsub /\ res[i] = "none" /\ i \notin canc /\ Cardinality(canc) < MaxCancel
              /\ canc' = canc \cup {i}
              /\ UNCHANGED <<h, n, h2n, n2h, faults, hsub, nsub, hUp, nUp, res, held>>

NSubmit == /\ nsub < NPayloads /\ nsub' = nsub + 1
           /\ NcpTake(NSubmitFn(n, 101 + nsub))
           /\ UNCHANGED <<h, h2n, faults, hsub, hUp, res, canc, held>>
NTimer == /\ NTimerEnabled(n) /\ Len(n2h) + Len(n.win) <= Cap
          /\ NcpTake(NTimerFn(n))
          /\ UNCHANGED <<h, h2n, faults, hsub, nsub, hUp, res, canc, held>>

Garbage == [type |-> "GARBAGE"]
(* the head of n2h reaches the host *)
ToHost(fault) ==
    /\ n2h # <<>>
    /\ (held.toH # <<>> => held.ageH < HoldSpan)                 \* a stalled copy is not overtaken by more than HoldSpan frames
    /\ (fault = "hold" => held.toH = <<>> /\ held.used < MaxHolds)
    /\ fault # "deliver" => faults < MaxFaults
    /\ faults' = IF fault = "deliver" THEN faults ELSE faults + 1
    /\ LET f == Head(n2h) IN
         CASE fault = "drop"    -> /\ n2h' = Tail(n2h) /\ UNCHANGED <<h, h2n, hUp, res>>
           [] fault = "deliver" -> /\ n2h' = Tail(n2h) /\ HostTake(RecvFn(h, f))
           [] fault = "corrupt" -> /\ n2h' = Tail(n2h) /\ HostTake(RecvFn(h, Garbage))
           [] fault = "dup"     -> /\ UNCHANGED n2h /\ HostTake(RecvFn(h, f))
           [] fault = "hold"    -> /\ n2h' = Tail(n2h) /\ HostTake(RecvFn(h, f))
    /\ held' = IF fault = "hold" THEN [held EXCEPT !.toH = <<Head(n2h)>>, !.ageH = 0, !.used = @ + 1]
               ELSE IF held.toH # <<>> /\ fault # "dup" THEN [held EXCEPT !.ageH = @ + 1] ELSE held
    /\ UNCHANGED <<n, hsub, nsub, nUp, canc>>
(* the stalled copy reaches the host *)
ReleaseH == /\ held.toH # <<>> /\ HostTake(RecvFn(h, held.toH[1]))
            /\ held' = [held EXCEPT !.toH = <<>>, !.ageH = 0]
            /\ UNCHANGED <<n, n2h, faults, hsub, nsub, nUp, canc>>
ToNcp(fault) ==
    /\ h2n # <<>>
    /\ (held.toN # <<>> => held.ageN < HoldSpan)
    /\ (fault = "hold" => held.toN = <<>> /\ held.used < MaxHolds)
    /\ fault # "deliver" => faults < MaxFaults
    /\ faults' = IF fault = "deliver" THEN faults ELSE faults + 1
    /\ LET f == Head(h2n) IN
         CASE fault = "drop"    -> /\ h2n' = Tail(h2n) /\ UNCHANGED <<n, n2h, nUp>>
           [] fault = "deliver" -> /\ h2n' = Tail(h2n) /\ NcpTake(NRecvFn(n, f))
           [] fault = "corrupt" -> /\ h2n' = Tail(h2n) /\ NcpTake(NRecvFn(n, Garbage))
           [] fault = "dup"     -> /\ UNCHANGED h2n /\ NcpTake(NRecvFn(n, f))
           [] fault = "hold"    -> /\ h2n' = Tail(h2n) /\ NcpTake(NRecvFn(n, f))
    /\ held' = IF fault = "hold" THEN [held EXCEPT !.toN = <<Head(h2n)>>, !.ageN = 0, !.used = @ + 1]
               ELSE IF held.toN # <<>> /\ fault # "dup" THEN [held EXCEPT !.ageN = @ + 1] ELSE held
    /\ UNCHANGED <<h, hsub, nsub, hUp, res, canc>>
ReleaseN == /\ held.toN # <<>> /\ NcpTake(NRecvFn(n, held.toN[1]))
            /\ held' = [held EXCEPT !.toN = <<>>, !.ageN = 0]
            /\ UNCHANGED <<h, h2n, faults, hsub, nsub, hUp, res, canc>>

THDeliver == ToHost("deliver")
THDrop    == ToHost("drop")
THCorrupt == ToHost("corrupt")
THDup     == ToHost("dup")
TNDeliver == ToNcp("deliver")
TNDrop    == ToNcp("drop")
TNCorrupt == ToNcp("corrupt")
TNDup     == ToNcp("dup")
THHold    == ToHost("hold")
TNHold    == ToNcp("hold")
HCancelAny == \E i \in 1 .. HPayloads : HCancel(i)
Next == \/ HSubmit \/ HTimer \/ HResume \/ HNext \/ NSubmit \/ NTimer \/ HCancelAny \/ HArm
        \/ THDeliver \/ THDrop \/ THCorrupt \/ THDup \/ TNDeliver \/ TNDrop \/ TNCorrupt \/ TNDup
        \/ THHold \/ TNHold \/ ReleaseH \/ ReleaseN
Spec == Init /\ [][Next]_vars

LineBound == Len(h2n) <= Cap /\ Len(n2h) <= Cap

(* ---- the property ------------------------------------------------------ *)
StrictlyIncreasing(s) == \A i \in 1 .. Len(s) - 1 : s[i] < s[i + 1]
(* what each side hands up is an in-order, duplicate-free subsequence of what the other submitted *)
UpInOrderH2N == StrictlyIncreasing(nUp) /\ \A i \in 1 .. Len(nUp) : nUp[i] \in 1 .. hsub
UpInOrderN2H == StrictlyIncreasing(hUp) /\ \A i \in 1 .. Len(hUp) : hUp[i] \in 101 .. (100 + nsub)
(* a send that completed successfully has been handed to the NCP's upper layer exactly once *)
OkDeliveredOnce == \A i \in 1 .. HPayloads :
                      res[i] = "ok" => Cardinality({k \in 1 .. Len(nUp) : nUp[k] = i}) = 1
(* a send that reported failure has been delivered at most once *)
FailedAtMostOnce == \A i \in 1 .. HPayloads :
                      res[i] \notin {"none", "ok"} => Cardinality({k \in 1 .. Len(nUp) : nUp[k] = i}) <= 1
(* a frame the NCP considers acknowledged has been handed up by the host *)
AckedDelivered == \A p \in 101 .. (100 + nsub) :
                      (/\ \A k \in 1 .. Len(n.win) : n.win[k].pl # p
                       /\ \A k \in 1 .. Len(n.q) : n.q[k] # p) =>
                      \E k \in 1 .. Len(hUp) : hUp[k] = p
(* cancellation of a caller changes no link state *)
CancelIsInvisible == [][\A i \in 1 .. HPayloads : HCancel(i) => UNCHANGED <<h, n, h2n, n2h, hUp, nUp, held>>]_vars
=============================================================================
