-------------------------- MODULE Trace_StatusMap ---------------------------
(* C18 binding: every (family, code) of the enumerated domain is evaluated   *)
(* on the real sl_Status.from_ember_status; TLC judges each pair.            *)
EXTENDS StatusMap, Sequences, Json, IOUtils, TLCExt, TLC
Traces == JsonDeserialize(IOEnv.TRACE_FILE)
VARIABLES tid, l
tvars == <<tid, l>>
Tr == Traces[tid]
TInit == tid \in 1 .. Len(Traces) /\ l = 1
TNext == /\ l <= Len(Tr)
         /\ LET e == Tr[l] IN e.raised = 0 /\ Ok(e.fam, e.code, e.res) /\ e.typ = "unified"
         /\ l' = l + 1 /\ UNCHANGED tid
TSpec == TInit /\ [][TNext]_tvars
Progress == TLCSet(1, [TLCGet(1) EXCEPT ![tid] = IF @ < l THEN l ELSE @])
Post == /\ PrintT(<<"BVPROGRESS", TLCGet(1)>>)
        /\ \A i \in 1 .. Len(Traces) : TLCGet(1)[i] = Len(Traces[i]) + 1
ASSUME TLCSet(1, [i \in 1 .. Len(Traces) |-> 0])
=============================================================================
