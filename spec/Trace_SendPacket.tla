-------------------------- MODULE Trace_SendPacket --------------------------
(* C12 binding: concurrent send_packet calls on the real                      *)
(* ControllerApplication over the real EZSP against the simulated NCP.        *)
EXTENDS SendPacket, Json, IOUtils, TLCExt, TLC
Traces == JsonDeserialize(IOEnv.TRACE_FILE)
VARIABLES s, tid, l
tvars == <<s, tid, l>>
Tr == Traces[tid]
TInit == /\ tid \in 1 .. Len(Traces) /\ l = 2 /\ Traces[tid][1].a = "cfg"
         /\ s = SInitWith(Traces[tid][1].delays, Traces[tid][1].ctimeout)
TNext ==
  /\ l <= Len(Tr)
  /\ LET e == Tr[l] IN
       \/ e.a = "start" /\ s' = Start(s, e.r, e.kind, e.dst, e.t)
       \/ e.a = "setup" /\ SetupOk(s, e.x) /\ s' = Setup(s, e.x)
       \/ e.a = "enqueue" /\ EnqueueOk(s, e.r, e.x, e.tag, e.t) /\ s' = Enqueue(s, e.r, e.tag, e.ans, e.ta)     \* (retries are spaced from the answer's instant)
       \/ e.a = "confirm" /\ s' = Confirm(s, e.dst, e.tag, e.ok = 1, e.t)
       \/ e.a = "cancel" /\ s' = CancelReq(s, e.r)
       \/ e.a = "finish" /\ FinishOk(s, e.r, e.o, e.t) /\ s' = Finish(s, e.r)
       \/ e.a = "end" /\ AllFinished(s) /\ e.pending = 0 /\ e.unfinished = <<>> /\ UNCHANGED s
  /\ l' = l + 1 /\ UNCHANGED tid
TSpec == TInit /\ [][TNext]_tvars
Progress == TLCSet(1, [TLCGet(1) EXCEPT ![tid] = IF @ < l THEN l ELSE @])
Post == /\ PrintT(<<"BVPROGRESS", TLCGet(1)>>)
        /\ \A i \in 1 .. Len(Traces) : TLCGet(1)[i] = Len(Traces[i]) + 1
ASSUME TLCSet(1, [i \in 1 .. Len(Traces) |-> 0])
=============================================================================
