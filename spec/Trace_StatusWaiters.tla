------------------------- MODULE Trace_StatusWaiters -------------------------
(* C17 binding for concurrent waiters: tasks of the real EZSP each inside       *)
(* `with ezsp.wait_for_stack_status(S) as f: await f` (bounded by a timeout),   *)
(* status callbacks injected at frame level.  Per event: the waiters that       *)
(* finished and how ("got" / "timeout" / "cancelled"), and the number of        *)
(* unresolved registrations left in the registry.                               *)
EXTENDS StatusWaiters, Sequences, Json, IOUtils, TLCExt, TLC
Traces == JsonDeserialize(IOEnv.TRACE_FILE)
VARIABLES w, tid, l
tvars == <<w, tid, l>>
Tr == Traces[tid]
Ids == 1 .. Tr[1].n
TInit == tid \in 1 .. Len(Traces) /\ l = 2 /\ Traces[tid][1].a = "cfg" /\ w = W0(1 .. Traces[tid][1].n)
Fin(e, how) == {e.fin[k].i : k \in {k \in 1 .. Len(e.fin) : e.fin[k].how = how}}
AllFin(e) == {e.fin[k].i : k \in 1 .. Len(e.fin)}
Left(e) == {e.left[k] : k \in 1 .. Len(e.left)}
\* waiters that finished leave their block: remove them
Leave(w1, ids) == [i \in DOMAIN w1 |-> IF i \in ids THEN [st |-> "none", ph |-> "out"] ELSE w1[i]]
TNext ==
  /\ l <= Len(Tr)
  /\ LET e == Tr[l] IN
       \/ e.a = "enter" /\ w[e.i].ph = "out" /\ e.fin = <<>> /\ e.left = <<>> /\ w' = EnterFn(w, e.i, e.st) /\ e.reg = Registered(w')
       \* a status event: exactly the registered waiters of that status finish with "got"
       \* (a resolved waiter may stay inside its block: e.left are those that left it in this step)
       \/ e.a = "status" /\ Fin(e, "got") = Resolved(w, e.st) /\ AllFin(e) = Fin(e, "got") /\ Left(e) \subseteq AllFin(e)
                         /\ w' = Leave(StatusFnW(w, e.st), Left(e)) /\ e.reg = Registered(w')
       \/ e.a = "release" /\ w[e.i].ph = "got" /\ e.fin = <<>> /\ Left(e) = {e.i} /\ w' = ExitFn(w, e.i) /\ e.reg = Registered(w')
       \/ e.a = "cancel" /\ w[e.i].ph # "out" /\ AllFin(e) = {e.i} /\ Fin(e, "cancelled") = {e.i}
                         /\ w' = ExitFn(w, e.i) /\ e.reg = Registered(w')
       \* the waiter's own timeout: only waiters still unresolved can time out
       \/ e.a = "tick" /\ AllFin(e) = Fin(e, "timeout") /\ (\A i \in AllFin(e) : w[i].ph = "in")
                       /\ w' = Leave(w, AllFin(e)) /\ e.reg = Registered(w')
       \/ e.a = "end" /\ Inside(w) = 0 /\ e.listeners = 0 /\ e.pending = 0 /\ UNCHANGED w
  /\ l' = l + 1 /\ UNCHANGED tid
TSpec == TInit /\ [][TNext]_tvars
Progress == TLCSet(1, [TLCGet(1) EXCEPT ![tid] = IF @ < l THEN l ELSE @])
Post == /\ PrintT(<<"BVPROGRESS", TLCGet(1)>>)
        /\ \A i \in 1 .. Len(Traces) : TLCGet(1)[i] = Len(Traces[i]) + 1
ASSUME TLCSet(1, [i \in 1 .. Len(Traces) |-> 0])
=============================================================================
