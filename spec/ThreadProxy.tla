----------------------------- MODULE ThreadProxy ----------------------------
(***************************************************************************)
(* C20 - bellows.thread.ThreadsafeProxy: calls made from another event     *)
(* loop are executed on the wrapped object's own loop and thread.          *)
(*   owner : "running" | "closed"  state of the owner's loop               *)
(*   q     : calls handed to the owner's loop and not yet executed (FIFO)  *)
(*   c[i]  : [kind, src, st, execOn, ret]                                  *)
(*     kind : "coroVal" | "coroRaise" | "plainNone" | "plainVal" |         *)
(*            "plainRaise" | "notCallable"                                 *)
(*     src  : "owner" (called from the owner's loop) | "other"             *)
(*     st   : "new" | "queued" | "executed" | "dropped" | "refused"        *)
(*     ret  : what the caller got: "pending" | "none" | "val" | "exc" |    *)
(*            "typeerror"                                                  *)
(***************************************************************************)
EXTENDS Naturals, Sequences, FiniteSets

(* coroWait / coroSlow: coroutines that are still running when the owner's loop is force-stopped (the second one needs several *)
(* loop iterations of clean-up while being cancelled)                                                                       *)
(* plainZero / plainFalse / plainEmpty: plain methods returning 0 / False / an empty bytes object - values all the same              *)
Kinds == {"coroVal", "coroRaise", "plainNone", "plainVal", "plainRaise", "notCallable", "coroWait", "coroSlow",
          "plainZero", "plainFalse", "plainEmpty", "plainWraps", "shadowPlain", "shadowCoro", "coroForget"}
(* coroForget: a coroutine method whose caller never awaits what the call returned - the call was made, so it is executed all the same *)
(* shadowPlain: a plain function stored on the instance under the name of a coroutine method of the class; shadowCoro: the other way round - what counts is the attribute actually fetched *)        \* plainWraps: a plain function that wraps (functools.wraps) a coroutine function
PlainValued == {"plainVal", "plainZero", "plainFalse", "plainEmpty"}
IsCoro(k) == k \in {"coroVal", "coroRaise", "coroWait", "coroSlow", "shadowCoro", "coroForget"}

(* what the body produces when it runs *)
BodyOutcome(k) == CASE k \in {"coroVal", "coroWait", "coroSlow", "shadowCoro", "coroForget"} -> "val" [] k = "coroRaise" -> "exc" [] k = "plainNone" -> "none"
                    [] k \in PlainValued -> "val" [] k = "plainRaise" -> "exc" [] OTHER -> "none"

(* Invoke: the caller's side of proxy.method(...) up to the point where it returns to the caller *)
(* result: [st, execOn, ret, enq]                                                                *)
InvokeResult(kind, src, owner) ==
    IF kind = "notCallable" THEN [st |-> "refused", execOn |-> "nobody", ret |-> "typeerror", enq |-> FALSE]
    ELSE IF src = "owner"                                             \* same loop: plain direct call
    THEN [st |-> "executed", execOn |-> "owner", ret |-> (IF IsCoro(kind) THEN "pending" ELSE BodyOutcome(kind)), enq |-> FALSE]
    ELSE IF owner = "closed"                                          \* closed loop: dropped, returns nothing, never runs
    THEN [st |-> "dropped", execOn |-> "nobody", ret |-> "none", enq |-> FALSE]
    ELSE [st |-> "queued", execOn |-> "nobody", ret |-> (IF IsCoro(kind) THEN "pending" ELSE "none"), enq |-> TRUE]

(* what a coroutine caller finally receives once the owner has run the body *)
Relayed(kind) == BodyOutcome(kind)

(* a plain method called from another loop "must return nothing": nobody is there to take a value, so when the queued body hands  *)
(* one back - whatever the value, also 0, False or an empty object - the owner's loop reports a TypeError for that call; a plain   *)
(* body that raises is reported with its exception; nothing is reported otherwise                                                  *)
Reported(kind) == CASE kind \in PlainValued -> "typeerror" [] kind = "plainRaise" -> "exc" [] OTHER -> "none"
=============================================================================
