--------------------------- MODULE Trace_NetInfo ----------------------------
(* C14 binding: each event is one write_network_info + load_network_info run  *)
(* of the real application against the simulated NCP.                         *)
EXTENDS NetInfo, Json, IOUtils, TLCExt, TLC
Traces == JsonDeserialize(IOEnv.TRACE_FILE)
VARIABLES tid, l, bad
tvars == <<tid, l, bad>>
Tr == Traces[tid]
TInit == tid \in 1 .. Len(Traces) /\ l = 1 /\ bad = {}
TNext == /\ l <= Len(Tr) /\ bad' = Violated(Tr[l]) /\ l' = l + 1 /\ UNCHANGED tid
TSpec == TInit /\ [][TNext]_tvars
SecurityStateExactOk == "SecurityStateExact" \notin bad
StoreHoldsOk == "StoreHolds" \notin bad
RoundTripOk == "RoundTrip" \notin bad
OrderOkOk == "OrderOk" \notin bad
CompletedOk == "Completed" \notin bad
NodeAddressOk == "NodeAddress" \notin bad
TcAddressOk == "TcAddress" \notin bad
ReadMatchesStoreOk == "ReadMatchesStore" \notin bad
OverlapReadsOk == "OverlapReads" \notin bad
Progress == TLCSet(1, [TLCGet(1) EXCEPT ![tid] = IF @ < l THEN l ELSE @])
Post == /\ PrintT(<<"BVPROGRESS", TLCGet(1)>>)
        /\ \A i \in 1 .. Len(Traces) : TLCGet(1)[i] = Len(Traces[i]) + 1
ASSUME TLCSet(1, [i \in 1 .. Len(Traces) |-> 0])
=============================================================================
