---------------------------- MODULE EzspCodecMC -----------------------------
(* header layouts are mutually inverse and distinguishable for every version, *)
(* sequence number and frame ID in the stated ranges                          *)
EXTENDS EzspCodec, TLC
CONSTANT Ids
VARIABLES ver, seq, id
Init == ver \in 4 .. 16 /\ seq \in {0, 1, 127, 128, 255} /\ id \in Ids
Next == UNCHANGED <<ver, seq, id>>
Spec == Init /\ [][Next]_<<ver, seq, id>>
Applicable == Layout(ver) = "ext" \/ id < 256
RoundTrip == Applicable => \A fc \in {128, 144} :
                LET b == HdrRx(Layout(ver), seq, id, fc) IN ParseRx(Layout(ver), b) = <<seq, id, Len(b)>>
TxShape == Applicable => LET b == HdrTx(Layout(ver), seq, id) IN
              /\ b[1] = seq /\ b[2] = 0
              /\ Len(b) = (IF ver <= 4 THEN 3 ELSE 5)
              /\ ParseRx(Layout(ver), b) = <<seq, id, Len(b)>>
VersionClasses == /\ (ver = 4 <=> Layout(ver) = "legacy3")
                  /\ (ver \in 5 .. 7 <=> Layout(ver) = "legacy5")
                  /\ (ver >= 8 <=> Layout(ver) = "ext")
=============================================================================
