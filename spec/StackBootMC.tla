---------------------------- MODULE StackBootMC -----------------------------
(***************************************************************************)
(* Bring-up of the composed host stack (C09 seen through Stack.tla):       *)
(* EZSP.reset() -> EZSP.version() -> commands, against the conforming NCP  *)
(* of StackMC on a FAULT-FREE line.  With Boot = FALSE the NCP only ever   *)
(* announces a reset in answer to the host's RST.  With Boot = TRUE the    *)
(* NCP may in addition announce its own start-up reset (RSTACK with the    *)
(* software-reset code, as zigbeed does) once, at any moment while it has  *)
(* not yet read anything - the situation of a socket:// NCP that comes up  *)
(* late, or a serial NCP that boots while the host's RST waits unread.     *)
(*                                                                         *)
(*   NoTimeoutOnQuietLine  no command and no version() ends in a timeout   *)
(*                         (there are no line faults)                      *)
(*   FramesNumberedOnce    the NCP never reads two different first         *)
(*                         transmissions under the same frame number       *)
(*                         between two of its resets                       *)
(* Boot = FALSE : both hold (checked by C09).                              *)
(* Boot = TRUE  : TLC produces the known finding of C09 as a               *)
(* counter-example: the host takes the start-up RSTACK for the answer to   *)
(* its RST and sends DATA 0; the RSTACK answering the RST then zeroes the  *)
(* transmit number with frame 0 already used; the next command re-uses     *)
(* frame number 0, the NCP takes it for a duplicate, the host takes the    *)
(* NCP's answer for its acknowledgement, and the command times out.        *)
(***************************************************************************)
EXTENDS StackMC

CONSTANT Boot
VARIABLES stage, booted, vres, lastNum
bvars == <<vars, stage, booted, vres, lastNum>>

BootInit == /\ s = [SInit EXCEPT !.reg = FALSE]
            /\ n = NInit /\ h2n = <<>> /\ n2h = <<>> /\ faults = 0 /\ issued = 0
            /\ outc = [c \in 1 .. NCalls |-> None] /\ seqOf = [c \in 1 .. NCalls |-> 0 - 1]
            /\ order = <<>> /\ ncpRx = <<>> /\ ncbs = 0 /\ cbSeen = 0 /\ canc = {} /\ failed = "no"
            /\ badWrite = FALSE /\ badSync = FALSE
            /\ stage = "start" /\ booted = FALSE /\ vres = "none" /\ lastNum = <<>>

Keep == UNCHANGED <<stage, booted, vres, lastNum>>
TakeV(r, st0) ==
    LET ed == Sel(r.out, "edone")
        vd == Sel(r.out, "vdone")
    IN /\ HostTake(r)
       /\ vres' = (IF vd # <<>> THEN vd[1].res ELSE vres)
       /\ stage' = (IF ed # <<>> /\ st0 = "resetting" THEN (IF ed[1].res = "ok" THEN "reset" ELSE "failed")
                    ELSE IF vd # <<>> /\ st0 = "negotiating" THEN (IF vd[1].res = "ok" THEN "up" ELSE "failed")
                    ELSE st0)

(* timeouts are long compared with the line's latency: a timer only fires when nothing is in flight in either direction *)
LineIdle == h2n = <<>> /\ n2h = <<>>

(* host bring-up steps *)
BReset == /\ stage = "start" /\ TakeV(SReset(s, 1, 0), "resetting")
          /\ NcpUnch /\ UNCHANGED <<faults, issued, ncbs, canc, failed, badSync, booted, lastNum>>
BVersion == /\ stage = "reset" /\ TakeV(SVersion(s, 50, 0), "negotiating")
            /\ NcpUnch /\ UNCHANGED <<faults, issued, ncbs, canc, failed, badSync, booted, lastNum>>
BCall == /\ stage = "up" /\ issued < NCalls /\ issued' = issued + 1
         /\ TakeV(SCall(s, issued + 1, CmdOf[issued + 1], 0), stage)
         /\ NcpUnch /\ UNCHANGED <<faults, ncbs, canc, failed, badSync, booted, lastNum>>
BHTick == /\ LineIdle /\ TimerEnabled(s.g.h) /\ TakeV(STick(s, 0), stage)
          /\ NcpUnch /\ UNCHANGED <<faults, issued, ncbs, canc, failed, badSync, booted, lastNum>>
BCmdTimer == /\ LineIdle /\ TimeoutEnabled(s.p) /\ TakeV(SCmdTimeout(s, 0), stage)
             /\ NcpUnch /\ UNCHANGED <<faults, issued, ncbs, canc, failed, badSync, booted, lastNum>>
BResetTimer == /\ LineIdle /\ ResetTimeoutEnabled(s.g) /\ TakeV(SResetTimeout(s, 0), stage)
               /\ NcpUnch /\ UNCHANGED <<faults, issued, ncbs, canc, failed, badSync, booted, lastNum>>
BToHost == /\ n2h # <<>> /\ s.g.up /\ n2h' = Tail(n2h) /\ TakeV(SRecv(s, <<Head(n2h)>>, 0), stage)
           /\ UNCHANGED <<n, ncpRx, issued, ncbs, canc, failed, faults, badSync, booted, lastNum>>
(* NCP side *)
BToNcp == /\ h2n # <<>> /\ Head(h2n).type # "RST"
          /\ h2n' = Tail(h2n) /\ NcpTake(NRecvFn(n, Head(h2n)))
          /\ lastNum' = IF Head(h2n).type = "DATA" /\ Head(h2n).retx = 0 THEN Append(lastNum, Head(h2n).frm) ELSE lastNum
          /\ booted' = TRUE
          /\ UNCHANGED <<s, outc, seqOf, order, cbSeen, badWrite, issued, ncbs, canc, failed, badSync, faults, stage, vres>>
BNcpReset == /\ NcpReset /\ lastNum' = <<>> /\ booted' = TRUE /\ UNCHANGED <<stage, vres>>
BNTimer == /\ LineIdle /\ NTimerEnabled(n) /\ NcpTake(NTimerFn(n))
           /\ HostUnch /\ UNCHANGED <<faults, issued, ncbs, canc, failed, badSync>> /\ Keep
(* the NCP comes up and announces its start-up reset before it has read anything *)
BBoot == /\ Boot /\ ~booted /\ booted' = TRUE
         /\ n2h' = Append(n2h, [type |-> "RSTACK", ver |-> 2, code |-> SoftwareReset])
         /\ UNCHANGED <<s, n, h2n, outc, seqOf, order, cbSeen, badWrite, issued, ncbs, canc, failed, badSync, faults, ncpRx, stage, vres, lastNum>>

BNext == BReset \/ BVersion \/ BCall \/ BHTick \/ BCmdTimer \/ BResetTimer \/ BToHost \/ BToNcp \/ BNcpReset \/ BNTimer \/ BBoot
BSpec == BootInit /\ [][BNext]_bvars

NoTimeoutOnQuietLine == /\ vres \notin {"timeout", "linkfail"}
                        /\ \A c \in 1 .. NCalls : outc[c].res \notin {"timeout", "linkfail"}
FramesNumberedOnce == \A i, j \in 1 .. Len(lastNum) : i # j => lastNum[i] # lastNum[j]
BringupEnds == stage \in {"start", "resetting", "reset", "negotiating", "up", "failed"}
=============================================================================
