----------------------------- MODULE GatewayMC ------------------------------
(* C11 on the specification: reset requests, start-up waits, RSTACK / ERROR  *)
(* with any code at any time, reset timeout and connection loss in any order *)
(* (including loss in the loop iteration that resolved a waiter).            *)
EXTENDS Gateway, TLC
CONSTANTS Codes, ErrCodes, NResets
VARIABLES g, nres, outcomes, rstCount, okCause, fails
vars == <<g, nres, outcomes, rstCount, okCause, fails>>
(* outcomes : caller -> "none" | ok | timeout | connerr ;  okCause : the step that produced an ok was a software RSTACK *)
Init == /\ g \in {[GInit EXCEPT !.h = HInitAt(a, b)] : a \in {0, 5}, b \in {0, 3}}
        /\ nres = 0 /\ outcomes = [k \in 1 .. (NResets + 1) |-> "none"] /\ rstCount = 0 /\ okCause = TRUE /\ fails = TRUE
Take(r, sw) ==
    /\ g' = r.g
    /\ LET ds == SelectSeq(r.out, LAMBDA o : o.o \in {"rdone", "sdone"}) IN
         /\ outcomes' = [k \in DOMAIN outcomes |->
                           IF \E i \in 1 .. Len(ds) : ds[i].k = k
                           THEN (CHOOSE d \in {ds[i] : i \in 1 .. Len(ds)} : d.k = k).res ELSE outcomes[k]]
         /\ okCause' = (okCause /\ ((\E i \in 1 .. Len(ds) : ds[i].res = "ok") => sw))
    /\ rstCount' = rstCount + Len(SelectSeq(r.out, LAMBDA o : o.o = "rst"))
    /\ fails' = (fails /\ \A i \in 1 .. Len(r.out) : r.out[i].o = "failed" => r.out[i].code # SoftwareReset)
Reset == /\ nres < NResets /\ g.up /\ nres' = nres + 1 /\ Take(GStepReset(g, nres + 1, 0), FALSE)
Startup == /\ g.sw = "none" /\ g.up /\ outcomes[NResets + 1] = "none" /\ Take(GStepStartup(g, NResets + 1), FALSE) /\ UNCHANGED nres
Rstack(c) == /\ g.up /\ Take(GStepRecv(g, <<[type |-> "RSTACK", ver |-> 2, code |-> c]>>), c = SoftwareReset) /\ UNCHANGED nres
RstackLost(c, exc) == /\ g.up /\ Take(GStepRecvLost(g, <<[type |-> "RSTACK", ver |-> 2, code |-> c]>>, exc), c = SoftwareReset) /\ UNCHANGED nres
Error(c) == /\ g.up /\ Take(GStepRecv(g, <<[type |-> "ERROR", ver |-> 2, code |-> c]>>), FALSE) /\ UNCHANGED nres
Timeout == /\ ResetTimeoutEnabled(g) /\ Take(GStepTimeout(g), FALSE) /\ UNCHANGED nres
Lost(exc) == /\ g.up /\ Take(GStepLost(g, exc), FALSE) /\ UNCHANGED nres
DoRstack == \E c \in Codes : Rstack(c)
DoRstackLost == \E c \in Codes, x \in BOOLEAN : RstackLost(c, x)
DoError == \E c \in ErrCodes : Error(c)
DoLost == \E x \in BOOLEAN : Lost(x)
Next == Reset \/ Startup \/ DoRstack \/ DoRstackLost \/ DoError \/ Timeout \/ DoLost
Spec == Init /\ [][Next]_vars

(* a reset completes only on the software-reset acknowledgement *)
CompletesOnlyOnSoftware == okCause
(* other codes and ERROR frames are failures, reported to the application with their code *)
OtherCodesAreFailure == fails
(* when the connection is gone nobody is left waiting *)
WaitersReleased == ~g.up => (g.rw = "none" /\ g.sw = "none")
(* a second request joins the first: at most one RST per handshake in progress *)
SecondResetJoins == rstCount <= nres /\ (g.rw # "none" => Len(g.rk) >= 1)
(* fails : no application failure notice ever carried the software-reset code *)
=============================================================================
