------------------------------ MODULE Bringup -------------------------------
(***************************************************************************)
(* C09 - version negotiation at bring-up, seen from the NCP's EZSP layer.  *)
(* After each reset of the NCP (its own start-up reset or a host RST) the  *)
(* host must speak the legacy 3-byte format until it has negotiated:       *)
(*   fresh   -> the first frame is `version` (ID 0) in the legacy format   *)
(*              asking for version 4                                       *)
(*   queried -> if the NCP's version is not 4, the next frame is `version` *)
(*              in the NCP's native layout asking for exactly that version *)
(*   native  -> every later frame is in the NCP's native layout            *)
(* Host side (EZSP.startup_reset / version / _switch_protocol_version /    *)
(* reset) is modelled as the code does it, against this NCP.               *)
(***************************************************************************)
EXTENDS Naturals, Sequences, EzspCodec

(* ---- the NCP-side contract, as a step function on phase -------------- *)
PhaseAfter(ncpVer, phase, fmt, id, desired) ==
    CASE phase = "fresh" ->
           IF fmt = "legacy3" /\ id = 0 /\ desired = 4
           THEN (IF ncpVer = 4 THEN "native" ELSE "queried") ELSE "VIOLATION:FirstQueryLegacy"
      [] phase = "queried" ->
           IF fmt = Layout(ncpVer) /\ id = 0 /\ desired = ncpVer THEN "native" ELSE "VIOLATION:Confirmed"
      [] phase = "native" ->
           IF fmt = Layout(ncpVer) THEN "native" ELSE "VIOLATION:FramedForVersion"
      [] OTHER -> phase

(* tables the host must use for a reported version: its own for 4..14, the newest known ones above *)
TablesFor(v) == IF v <= 14 THEN v ELSE 14
=============================================================================
