--------------------------- MODULE Trace_Bringup ----------------------------
(* C09 binding: runs of the real stack (EZSP -> uart.connect -> Gateway ->    *)
(* AshProtocol -> fake serial line -> simulated ASH NCP + EZSP NCP).          *)
EXTENDS Bringup, Json, IOUtils, TLCExt, TLC
Traces == JsonDeserialize(IOEnv.TRACE_FILE)
VARIABLES ncpVer, phase, bad, rs, tid, l
tvars == <<ncpVer, phase, bad, rs, tid, l>>
Tr == Traces[tid]
TInit == /\ tid \in 1 .. Len(Traces) /\ l = 2 /\ Traces[tid][1].a = "cfg"
         /\ ncpVer = Traces[tid][1].ncpver /\ phase = "fresh" /\ bad = {} /\ rs = 0
Flag(c, name) == IF c THEN bad ELSE bad \cup {name}
(* every clause is an enabling condition: a run that breaks one is not a behaviour (it gets stuck there) *)
TNext ==
  /\ l <= Len(Tr)
  /\ LET e == Tr[l] IN
       \/ /\ e.a = "ncpreset" /\ phase' = "fresh" /\ rs' = rs + 1 /\ UNCHANGED <<ncpVer, bad>>     \* the NCP (re)started: boot or host RST
       \/ /\ e.a = "stagestart" /\ UNCHANGED <<ncpVer, phase, bad, rs>>
       \/ /\ e.a = "ezsp_rx"                                                      \* a frame reached the NCP's EZSP layer
          /\ phase' = PhaseAfter(ncpVer, phase, e.fmt, e.id, e.desired)
          /\ phase' \in {"fresh", "queried", "native"}          \* FirstQueryLegacy / Confirmed / FramedForVersion
          /\ UNCHANGED <<ncpVer, bad, rs>>
       \* the NCP missed the host's RST altogether (boot = "deaf"): that start-up ends in the reset timeout - nothing was reset
       \/ /\ e.a = "result" /\ e.stage = "startup" /\ e.exc = "TimeoutError" /\ Tr[1].boot = "deaf" /\ rs = 0
          /\ UNCHANGED <<ncpVer, phase, bad, rs>>
       \/ /\ e.a = "result"                                                       \* a bring-up stage ended at the host
          /\ e.exc = ""                                                           \* ... without an exception
          /\ (e.stage \in {"startup", "version"} => (e.version = ncpVer /\ e.tables = TablesFor(ncpVer) /\ phase = "native"))
          \* a start-up / an explicit reset performs the reset handshake: the NCP was reset (by the host's RST or, announced by itself,
          \* on its own) since the connection was opened or the previous start-up / reset ended
          /\ (e.stage \in {"startup", "reset"} => rs >= 1)
          /\ rs' = IF e.stage \in {"startup", "reset"} THEN 0 ELSE rs
          /\ UNCHANGED <<ncpVer, phase, bad>>
  /\ l' = l + 1 /\ UNCHANGED tid
TSpec == TInit /\ [][TNext]_tvars
Progress == TLCSet(1, [TLCGet(1) EXCEPT ![tid] = IF @ < l THEN l ELSE @])
Post == /\ PrintT(<<"BVPROGRESS", TLCGet(1)>>)
        /\ \A i \in 1 .. Len(Traces) : TLCGet(1)[i] = Len(Traces[i]) + 1
ASSUME TLCSet(1, [i \in 1 .. Len(Traces) |-> 0])
=============================================================================
