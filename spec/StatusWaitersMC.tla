--------------------------- MODULE StatusWaitersMC ---------------------------
(* closed model: up to N waiters entering, leaving and being cancelled while   *)
(* status events of two kinds arrive in any order; `seen` records, per waiter,  *)
(* whether its status arrived while it was registered.                          *)
EXTENDS StatusWaiters, TLC
CONSTANTS Ids, MaxEvents
VARIABLES w, seen, n
vars == <<w, seen, n>>
Sts == {"up", "down"}
Init == w = W0(Ids) /\ seen = [i \in Ids |-> FALSE] /\ n = 0
Enter == \E i \in Ids, st \in Sts : w[i].ph = "out" /\ w' = EnterFn(w, i, st) /\ seen' = [seen EXCEPT ![i] = FALSE] /\ UNCHANGED n
Status == \E st \in Sts : /\ n < MaxEvents /\ n' = n + 1 /\ w' = StatusFnW(w, st)
                          /\ seen' = [i \in Ids |-> seen[i] \/ (w[i].ph = "in" /\ w[i].st = st)]
Exit == \E i \in Ids : w[i].ph # "out" /\ w' = ExitFn(w, i) /\ UNCHANGED <<seen, n>>
Next == Enter \/ Status \/ Exit
Spec == Init /\ [][Next]_vars
\* never misses: a waiter whose status arrived while it was registered is resolved (whatever the other waiters did)
NoMiss == \A i \in Ids : (w[i].ph # "out" /\ seen[i]) => w[i].ph = "got"
\* and is resolved by nothing else
NoSpurious == \A i \in Ids : w[i].ph = "got" => seen[i]
=============================================================================
