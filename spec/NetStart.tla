------------------------------- MODULE NetStart -------------------------------
(***************************************************************************)
(* Extension X04 (beyond the listed properties): bringing the network up   *)
(* at application level - ControllerApplication.start_network().           *)
(*                                                                         *)
(*   _ensure_network_running():  networkState; if not joined: networkInit, *)
(*        NOT_JOINED -> NetworkNotFormed, other refusal -> ControllerError,*)
(*        then wait (bounded) for the NETWORK_UP stack status              *)
(*   repair (first pass only):   getEui64, getCurrentSecurityState; if the *)
(*        trust-centre address differs from the node's own and the NV3     *)
(*        token interface exists and answers: getTokenData, setTokenData,  *)
(*        then _reset() (stop, ASH reset, version, configuration) and      *)
(*        _ensure_network_running() once more                              *)
(*   source routing (if configured): setConcentrator                       *)
(*        [+ setSourceRouteDiscoveryMode from version 8]                   *)
(*   policies:                   setPolicy for every configured policy     *)
(*   load_network_info:          read-only commands (content: C14)         *)
(*   registration:               application callback added, controller    *)
(*                               marked running                            *)
(*   multicast start-up:         table size, table entries (content: C15)  *)
(*                                                                         *)
(* One step per observable event (a command reaching the NCP with the      *)
(* class of the NCP's answer, the NETWORK_UP event, the gateway reset, the *)
(* registration, the running mark, the end of the call).  Steps(c, s, e)   *)
(* is the set of successor states: empty = the event is not a behaviour.   *)
(* c: src (source routing configured), v8 (version >= 8), tok (version has *)
(* the token commands, >= 9), npol (number of configured policies),        *)
(* upT (ms the operation waits for NETWORK_UP).                            *)
(***************************************************************************)
EXTENDS Naturals, Sequences, FiniteSets

InitCmds == {"networkInit", "networkInitExtended"}
McastCmds == {"getConfigurationValue", "getMulticastTableEntry", "setMulticastTableEntry"}

NS0 == [pc |-> "state", pass |-> 1, up |-> FALSE, running |-> FALSE, cbs |-> 0, resets |-> 0, pol |-> 0,
        out |-> "none", t0 |-> 0, regd |-> FALSE, setd |-> FALSE, tokw |-> FALSE]

Fail(s, exc) == [s EXCEPT !.pc = "raise", !.out = exc]
AfterRepair(c, s) == [s EXCEPT !.pc = IF c.src THEN "conc" ELSE "pol"]
AfterUp(c, s) == IF s.pass = 1 THEN [s EXCEPT !.up = TRUE, !.pc = "eui"] ELSE AfterRepair(c, [s EXCEPT !.up = TRUE])

IsCmd(e, names) == e.a = "cmd" /\ e.n \in names
(* a command the NCP never answers ends the operation with the command timeout, wherever it is *)
Lost(e) == e.a = "cmd" /\ e.r = "noreply"

CmdStep(c, s, e) ==
    CASE s.pc = "state" /\ IsCmd(e, {"networkState"}) ->
             IF e.r = "joined" THEN {AfterUp(c, s)} ELSE IF e.r = "nonet" THEN {[s EXCEPT !.pc = "init"]} ELSE {}
      [] s.pc = "init" /\ IsCmd(e, InitCmds) ->
             IF e.r = "ok" THEN {[s EXCEPT !.pc = "wait", !.t0 = e.t]}
             ELSE IF e.r = "notjoined" THEN {Fail(s, "NetworkNotFormed")}
             ELSE IF e.r = "fail" THEN {Fail(s, "ControllerError")} ELSE {}
      [] s.pc = "eui" /\ IsCmd(e, {"getEui64"}) -> {[s EXCEPT !.pc = "sec"]}
      [] s.pc = "sec" /\ IsCmd(e, {"getCurrentSecurityState"}) ->
             IF e.r = "match" THEN {AfterRepair(c, s)}
             ELSE IF e.r = "mismatch" THEN {IF c.tok THEN [s EXCEPT !.pc = "tokget"] ELSE AfterRepair(c, s)}
             ELSE IF e.r = "bad" THEN {Fail(s, "AssertionError")} ELSE {}
      [] s.pc = "tokget" /\ IsCmd(e, {"getTokenData"}) ->
             IF e.r = "ok" THEN {[s EXCEPT !.pc = "tokset"]}
             ELSE IF e.r \in {"bad", "invalid"} THEN {AfterRepair(c, s)} ELSE {}      \* "NV3 interface not available"
      [] s.pc = "tokset" /\ IsCmd(e, {"setTokenData"}) ->
             IF e.r = "ok" THEN {[s EXCEPT !.pc = "reset", !.tokw = TRUE]}
             ELSE IF e.r = "bad" THEN {Fail(s, "AssertionError")} ELSE {}
      [] s.pc = "boot" /\ e.a = "cmd" /\ e.n # "networkState" -> {s}                    \* version, configuration (C09, C16)
      [] s.pc = "boot" /\ IsCmd(e, {"networkState"}) ->
             IF e.r = "joined" THEN {AfterUp(c, s)} ELSE IF e.r = "nonet" THEN {[s EXCEPT !.pc = "init"]} ELSE {}
      [] s.pc = "conc" /\ IsCmd(e, {"setConcentrator"}) -> {[s EXCEPT !.pc = IF c.v8 THEN "disc" ELSE "pol"]}   \* a refusal is only logged
      [] s.pc = "disc" /\ IsCmd(e, {"setSourceRouteDiscoveryMode"}) -> {[s EXCEPT !.pc = "pol"]}
      [] s.pc = "pol" /\ IsCmd(e, {"setPolicy"}) /\ s.pol < c.npol ->
             IF e.r = "ok" THEN {[s EXCEPT !.pol = @ + 1]} ELSE IF e.r = "bad" THEN {Fail(s, "AssertionError")} ELSE {}
      [] s.pc = "pol" /\ e.a = "cmd" /\ e.n # "setPolicy" /\ s.pol = c.npol /\ e.k = "read" -> {[s EXCEPT !.pc = "load"]}
      [] s.pc = "load" /\ e.a = "cmd" /\ e.k = "read" -> {s}
      [] s.pc = "mcast" /\ IsCmd(e, McastCmds) -> {s}
      [] OTHER -> {}

Answers == {"ok", "bad", "joined", "nonet", "notjoined", "fail", "match", "mismatch", "invalid", "-"}
Expected(c, s, e) == \E r \in Answers : CmdStep(c, s, [e EXCEPT !.r = r]) # {}

Steps(c, s, e) ==
    CASE e.a = "cmd" /\ s.pc # "conn" /\ Lost(e) -> IF Expected(c, s, e) THEN {Fail(s, "TimeoutError")} ELSE {}
      [] e.a = "cmd" /\ s.pc # "conn" /\ ~Lost(e) -> CmdStep(c, s, e)
      [] e.a = "up" -> IF s.pc = "wait" THEN {AfterUp(c, s)} ELSE {}
      [] e.a = "reset" /\ s.pc = "conn" -> {s}
      [] e.a = "cmd" /\ s.pc = "conn" -> {s}
      [] e.a = "reset" /\ s.pc # "conn" -> IF s.pc = "reset" THEN {[s EXCEPT !.pc = "boot", !.pass = 2, !.up = FALSE, !.resets = @ + 1]} ELSE {}
      \* registration and the running mark are two synchronous statements: either order
      [] e.a = "reg" -> IF s.pc \in {"load", "mid"} /\ ~s.regd /\ (s.pc = "mid" => s.setd)
                        THEN {[s EXCEPT !.regd = TRUE, !.cbs = @ + 1, !.pc = IF s.setd THEN "mcast" ELSE "mid"]} ELSE {}
      [] e.a = "set" -> IF s.pc \in {"load", "mid"} /\ ~s.setd /\ (s.pc = "mid" => s.regd)
                        THEN {[s EXCEPT !.setd = TRUE, !.running = TRUE, !.pc = IF s.regd THEN "mcast" ELSE "mid"]} ELSE {}
      \* the application lets go of the connection: not running any more; a new connection (new EZSP object: no callbacks yet) is brought up
      \* by connect() - ASH reset, version, configuration, endpoints (C09, C16) - and start_network() begins afresh
      [] e.a = "disconnect" -> IF s.pc = "ended" /\ ~e.running THEN {[NS0 EXCEPT !.pc = "conn"]} ELSE {}
      [] e.a = "connected" -> IF s.pc = "conn" /\ e.cbs = 0 /\ ~e.running THEN {NS0} ELSE {}
      [] e.a = "end" ->
             IF s.pc = "raise" THEN (IF e.out = s.out /\ e.running = s.running /\ e.cbs = s.cbs THEN {[s EXCEPT !.pc = "ended"]} ELSE {})
             ELSE IF s.pc = "wait" THEN (IF e.out = "TimeoutError" /\ e.t - s.t0 = c.upT /\ ~e.running /\ e.cbs = 0
                                         THEN {[s EXCEPT !.pc = "ended", !.out = "TimeoutError"]} ELSE {})
             ELSE IF s.pc = "mcast" THEN (IF e.out = "ok" /\ e.running /\ e.cbs = 1 THEN {[s EXCEPT !.pc = "ended", !.out = "ok"]} ELSE {})
             ELSE {}
      [] OTHER -> {}

(* ---- what a user relies on (checked on every state of NetStartMC and of every validated run) *)
Past(s, pcs) == s.pc \in pcs
Late == {"conc", "disc", "pol", "load", "mcast"}
(* marked running / callback registered only with the network up since the last NCP reset, all policies written *)
RunningImpliesUp(c, s) == (s.running \/ s.cbs > 0) => (s.up /\ s.pol = c.npol)
(* nothing after the bring-up stage happens on a network that is not up *)
LateImpliesUp(s) == Past(s, Late) => s.up
(* one callback registration at most; one NCP reset at most, and only after the token was rewritten *)
Once(s) == s.cbs <= 1 /\ s.resets <= 1 /\ (s.resets = 1 => s.tokw)
(* a rewritten token is always followed by the reset that makes it effective before the network is used *)
TokenThenReset(s) == (s.tokw /\ Past(s, Late \cup {"ended"}) /\ s.out \in {"none", "ok"}) => s.resets = 1
(* a start-up that fails before the registration leaves nothing behind *)
FailedClean(s) == (s.pc = "ended" /\ s.out # "ok" /\ ~s.regd) => (~s.running /\ s.cbs = 0)
=============================================================================
