----------------------------- MODULE EzspCodec ------------------------------
(***************************************************************************)
(* C07 - the structural part of the EZSP codec, per protocol version:      *)
(* which of the three header layouts a version uses, how sequence number,  *)
(* frame control and frame ID are laid out, that the argument encodings    *)
(* follow the header in declared order, that frame IDs are unique, and     *)
(* that what the receive path hands over equals what was encoded, with     *)
(* nothing left over.  Encodings of individual field values are produced   *)
(* by the field types themselves (the property is one of consistency of    *)
(* the codec pair); the specification decides order, framing, identity.    *)
(***************************************************************************)
EXTENDS Naturals, Sequences, SequencesExt, FiniteSets

Layout(ver) == IF ver <= 4 THEN "legacy3" ELSE IF ver <= 7 THEN "legacy5" ELSE "ext"

(* request header written by the host: sequence, frame control (0), [extension bytes], frame ID *)
HdrTx(layout, seq, id) ==
    CASE layout = "legacy3" -> <<seq, 0, id>>
      [] layout = "legacy5" -> <<seq, 0, 255, 0, id>>
      [] layout = "ext"     -> <<seq, 0, 1, id % 256, id \div 256>>

(* header of a frame the NCP sends (response bit set in the low frame-control byte) *)
HdrRx(layout, seq, id, fc) ==
    CASE layout = "legacy3" -> <<seq, fc, id>>
      [] layout = "legacy5" -> <<seq, fc, 255, 0, id>>
      [] layout = "ext"     -> <<seq, fc, 1, id % 256, id \div 256>>

(* what a conforming reader extracts from a received header: <<seq, id, header length>> *)
ParseRx(layout, bytes) ==
    CASE layout = "legacy3" -> <<bytes[1], bytes[3], 3>>
      [] layout = "legacy5" -> <<bytes[1], bytes[5], 5>>
      [] layout = "ext"     -> <<bytes[1], bytes[4] + 256 * bytes[5], 5>>

Concat(chunks) == FoldLeft(LAMBDA acc, c : acc \o c, <<>>, chunks)

(* a command table: sequence of [name, id]; every frame ID belongs to exactly one command *)
IdsInjective(tbl) == Cardinality({tbl[i].id : i \in 1 .. Len(tbl)}) = Len(tbl)
NamesInjective(tbl) == Cardinality({tbl[i].name : i \in 1 .. Len(tbl)}) = Len(tbl)
IdFits(layout, tbl) == {tbl[i].id : i \in 1 .. Len(tbl)} \subseteq 0 .. (IF layout = "ext" THEN 65535 ELSE 255)
=============================================================================
