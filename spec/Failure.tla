------------------------------ MODULE Failure -------------------------------
(***************************************************************************)
(* C10 - NCP failure or connection loss at any moment is reported and      *)
(* never hangs.  The vertical slice AshProtocol / Gateway / EZSP /         *)
(* application callback, abstracted to what the property talks about:      *)
(*   reg      : an application callback is registered                      *)
(*   failedAt : time the failure happened (-1: none); kind                 *)
(*   knownAt  : time the EZSP layer learnt of it and asked the application *)
(*              for a controller reset (-1: not yet)                       *)
(*   reqs     : number of controller-reset requests delivered              *)
(*   open     : command calls in progress, call -> time issued             *)
(*   closed   : the application closed the connection deliberately         *)
(* An observer over the events of a run; every clause is an enabling       *)
(* condition, so a run that breaks one is not a behaviour.                 *)
(***************************************************************************)
EXTENDS Integers, Sequences, FiniteSets

CONSTANTS CmdTimeout,     \* EZSP command timeout, ms (configuration)
          LinkTimeout     \* ASH retry budget x maximal ACK timeout, ms

FInit(reg) == [reg |-> reg, failedAt |-> 0 - 1, kind |-> "none", knownAt |-> 0 - 1, reqs |-> 0,
               open |-> <<>>, closed |-> FALSE]

Known(s) == s.knownAt >= 0
Failed(s) == s.failedAt >= 0
Silent(s) == s.kind = "silent"

OpenSet(s) == {s.open[i].c : i \in 1 .. Len(s.open)}
IssuedAt(s, c) == (CHOOSE e \in {s.open[i] : i \in 1 .. Len(s.open)} : e.c = c).t

(* a command call is issued (EZSP._command) *)
Issue(s, c, t) == [s EXCEPT !.open = Append(s.open, [c |-> c, t |-> t])]
(* the failure happens *)
Fail(s, kind, t) == IF Failed(s) THEN s ELSE [s EXCEPT !.failedAt = t, !.kind = kind]
CloseDeliberately(s) == [s EXCEPT !.closed = TRUE]

(* the application receives a controller-reset request: only for a real failure, only if registered, never for a deliberate close *)
RequestOk(s, t) == Failed(s) /\ s.reg /\ ~s.closed
Request(s, t) == [s EXCEPT !.reqs = s.reqs + 1, !.knownAt = IF Known(s) THEN s.knownAt ELSE t]

(* bytes written to the port: never once the failure is known (a silent NCP is retried until the budget is exhausted) *)
WriteOk(s, t) == ~Known(s)

(* a call ends: if it was in progress when the failure happened (callback registered) it ends within command + link timeouts *)
CompleteOk(s, c, t) ==
    /\ c \in OpenSet(s)
    /\ (Failed(s) /\ s.reg) => t <= (IF IssuedAt(s, c) > s.failedAt THEN IssuedAt(s, c) ELSE s.failedAt) + CmdTimeout + LinkTimeout
Complete(s, c) == [s EXCEPT !.open = SelectSeq(s.open, LAMBDA e : e.c # c)]

(* a command issued once the failure is known raises at once and writes nothing *)
ProbeOk(s, res, wrote) == Known(s) => (res \notin {"ok", "pending"} /\ wrote = 0)

(* end of the run: nothing hangs; reported iff registered and not deliberate (that new commands are refused is the probe's clause) *)
EndOk(s, pending, running) ==
    /\ pending = <<>> /\ s.open = <<>>
    /\ (Failed(s) /\ s.reg /\ ~s.closed) => s.reqs >= 1
    /\ (~s.reg \/ ~Failed(s)) => s.reqs = 0            \* (no request after a deliberate close: RequestOk)
=============================================================================
