------------------------------ MODULE CbRegistry ------------------------------
(***************************************************************************)
(* C17 / C06: the callback registry every list command, the stack-status   *)
(* listener and the application hang on (EZSP.add_callback /               *)
(* remove_callback / handle_callback).  live: handle -> id of the          *)
(* registrations in force.  An id handed out is not the id of any          *)
(* registration in force (so removing one never removes another and a new  *)
(* one never replaces another); a frame fans out to every registration in  *)
(* force exactly once; a removed registration hears nothing any more.      *)
(***************************************************************************)
EXTENDS Naturals, FiniteSets
Ids(live) == {live[h] : h \in DOMAIN live}
AddOk(live, h, id) == h \notin DOMAIN live /\ id \notin Ids(live)
AddFn(live, h, id) == [x \in DOMAIN live \cup {h} |-> IF x = h THEN id ELSE live[x]]
RemoveFn(live, h) == [x \in DOMAIN live \ {h} |-> live[x]]
Heard(live) == DOMAIN live
=============================================================================
