----------------------------- MODULE AshHost5MC -----------------------------
(* C05 - the host sender against a SCRIPTED peer: for every attempt of every *)
(* send the peer reacts with a covering ACK, a stale ACK, a NAK, silence     *)
(* (the ACK timer fires), an ERROR or an RSTACK; reactions may share a read  *)
(* chunk, and a reaction may land in the loop iteration of the ACK timer.    *)
EXTENDS AshHost, TLC

CONSTANTS NSends,      \* number of send_data calls
          Codes,       \* reset / error codes used by the peer
          StartTx      \* initial transmit numbers (reaches the modulo-8 wrap at depth 1)

VARIABLES h, obs, sub
vars == <<h, obs, sub>>

Init == \E a \in StartTx :
          /\ h = HInitAt(a, 0)
          /\ obs = [ObsInit EXCEPT !.lastNew = IF a = 0 THEN 8 ELSE a - 1]
          /\ sub = 0

Reactions ==
    (IF h.cur.id # 0
     THEN {Ack((h.cur.num + 1) % 8), Ack(h.cur.num), Nak(h.cur.num), Nak((h.cur.num + 1) % 8)}
     ELSE {Ack(h.tx)})
    \cup {[type |-> ty, ver |-> 2, code |-> c] : ty \in {"RSTACK", "ERROR"}, c \in Codes}

Take(r, ins) == h' = r.h /\ obs' = ObsStep(obs, ins, r.out) /\ UNCHANGED sub

Submit == /\ sub < NSends
          /\ LET r == StepSubmit(h, sub + 1, sub + 1) IN
               h' = r.h /\ obs' = ObsStep(obs, <<>>, r.out)
          /\ sub' = sub + 1
React(f) == Take(StepRecv(h, <<f>>), <<f>>)
React2(f, g) == Take(StepRecv(h, <<f, g>>), <<f, g>>)
ReactLate(f) == TimerEnabled(h) /\ Take(StepRecvLate(h, <<f>>), <<f>>)
Silence == TimerEnabled(h) /\ Take(StepTick(h), <<>>)

DoReact == \E f \in Reactions : React(f)
DoReactLate == \E f \in Reactions : ReactLate(f)
DoReact2 == \E f \in Reactions, g \in Reactions : React2(f, g)
Next == Submit \/ DoReact \/ DoReactLate \/ DoReact2 \/ Silence
Spec == Init /\ [][Next]_vars

AttemptsBounded  == "AttemptsBounded" \notin obs.bad /\ h.cur.att < MaxAtt
RepeatSame       == "RepeatSame" \notin obs.bad
SilentWhenFailed == "SilentWhenFailed" \notin obs.bad
OneOutstanding   == "OneOutstanding" \notin obs.bad
Consecutive      == "Consecutive" \notin obs.bad
ToldOnce         == "ToldOnce" \notin obs.bad /\ "ToldReason" \notin obs.bad
(* once the loop is idle a failed link has no send in progress and nobody waiting *)
WaitersFail      == h.st = "FAILED" => (h.cur.id = 0 /\ h.q = <<>>)
ObserverTracksFailure == obs.failed = (h.st = "FAILED")

RECURSIVE TickN(_, _)
TickN(x, n) == IF n = 0 \/ ~TimerEnabled(x) THEN x ELSE TickN(StepTick(x).h, n - 1)
(* silence alone ends any send within the attempt budget, and then everybody queued behind it *)
SendEndsByTicks == LET y == TickN(h, MaxAtt) IN y.cur.id = 0 /\ y.q = <<>>
=============================================================================
