---------------------------- MODULE PermitPolicyMC ----------------------------
(* Closed model for X03: permit(T) calls at any instant, time in seconds.      *)
(* Spec       : RestoredWhenIdle always; WindowCovered when permits do not      *)
(*              overlap (NoOverlap as a constraint on Permit).                  *)
(* SpecOverlap: the same with overlapping permits - WindowCovered is expected   *)
(*              to FAIL (the check requires TLC to find the counter-example).   *)
EXTENDS PermitPolicy, TLC
CONSTANTS Ts, MaxT, MaxPermits, Vc
VARIABLES s, now, n
vars == <<s, now, n>>
Init == s = PInit0 /\ now = 0 /\ n = 0
Permit(T, overlap) ==
    /\ n < MaxPermits /\ (overlap \/ s.wakes = <<>>)
    /\ s' = PermitFn(s, T, now, Vc).s /\ n' = n + 1 /\ UNCHANGED now
Fire == Due(s, now) /\ s' = WakeFn(s, now).s /\ UNCHANGED <<now, n>>
Advance == ~Due(s, now) /\ now < MaxT /\ now' = now + 1000 /\ UNCHANGED <<s, n>>
DoPermit == \E T \in Ts : Permit(T, FALSE)
DoPermitOverlap == \E T \in Ts : Permit(T, TRUE)
Spec == Init /\ [][DoPermit \/ Fire \/ Advance]_vars /\ WF_vars(Fire) /\ WF_vars(Advance)
SpecOverlap == Init /\ [][DoPermitOverlap \/ Fire \/ Advance]_vars
Restored == RestoredWhenIdle(s)
Covered == WindowCovered(s, now, Vc)
EventuallyRestored == (n = MaxPermits /\ now + 1000 * 12 < MaxT) ~> (s.wakes = <<>>)
=============================================================================
