---------------------------- MODULE Trace_AshHost ----------------------------
(* Code -> spec binding for the host side of ASH (C04, C05): every recorded  *)
(* execution of the real AshProtocol must be a behaviour of AshHost.tla, the *)
(* observers' property clauses are evaluated on every state, and timer-      *)
(* driven steps must lie within the protocol's ACK timeout bounds.           *)
EXTENDS AshHost, Json, IOUtils, TLCExt, TLC, Integers

CONSTANTS TMin, TMax          \* T_RX_ACK_MIN / T_RX_ACK_MAX of the ASH text, in ms
(* recorded instants are rounded to whole milliseconds: an interval of exactly TMin / TMax may read 1 ms off *)
InWindow(dt) == dt \in (TMin - 1) .. (TMax + 1)

Traces == JsonDeserialize(IOEnv.TRACE_FILE)
VARIABLES h, obs, o4, tw, canc, tid, l
tvars == <<h, obs, o4, tw, canc, tid, l>>
Tr == Traces[tid]

TInit == /\ tid \in 1 .. Len(Traces) /\ l = 1
         /\ h = HInit /\ obs = ObsInit /\ o4 = Obs4Init /\ tw = 0 /\ canc = {}

Proj(s, K) == SelectSeq(s, LAMBDA o : o.o \in K)
SameOut(a, b) == /\ LET wa == Proj(a, {"write"}) wb == Proj(b, {"write"}) IN
                      Len(wa) = Len(wb) /\ \A i \in 1 .. Len(wa) : MatchFrame(wa[i].f, wb[i].f)
                 /\ Proj(a, {"up_data", "up_reset"}) = Proj(b, {"up_data", "up_reset"})
                 \* a cancelled caller hears nothing any more; its send goes on behind the shield
                 /\ Proj(a, {"done"}) = SelectSeq(b, LAMBDA o : o.o = "done" /\ o.id \notin canc)
HasData(out) == \E i \in 1 .. Len(out) : out[i].o = "write" /\ out[i].f.type = "DATA"

(* nothing escapes a protocol callback - unless the upper layer (the harness's own, on request) raised while consuming a delivery: that *)
(* exception may propagate or be swallowed, and changes nothing else (the frame stays accepted and acknowledged exactly once)           *)
NoRaise(e) == \A i \in 1 .. Len(e.out) : e.out[i].o = "raised" => e.upraise = 1
Apply(e, r, ins) == /\ SameOut(e.out, r.out) /\ NoRaise(e)
                    /\ h' = r.h
                    \* (the observers also see the end of sends whose caller was cancelled - the link reports it, only the caller does not hear it)
                    /\ LET full == e.out \o SelectSeq(r.out, LAMBDA o : o.o = "done" /\ o.id \in canc) IN
                         /\ obs' = ObsStep(obs, ins, full)
                         /\ o4' = Obs4Step(o4, ins, full)
                    /\ tw' = IF HasData(e.out) THEN e.t ELSE tw
                    /\ UNCHANGED canc

TNext == /\ l <= Len(Tr)
         /\ LET e == Tr[l] IN
              \/ e.a = "submit" /\ Apply(e, StepSubmit(h, e.id, e.pl), <<>>)
              \/ e.a = "recv" /\ e.late = 0 /\ Apply(e, StepRecv(h, e.fs), e.fs)
              \/ e.a = "recv" /\ e.late = 1 /\ InWindow(e.t - tw) /\ Apply(e, StepRecvLate(h, e.fs), e.fs)
              \/ e.a = "tick" /\ TimerEnabled(h) /\ InWindow(e.t - tw) /\ Apply(e, StepTick(h), <<>>)
              \* a timer of the loop fired and nothing observable happened while the ACK timer is not overdue: stuttering
              \/ e.a = "tick" /\ e.out = <<>> /\ (~TimerEnabled(h) \/ e.t - tw < TMax) /\ UNCHANGED <<h, obs, o4, tw, canc>>
              \* cancelling the caller of a send changes nothing on the link: no output now, the frame's life goes on as if nothing had happened
              \/ e.a = "cancel" /\ e.out = <<>> /\ canc' = canc \cup {e.id} /\ UNCHANGED <<h, obs, o4, tw>>
              \* the host writes an RST: nothing else happens - in particular a failed link stays failed (and silent) until the RSTACK arrives
              \/ e.a = "hostreset" /\ Len(e.out) = 1 /\ e.out[1].o = "write" /\ e.out[1].f.type = "RST" /\ UNCHANGED <<h, obs, o4, tw, canc>>
              \/ e.a = "end" /\ h.cur.id = 0 /\ h.q = <<>> /\ e.pending = <<>> /\ e.out = <<>>
                             /\ UNCHANGED <<h, obs, o4, tw, canc>>
         /\ l' = l + 1
         /\ UNCHANGED tid

TSpec == TInit /\ [][TNext]_tvars

C05_AttemptsBounded  == "AttemptsBounded" \notin obs.bad
C05_RepeatSame       == "RepeatSame" \notin obs.bad
C05_SilentWhenFailed == "SilentWhenFailed" \notin obs.bad
C05_OneOutstanding   == "OneOutstanding" \notin obs.bad
C05_Consecutive      == "Consecutive" \notin obs.bad
C05_ToldOnce         == "ToldOnce" \notin obs.bad /\ "ToldReason" \notin obs.bad
C04_UpExactlyAccepted == "UpExactlyAccepted" \notin o4.bad
C04_OneAckPerData     == "OneAckPerData" \notin o4.bad

Progress == TLCSet(1, [TLCGet(1) EXCEPT ![tid] = IF @ < l THEN l ELSE @])
Post == /\ PrintT(<<"BVPROGRESS", TLCGet(1)>>)
        /\ \A i \in 1 .. Len(Traces) : TLCGet(1)[i] = Len(Traces[i]) + 1
ASSUME TLCSet(1, [i \in 1 .. Len(Traces) |-> 0])
=============================================================================
