------------------------------- MODULE AshRx --------------------------------
(***************************************************************************)
(* C02 - the reference decoder of the ASH receive path, one byte at a      *)
(* time (so any split of the stream into reads is the same behaviour):     *)
(* flag / cancel / substitute / XON / XOFF handling written from the ASH   *)
(* text, unstuffing and CRC/length checks from AshCodec, frame handling    *)
(* from AshHost.                                                           *)
(*   buf  : bytes since the last frame boundary, XON/XOFF already removed  *)
(*   disc : a SUBSTITUTE byte was seen, ignore everything up to next FLAG  *)
(*   h    : host frame-level state (AshHost)                               *)
(***************************************************************************)
EXTENDS AshCodec, AshHost

RxInit == [buf |-> <<>>, disc |-> FALSE, h |-> HInit, out |-> <<>>]

(* what lies between two flags is a frame candidate *)
Candidate(rx) ==
    LET f == Decode(rx.buf) IN
    IF f.type = "INVALID"
    THEN [rx EXCEPT !.buf = <<>>, !.out = Append(@, W(Nak(rx.h.rx)))]      \* unparsable: one NAK, nothing upward
    ELSE LET r == RecvFn(rx.h, f) IN [rx EXCEPT !.buf = <<>>, !.h = r.h, !.out = @ \o r.out]

RxByte(rx, b) ==
    CASE b = FLAG -> IF rx.disc THEN [rx EXCEPT !.disc = FALSE, !.buf = <<>>]
                     ELSE IF rx.buf = <<>> THEN rx
                     ELSE Candidate(rx)
      [] b = CAN  -> IF rx.disc THEN rx ELSE [rx EXCEPT !.buf = <<>>]
      [] b = SUB  -> [rx EXCEPT !.disc = TRUE, !.buf = <<>>]
      [] b \in {XON, XOFF} -> rx
      [] OTHER -> IF rx.disc THEN rx ELSE [rx EXCEPT !.buf = Append(@, b)]

RxBytes(rx, bytes) == FoldLeft(RxByte, rx, bytes)

(* Length check.  The ASH text bounds the data field of a DATA frame to 3 .. 128 bytes and has the receiver discard a   *)
(* frame of any other length.  bellows accepts shorter and somewhat longer ones; the property asks for "length checks"   *)
(* of a specification-derived decoder, so for a DATA candidate outside 3 .. 128 both are behaviours: discarded like any  *)
(* unparsable candidate (one NAK, nothing upward), or handled as the DATA frame it decodes to (the WHOLE payload).       *)
OddLength(f) == f.type = "DATA" /\ (Len(f.pl) < 3 \/ Len(f.pl) > 128)
CandidateAlts(rx) ==
    IF OddLength(Decode(rx.buf))
    THEN {Candidate(rx), [rx EXCEPT !.buf = <<>>, !.out = Append(@, W(Nak(rx.h.rx)))]}
    ELSE {Candidate(rx)}
RxByteAlts(rx, b) == IF b = FLAG /\ ~rx.disc /\ rx.buf # <<>> THEN CandidateAlts(rx) ELSE {RxByte(rx, b)}
RxBytesAlts(rx, bytes) == FoldLeft(LAMBDA S, b : UNION {RxByteAlts(r, b) : r \in S}, {rx}, bytes)
=============================================================================
