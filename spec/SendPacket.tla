----------------------------- MODULE SendPacket -----------------------------
(***************************************************************************)
(* C12 - a unicast is reported delivered only on its own delivery          *)
(* confirmation (ControllerApplication.send_packet / _handle_frame_sent).  *)
(* An observer over the events of a run; every clause is an enabling       *)
(* condition.  Per request r:                                              *)
(*   kind : "unicast" | "multicast" | "broadcast"                          *)
(*   dst, tag : destination and message tag (tag known from its first      *)
(*              enqueue command)                                           *)
(*   st   : "started" | "enqueued" (the NCP accepted it) | "finished"      *)
(*   enq  : enqueue attempts so far;  lastEnq : status class of the last   *)
(*          NCP answer ("none" | "ok" | "busy" | "refuse")                 *)
(*   tEnq : time of the last enqueue answer;  tAcc : time it was accepted  *)
(*   okConf / badConf : a confirmation for (dst, tag) reporting success /  *)
(*          failure arrived after the request started                      *)
(* NCP command log discipline: set-up commands (source route, extended     *)
(* timeout) name a target; a set-up command for target X must be followed, *)
(* after further set-up commands for X only, by the send to X.             *)
(***************************************************************************)
EXTENDS Integers, Sequences, FiniteSets

(* configuration carried in the state: s.delays = delays in ms between enqueue attempts on a busy NCP,   *)
(* s.ct = ms to wait for the delivery confirmation (both read from the tree by the harness)               *)

NewReq(kind, dst, t) == [kind |-> kind, dst |-> dst, tag |-> 0 - 1, st |-> "started", enq |-> 0, lastEnq |-> "none",
                         tEnq |-> t, tAcc |-> 0 - 1, okConf |-> FALSE, badConf |-> FALSE, t0 |-> t, su |-> FALSE, canc |-> FALSE]
(* s.n counts the set-up and enqueue commands the NCP has seen; s.last[x] = number of the last one that concerned target x *)
Touch(s, x) == [s EXCEPT !.n = s.n + 1,
                         !.last = [y \in (DOMAIN s.last) \cup {x} |-> IF y = x THEN s.n + 1 ELSE s.last[y]]]
LastSetup(s, x) == IF x \in DOMAIN s.last THEN s.last[x] ELSE 0
(* some command concerning another target reached the NCP after the last command concerning x *)
OtherSince(s, x) == \E y \in DOMAIN s.last : y # x /\ s.last[y] > LastSetup(s, x)
SInitWith(delays, ct) == [reqs |-> <<>>, setup |-> 0 - 1, delays |-> delays, ct |-> ct, n |-> 0, last |-> <<>>]
MaxEnq(s) == Len(s.delays)

Has(s, r) == r \in DOMAIN s.reqs
Put(s, r, v) == [s EXCEPT !.reqs = [x \in (DOMAIN s.reqs) \cup {r} |-> IF x = r THEN v ELSE s.reqs[x]]]

Start(s, r, kind, dst, t) == Put(s, r, NewReq(kind, dst, t))

(* a set-up command for target x reaches the NCP: no other target's block may be open *)
SetupOk(s, x) == /\ s.setup \in {0 - 1, x}
                 /\ \E r \in DOMAIN s.reqs : s.reqs[r].dst = x /\ s.reqs[r].st # "finished"     \* on behalf of a request still in progress
Setup(s, x) == [Touch(s, x) EXCEPT !.setup = x]

(* the enqueue command of request r reaches the NCP (tag as seen on the wire), answered with class `ans` at time t *)
EnqueueOk(s, r, x, tag, t) ==
    /\ Has(s, r) /\ s.reqs[r].st = "started"
    /\ s.setup \in {0 - 1, x}                                   \* closes the block of its own target only
    (* a request that was given set-up commands is not sent with ANOTHER request's set-up or send between its own set-up and its   *)
    (* send: a retried enqueue without an open block of its own is only acceptable if nothing concerning another target came since *)
    /\ (s.setup = 0 - 1 /\ s.reqs[r].su) => ~OtherSince(s, x)
    /\ s.reqs[r].dst = x
    /\ s.reqs[r].tag \in {0 - 1, tag}                           \* the same tag on every attempt
    /\ s.reqs[r].enq < MaxEnq(s)                                   \* bounded number of attempts
    /\ s.reqs[r].lastEnq \in {"none", "busy"}
    /\ (s.reqs[r].lastEnq = "busy" => t >= s.reqs[r].tEnq + s.delays[s.reqs[r].enq])   \* spaced retries
Enqueue(s, r, tag, ans, t) ==
    LET q == s.reqs[r] IN
    [Touch(Put(s, r, [q EXCEPT !.tag = tag, !.enq = q.enq + 1, !.lastEnq = ans, !.tEnq = t,
                               !.st = IF ans = "ok" THEN "enqueued" ELSE "started",
                               !.tAcc = IF ans = "ok" THEN t ELSE q.tAcc,
                               !.su = @ \/ s.setup = q.dst]), q.dst)       \* su: this request has been given set-up commands
     EXCEPT !.setup = 0 - 1]

(* a delivery confirmation arrives: it concerns exactly the requests with that destination and tag that are in progress *)
(* (one that arrives when the wait for it has already timed out no longer counts)                                *)
Confirm(s, dst, tag, ok, t) ==
    [s EXCEPT !.reqs = [r \in DOMAIN s.reqs |->
        IF s.reqs[r].st # "finished" /\ s.reqs[r].dst = dst /\ s.reqs[r].tag = tag /\ s.reqs[r].kind = "unicast"
           /\ ~(s.reqs[r].st = "enqueued" /\ t >= s.reqs[r].tAcc + s.ct)
        THEN [s.reqs[r] EXCEPT !.okConf = @ \/ (ok /\ ~s.reqs[r].badConf), !.badConf = @ \/ (~ok /\ ~s.reqs[r].okConf)]
        ELSE s.reqs[r]]]

(* the caller of request r is cancelled (an outcome like any other: the request ends, nothing of it may remain) *)
CancelReq(s, r) == IF Has(s, r) /\ s.reqs[r].st # "finished" THEN Put(s, r, [s.reqs[r] EXCEPT !.canc = TRUE]) ELSE s

(* send_packet ends with outcome o: "ok" | "DeliveryError" | "TimeoutError" | "CancelledError" (only if its caller was cancelled) *)
FinishOk(s, r, o, t) ==
    /\ Has(s, r) /\ s.reqs[r].st # "finished"
    /\ LET q == s.reqs[r] IN
       CASE o = "ok" ->
              /\ q.st = "enqueued"                                            \* the NCP accepted the message
              /\ (q.kind = "unicast" => q.okConf)                             \* and its own confirmation reported success
         [] o = "DeliveryError" ->
              \/ q.lastEnq = "refuse"                                         \* refused
              \/ (q.lastEnq = "busy" /\ q.enq = MaxEnq(s) /\ t >= q.tEnq + s.delays[MaxEnq(s)])   \* still busy after the spaced retries
              \/ (q.st = "enqueued" /\ q.kind = "unicast" /\ q.badConf)       \* confirmed failure
         [] o = "TimeoutError" ->
              /\ q.st = "enqueued" /\ q.kind = "unicast" /\ ~q.okConf /\ ~q.badConf
              /\ t = q.tAcc + s.ct                                  \* no confirmation within the timeout
         [] o = "CancelledError" -> q.canc
         [] OTHER -> FALSE
(* a request that ends inside its own set-up block (cancelled between two set-up commands, set-up command failing) takes the block with it: *)
(* nothing of it may follow                                                                                                                *)
Finish(s, r) == [Put(s, r, [s.reqs[r] EXCEPT !.st = "finished"]) EXCEPT !.setup = IF s.setup = s.reqs[r].dst THEN 0 - 1 ELSE s.setup]

(* a request whose outcome is decided must end promptly: an accepted multicast / broadcast at once, a unicast when its *)
(* confirmation has arrived, a refusal at once                                                                         *)
AllFinished(s) == \A r \in DOMAIN s.reqs : s.reqs[r].st = "finished"
=============================================================================
