------------------------------ MODULE StackMC ------------------------------
(***************************************************************************)
(* The whole host stack (Stack.tla = EzspCmd over Gateway over AshHost)    *)
(* against a faulty FIFO serial line and a conforming NCP (AshNcp.tla      *)
(* carrying an EZSP layer that answers every command frame it is handed    *)
(* with the same sequence number and a value derived from it, and may send *)
(* unsolicited callbacks, an ERROR frame, or lose the connection).         *)
(* End-to-end statements checked on every reachable state:                 *)
(*   OwnResponse     a call that returns normally returns the value the    *)
(*                   NCP computed for the request carrying ITS sequence    *)
(*                   number (C06 through C01's faulty line)                *)
(*   NcpInOrder      the NCP's EZSP layer sees the command frames in the   *)
(*                   order they were handed to the link, each at most once *)
(*   CallbacksOnce   every unsolicited callback reaches the callbacks at   *)
(*                   most once, and exactly once when the line is quiet    *)
(*   StoppedAfterRequest / SilentAfterRequest  once the application was    *)
(*                   asked to reset the controller, EZSP is stopped and no *)
(*                   DATA frame is written any more (C10)                  *)
(*   RequestOnlyOnFailure   no request without an ERROR / loss / exhausted *)
(*                   retry budget                                          *)
(*   SyncRefinesCmd  the code's frame handling is one of the behaviours    *)
(*                   EzspCmd allows                                        *)
(*   AllCallsEnd     (liveness, fair timers and line) every issued call    *)
(*                   returns or raises                                     *)
(***************************************************************************)
EXTENDS Stack, AshNcp, TLC

CONSTANTS NCalls,        \* number of command calls (ids 1..NCalls)
          CmdOf,         \* call id -> command name
          MaxFaults,     \* line-fault budget
          MaxCb,         \* unsolicited callbacks the NCP may send
          MaxCancel,     \* caller cancellations
          Failures       \* subset of {"error", "lost"} the environment may inject (once)

VARIABLES s, n, h2n, n2h, faults, issued, outc, seqOf, order, ncpRx, ncbs, cbSeen, canc, failed, badWrite, badSync
vars == <<s, n, h2n, n2h, faults, issued, outc, seqOf, order, ncpRx, ncbs, cbSeen, canc, failed, badWrite, badSync>>

(* configuration: NoCur <- McNoCur.  AshHost's idle send slot carries the payload placeholder 0; here payloads are records, *)
(* and TLC compares whole states when it evaluates the fairness conditions, so the placeholder must be a record too          *)
McNoCur == [id |-> 0, num |-> 0, pl |-> [seq |-> 0, cmd |-> "", lay |-> ""], att |-> 0, wake |-> "none"]
DefaultCmds == <<"getNodeId", "nop", "readCounters", "sendUnicast">>     \* CmdOf <- DefaultCmds in the configuration
None == [res |-> "none", val |-> 0]
ValOf(seq) == 100 + seq
NcpVersion == 8

Init == /\ s = [SInit EXCEPT !.run = TRUE, !.reg = TRUE, !.hv = 8, !.lay = Layout(8)]
        /\ n = NInit /\ h2n = <<>> /\ n2h = <<>> /\ faults = 0 /\ issued = 0
        /\ outc = [c \in 1 .. NCalls |-> None] /\ seqOf = [c \in 1 .. NCalls |-> 0 - 1]
        /\ order = <<>> /\ ncpRx = <<>> /\ ncbs = 0 /\ cbSeen = 0 /\ canc = {} /\ failed = "no"
        /\ badWrite = FALSE /\ badSync = FALSE

Sel(out, k) == SelectSeq(out, LAMBDA o : o.o = k)
WritesOf(out) == LET w == Sel(out, "write") IN [i \in 1 .. Len(w) |-> w[i].f]
HasWildF(fs) == \E i \in 1 .. Len(fs) : fs[i].type = "ACKorNAK"
ResolveF(fs, ty) == [i \in 1 .. Len(fs) |-> IF fs[i].type = "ACKorNAK" THEN [fs[i] EXCEPT !.type = ty] ELSE fs[i]]

(* apply the result r of a host-stack step: bytes go on the line, outcomes and callbacks are recorded *)
HostTake(r) ==
    /\ s' = r.s
    /\ \E ty \in (IF HasWildF(WritesOf(r.out)) THEN {"ACK", "NAK"} ELSE {"ACK"}) :
          h2n' = h2n \o [i \in 1 .. Len(Sel(r.out, "rst")) |-> [type |-> "RST"]] \o ResolveF(WritesOf(r.out), ty)
    /\ outc' = [c \in 1 .. NCalls |->
                  LET d == SelectSeq(r.out, LAMBDA o : o.o = "cdone" /\ o.c = c)
                  IN IF d # <<>> /\ c \notin canc THEN [res |-> d[1].res, val |-> d[1].val] ELSE outc[c]]
    /\ cbSeen' = cbSeen + Len(Sel(r.out, "cb"))
    /\ badWrite' = (badWrite \/ (s.req > 0 /\ \E i \in 1 .. Len(WritesOf(r.out)) : WritesOf(r.out)[i].type = "DATA"))
    /\ LET st == Sel(r.out, "sent") IN
         /\ order' = order \o [i \in 1 .. Len(st) |-> st[i].seq]
         /\ seqOf' = [c \in 1 .. NCalls |->
                        IF \E i \in 1 .. Len(st) : st[i].c = c
                        THEN st[CHOOSE i \in 1 .. Len(st) : st[i].c = c].seq ELSE seqOf[c]]

(* apply the result of an NCP ASH step: frames go on the line, payloads handed up reach the NCP's EZSP layer, *)
(* which answers each command frame at once with the same sequence number                                    *)
RECURSIVE Answer(_, _, _)
Answer(nn, ups, out) ==
    IF ups = <<>> THEN R(nn, out)
    ELSE LET pl == Head(ups)
             r == NSubmitFn(nn, [seq |-> pl.seq, cmd |-> pl.cmd, val |-> IF pl.cmd = "version" THEN NcpVersion ELSE ValOf(pl.seq)])
         IN Answer(r.h, Tail(ups), out \o r.out)
NcpTake(r) ==
    LET ups == LET u == Sel(r.out, "up_data") IN [i \in 1 .. Len(u) |-> u[i].pl]
        a == Answer(r.h, ups, <<>>)
    IN /\ n' = a.h
       /\ n2h' = n2h \o WritesOf(r.out) \o WritesOf(a.out)
       /\ ncpRx' = ncpRx \o [i \in 1 .. Len(ups) |-> ups[i].seq]

HostUnch == UNCHANGED <<s, h2n, outc, seqOf, order, cbSeen, badWrite>>
NcpUnch == UNCHANGED <<n, n2h, ncpRx>>

Call == /\ issued < NCalls /\ issued' = issued + 1
        /\ HostTake(SCall(s, issued + 1, CmdOf[issued + 1], 0))
        /\ NcpUnch /\ UNCHANGED <<faults, ncbs, canc, failed, badSync>>
Cancel(c) == /\ c \in 1 .. issued /\ outc[c] = None /\ c \notin canc /\ Cardinality(canc) < MaxCancel
             /\ canc' = canc \cup {c}
             /\ HostTake(SCancel(s, c, 0))
             /\ NcpUnch /\ UNCHANGED <<faults, issued, ncbs, failed, badSync>>
HTick == /\ TimerEnabled(s.g.h) /\ HostTake(STick(s, 0))
         /\ NcpUnch /\ UNCHANGED <<faults, issued, ncbs, canc, failed, badSync>>
CmdTimer == /\ TimeoutEnabled(s.p) /\ HostTake(SCmdTimeout(s, 0))
              /\ NcpUnch /\ UNCHANGED <<faults, issued, ncbs, canc, failed, badSync>>
NTimer == /\ NTimerEnabled(n) /\ Len(n2h) <= 2 /\ NcpTake(NTimerFn(n))
          /\ HostUnch /\ UNCHANGED <<faults, issued, ncbs, canc, failed, badSync>>
NcpCallback == /\ ncbs < MaxCb /\ ncbs' = ncbs + 1
               /\ NcpTake(NSubmitFn(n, [seq |-> IF ncpRx = <<>> THEN 0 ELSE ncpRx[Len(ncpRx)], cmd |-> "stackStatusHandler", val |-> 7]))
               /\ HostUnch /\ UNCHANGED <<faults, issued, canc, failed, badSync>>

Garbage == [type |-> "GARBAGE"]
ToHost(fault) ==
    /\ n2h # <<>> /\ s.g.up
    /\ fault # "deliver" => faults < MaxFaults
    /\ faults' = IF fault = "deliver" THEN faults ELSE faults + 1
    /\ LET f == Head(n2h) IN
         CASE fault = "drop"    -> /\ n2h' = Tail(n2h) /\ HostUnch /\ UNCHANGED badSync
           [] fault = "deliver" -> /\ n2h' = Tail(n2h) /\ HostTake(SRecv(s, <<f>>, 0))
                                   /\ badSync' = (badSync \/ (f.type = "DATA" /\ f.frm = s.g.h.rx /\ ~SyncRefines(s.p, f.pl, 0)))
           [] fault = "corrupt" -> /\ n2h' = Tail(n2h) /\ HostTake(SRecv(s, <<Garbage>>, 0)) /\ UNCHANGED badSync
           [] fault = "dup"     -> /\ UNCHANGED n2h /\ HostTake(SRecv(s, <<f>>, 0)) /\ UNCHANGED badSync
    /\ UNCHANGED <<n, ncpRx, issued, ncbs, canc, failed>>
ToNcp(fault) ==
    /\ h2n # <<>> /\ Head(h2n).type # "RST"
    /\ fault # "deliver" => faults < MaxFaults
    /\ faults' = IF fault = "deliver" THEN faults ELSE faults + 1
    /\ LET f == Head(h2n) IN
         CASE fault = "drop"    -> /\ h2n' = Tail(h2n) /\ UNCHANGED <<n, n2h, ncpRx>>
           [] fault = "deliver" -> /\ h2n' = Tail(h2n) /\ NcpTake(NRecvFn(n, f))
           [] fault = "corrupt" -> /\ h2n' = Tail(h2n) /\ NcpTake(NRecvFn(n, Garbage))
           [] fault = "dup"     -> /\ UNCHANGED h2n /\ NcpTake(NRecvFn(n, f))
    /\ UNCHANGED <<s, outc, seqOf, order, cbSeen, badWrite, issued, ncbs, canc, failed, badSync>>

(* the NCP reads an RST frame: it restarts and announces RSTACK(software reset) *)
NcpReset == /\ h2n # <<>> /\ Head(h2n).type = "RST"
            /\ h2n' = Tail(h2n) /\ n' = NInit
            /\ n2h' = Append(n2h, [type |-> "RSTACK", ver |-> 2, code |-> SoftwareReset])
            /\ UNCHANGED <<s, outc, seqOf, order, cbSeen, badWrite, issued, ncbs, canc, failed, badSync, faults, ncpRx>>
(* the NCP fails: it sends an ERROR frame (and stops) / the connection is lost *)
NcpError == /\ "error" \in Failures /\ failed = "no" /\ failed' = "error"
            /\ n2h' = Append(n2h, [type |-> "ERROR", ver |-> 2, code |-> 2])
            /\ HostUnch /\ UNCHANGED <<n, ncpRx, faults, issued, ncbs, canc, badSync>>
Lost == /\ "lost" \in Failures /\ failed = "no" /\ failed' = "lost" /\ s.g.up
        /\ HostTake(SLost(s, 0)) /\ n2h' = <<>>
        /\ UNCHANGED <<n, ncpRx, faults, issued, ncbs, canc, badSync>>

(* the fault-free deliveries are written out without CASE: TLC evaluates ENABLED of them for the fairness conditions *)
THDeliver == /\ n2h # <<>> /\ s.g.up
             /\ n2h' = Tail(n2h) /\ HostTake(SRecv(s, <<Head(n2h)>>, 0))
             /\ badSync' = (badSync \/ (Head(n2h).type = "DATA" /\ Head(n2h).frm = s.g.h.rx /\ ~SyncRefines(s.p, Head(n2h).pl, 0)))
             /\ UNCHANGED <<n, ncpRx, issued, ncbs, canc, failed, faults>>
THDrop    == ToHost("drop")
THCorrupt == ToHost("corrupt")
THDup     == ToHost("dup")
TNDeliver == /\ h2n # <<>> /\ Head(h2n).type # "RST"
             /\ h2n' = Tail(h2n) /\ NcpTake(NRecvFn(n, Head(h2n)))
             /\ UNCHANGED <<s, outc, seqOf, order, cbSeen, badWrite, issued, ncbs, canc, failed, badSync, faults>>
TNDrop    == ToNcp("drop")
TNCorrupt == ToNcp("corrupt")
TNDup     == ToNcp("dup")
CancelAny == \E c \in 1 .. NCalls : Cancel(c)
Next == \/ NcpReset \/ Call \/ CancelAny \/ HTick \/ CmdTimer \/ NTimer \/ NcpCallback \/ NcpError \/ Lost
        \/ THDeliver \/ THDrop \/ THCorrupt \/ THDup \/ TNDeliver \/ TNDrop \/ TNCorrupt \/ TNDup
Spec == Init /\ [][Next]_vars
FairSpec == Spec /\ WF_vars(HTick) /\ WF_vars(CmdTimer) /\ WF_vars(NTimer) /\ WF_vars(THDeliver) /\ WF_vars(TNDeliver) /\ WF_vars(Call)

LineBound == Len(h2n) <= 4 /\ Len(n2h) <= 4

(* ---- properties --------------------------------------------------------- *)
OwnResponse == \A c \in 1 .. NCalls : outc[c].res = "ok" => (seqOf[c] >= 0 /\ outc[c].val = ValOf(seqOf[c]))
IsSubseqOf(a, b) == \E f \in [1 .. Len(a) -> 1 .. Len(b)] :
                       /\ \A i \in 1 .. Len(a) : a[i] = b[f[i]]
                       /\ \A i \in 1 .. Len(a) - 1 : f[i] < f[i + 1]
NcpInOrder == IsSubseqOf(ncpRx, order)
CallbacksAtMostOnce == cbSeen <= ncbs + Cardinality({c \in 1 .. NCalls : outc[c].res \in {"timeout", "cancelled"} \/ c \in canc})
StoppedAfterRequest == s.req > 0 => (~s.run /\ ~s.open)
SilentAfterRequest == ~badWrite
RequestOnlyOnFailure == s.req > 0 => (failed # "no" \/ s.g.h.st = "FAILED")
SyncRefinesCmd == ~badSync
NotRunningRaises == \A c \in 1 .. NCalls : outc[c].res = "notrunning" => (s.req > 0 \/ ~s.run)
AllCallsEnd == \A c \in 1 .. NCalls : (issued >= c) ~> (outc[c] # None \/ c \in canc)
=============================================================================
