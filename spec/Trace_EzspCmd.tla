---------------------------- MODULE Trace_EzspCmd ----------------------------
(* Code -> spec binding for C06 (and the containment part of C08): recorded  *)
(* executions of the real EZSP / ProtocolHandler on a fake gateway must be   *)
(* behaviours of EzspCmd.tla: what is handed to the link layer (sequence     *)
(* number and frame ID decoded by the harness's own header decoder), what    *)
(* every call returns or raises and when, and what reaches the callbacks.    *)
EXTENDS EzspCmd, EzspCodec, Json, IOUtils, TLCExt, TLC, Integers

Traces == JsonDeserialize(IOEnv.TRACE_FILE)
VARIABLES p, inflight, tid, l
tvars == <<p, inflight, tid, l>>
Tr == Traces[tid]
TInit == tid \in 1 .. Len(Traces) /\ l = 1 /\ p = PInit /\ inflight = {}

Take(e, r) ==
    /\ e.out = r.out
    /\ p' = r.p
    /\ LET sents == SelectSeq(e.out, LAMBDA o : o.o = "sent")
           dones == SelectSeq(e.out, LAMBDA o : o.o = "done") IN
         inflight' = (inflight \cup {sents[i].c : i \in 1 .. Len(sents)}) \ {dones[i].c : i \in 1 .. Len(dones)}

(* ---- C08: arbitrary bytes arriving as an EZSP frame ------------------------------------ *)
(* e.raw   : the bytes;  e.ver : active protocol version                                    *)
(* e.cbid  : frame ID of the command name a callback was invoked with (-1 if none)           *)
(* e.reenc : re-encoding of the values handed to that callback                               *)
(* e.ids   : frame IDs of the active version's table;  e.icid : ID of invalidCommand         *)
(* e.nvals / e.nfields : values handed to the callback / fields the frame's schema declares  *)
(* The frame may: do nothing; drop a registration with its sequence number; reach the        *)
(* callbacks if it carries a known ID and its payload starts with the encoding of the values *)
(* handed over; complete the pending call only if sequence number AND frame ID are that      *)
(* call's own.                                                                               *)
IsPrefix2(a, b) == Len(a) <= Len(b) /\ SubSeq(b, 1, Len(a)) = a
(* named deviation of the code (EmberKeyStruct.deserialize): a 24-byte key structure sent by faulty firmware is *)
(* accepted as if 12 zero bytes stood after its 7th byte - the re-encoding is the payload with 12 zeros inserted *)
Zeros12 == <<0, 0, 0, 0, 0, 0, 0, 0, 0, 0, 0, 0>>
DecodesAs(reenc, pay) ==
    \/ IsPrefix2(reenc, pay)
    \/ \E k \in 0 .. Len(pay) : IsPrefix2(reenc, SubSeq(pay, 1, k) \o Zeros12 \o SubSeq(pay, k + 1, Len(pay))) /\ Len(reenc) >= k + 12
MalAlts(e) ==
    LET lay  == Layout(e.ver)
        hl   == IF lay = "legacy3" THEN 3 ELSE 5
        ok   == Len(e.raw) >= hl
        h    == IF ok THEN ParseRx(lay, e.raw) ELSE <<IF Len(e.raw) >= 1 THEN e.raw[1] ELSE 0, 0 - 1, hl>>
        sq   == h[1]
        fid  == h[2]
        pay  == IF ok THEN SubSeq(e.raw, hl + 1, Len(e.raw)) ELSE <<>>
        p1   == IF sq \in DOMAIN p.aw THEN [p EXCEPT !.aw = AwDel(p.aw, sq)] ELSE p
        cbs  == SelectSeq(e.out, LAMBDA o : o.o = "cb")
        dns  == SelectSeq(e.out, LAMBDA o : o.o = "done")
        cbOk == ok /\ Len(cbs) = 1 /\ fid \in ToSet(e.ids) /\ e.cbid = fid /\ DecodesAs(e.reenc, pay)
                   /\ e.nvals = e.nfields          \* one value per declared field of that frame
        own  == ok /\ sq \in DOMAIN p.aw /\ p.aw[sq].live /\ p.hold.c = p.aw[sq].c /\ p.hold.ph = "waiting"
    IN  {PR(p, <<>>), PR(p1, <<>>)}
        \cup (IF cbOk THEN {PR(p, <<cbs[1]>>), PR(p1, <<cbs[1]>>)} ELSE {})
        \cup (IF own /\ fid = e.pid /\ Len(dns) >= 1 /\ dns[1].res = "ok"
              THEN {Grant([p1 EXCEPT !.hold = NoHold], <<DoneR(p.hold.c, "ok", dns[1].val)>>, e.modes, e.t)} ELSE {})
        \cup (IF own /\ fid = e.icid /\ Len(dns) >= 1 /\ dns[1].res = "invalid"
              THEN {Grant([p1 EXCEPT !.hold = NoHold], <<DoneR(p.hold.c, "invalid", 0)>>, e.modes, e.t)} ELSE {})

TNext ==
  /\ l <= Len(Tr)
  /\ LET e == Tr[l] IN
       \/ e.a = "call" /\ Take(e, CallFn(p, e.c, e.cmd, e.modes, e.t))
       \/ e.a = "sendres" /\ Take(e, SendResFn(p, e.ok = 1, e.modes, e.t))
       \/ e.a = "tick" /\ TimeoutEnabled(p) /\ e.t = p.hold.t0 + CmdTimeout /\ Take(e, TimeoutFn(p, e.modes, e.t))
       \* a timer of the loop fired and nothing observable happened while the model has no timeout due: stuttering
       \/ e.a = "tick" /\ e.out = <<>> /\ ~(TimeoutEnabled(p) /\ e.t >= p.hold.t0 + CmdTimeout)
                        /\ ~(OrphTimeoutEnabled(p) /\ e.t >= p.orph.t0 + CmdTimeout) /\ UNCHANGED <<p, inflight>>
       \/ e.a = "tick" /\ OrphTimeoutEnabled(p) /\ e.t = p.orph.t0 + CmdTimeout /\ ~TimeoutEnabled(p) /\ Take(e, OrphTimeoutFn(p))
       \/ e.a = "swap" /\ SwapEnabled(p) /\ Take(e, SwapFn(p))
       \/ e.a = "cancel" /\ p.orph.c = e.c /\ p.orph.c # 0 /\ Take(e, OrphCancelFn(p))
       \/ e.a = "cancel" /\ p.orph.c # e.c /\ Take(e, CancelFn(p, e.c, e.modes, e.t))
       \/ e.a = "frame" /\ e.raised = 0 /\
             \E alt \in FrameAlts(p, [seq |-> e.seq, cmd |-> e.cmd, val |-> e.val], e.modes, e.t) : Take(e, alt)
       \/ e.a = "mal" /\ e.raised = 0 /\ \E alt \in MalAlts(e) : Take(e, alt)
       \/ e.a = "end" /\ e.pending = <<>> /\ p.hold.c = 0 /\ p.wq = <<>> /\ p.orph.c = 0 /\ UNCHANGED <<p, inflight>>
  /\ l' = l + 1 /\ UNCHANGED tid
TSpec == TInit /\ [][TNext]_tvars

OneInFlight == Cardinality(inflight) <= 1
QueueSorted == \A i \in 1 .. Len(p.wq) - 1 :
                  \/ p.wq[i].pr > p.wq[i + 1].pr
                  \/ (p.wq[i].pr = p.wq[i + 1].pr /\ p.wq[i].tk < p.wq[i + 1].tk)

Progress == TLCSet(1, [TLCGet(1) EXCEPT ![tid] = IF @ < l THEN l ELSE @])
Post == /\ PrintT(<<"BVPROGRESS", TLCGet(1)>>)
        /\ \A i \in 1 .. Len(Traces) : TLCGet(1)[i] = Len(Traces[i]) + 1
ASSUME TLCSet(1, [i \in 1 .. Len(Traces) |-> 0])
=============================================================================
