---------------------------- MODULE Trace_EzspCmd ----------------------------
(* Code -> spec binding for C06 (and the containment part of C08): recorded  *)
(* executions of the real EZSP / ProtocolHandler on a fake gateway must be   *)
(* behaviours of EzspCmd.tla: what is handed to the link layer (sequence     *)
(* number and frame ID decoded by the harness's own header decoder), what    *)
(* every call returns or raises and when, and what reaches the callbacks.    *)
EXTENDS EzspCmd, Json, IOUtils, TLCExt, TLC, Integers

Traces == JsonDeserialize(IOEnv.TRACE_FILE)
VARIABLES p, inflight, tid, l
tvars == <<p, inflight, tid, l>>
Tr == Traces[tid]
TInit == tid \in 1 .. Len(Traces) /\ l = 1 /\ p = PInit /\ inflight = {}

Take(e, r) ==
    /\ e.out = r.out
    /\ p' = r.p
    /\ LET sents == SelectSeq(e.out, LAMBDA o : o.o = "sent")
           dones == SelectSeq(e.out, LAMBDA o : o.o = "done") IN
         inflight' = (inflight \cup {sents[i].c : i \in 1 .. Len(sents)}) \ {dones[i].c : i \in 1 .. Len(dones)}

TNext ==
  /\ l <= Len(Tr)
  /\ LET e == Tr[l] IN
       \/ e.a = "call" /\ Take(e, CallFn(p, e.c, e.cmd, e.modes, e.t))
       \/ e.a = "sendres" /\ Take(e, SendResFn(p, e.ok = 1, e.modes, e.t))
       \/ e.a = "tick" /\ TimeoutEnabled(p) /\ e.t = p.hold.t0 + CmdTimeout /\ Take(e, TimeoutFn(p, e.modes, e.t))
       \/ e.a = "cancel" /\ Take(e, CancelFn(p, e.c, e.modes, e.t))
       \/ e.a = "frame" /\ e.raised = 0 /\
             \E alt \in FrameAlts(p, [seq |-> e.seq, cmd |-> e.cmd, val |-> e.val], e.modes, e.t) : Take(e, alt)
       \/ e.a = "junk" /\ e.raised = 0 /\ e.out = <<>> /\ UNCHANGED <<p, inflight>>   \* undecodable / unknown frame: contained
       \/ e.a = "end" /\ e.pending = <<>> /\ p.hold.c = 0 /\ p.wq = <<>> /\ UNCHANGED <<p, inflight>>
  /\ l' = l + 1 /\ UNCHANGED tid
TSpec == TInit /\ [][TNext]_tvars

OneInFlight == Cardinality(inflight) <= 1
QueueSorted == \A i \in 1 .. Len(p.wq) - 1 :
                  \/ p.wq[i].pr > p.wq[i + 1].pr
                  \/ (p.wq[i].pr = p.wq[i + 1].pr /\ p.wq[i].tk < p.wq[i + 1].tk)

Progress == TLCSet(1, [TLCGet(1) EXCEPT ![tid] = IF @ < l THEN l ELSE @])
Post == /\ PrintT(<<"BVPROGRESS", TLCGet(1)>>)
        /\ \A i \in 1 .. Len(Traces) : TLCGet(1)[i] = Len(Traces[i]) + 1
ASSUME TLCSet(1, [i \in 1 .. Len(Traces) |-> 0])
=============================================================================
