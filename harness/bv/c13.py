"""C13 - incoming NCP callbacks are translated faithfully for every protocol version.

spec/Incoming.tla is the mapping (message type -> packet with source, endpoints, profile, cluster, APS sequence,
payload, LQI, signed RSSI and type-dependent destination; trust-centre join -> join / leave / nothing).  The harness's
own byte-level encoder builds incomingMessageHandler / trustCenterJoinHandler frames in the version's field order and
header layout and feeds them through EZSP.frame_received into the real ControllerApplication; TLC judges what zigpy
received (Trace_Incoming)."""
from __future__ import annotations

import random

from . import apprig, ncp_ezsp, vloop
from .c04 import pmap
from .core import Ctx

ID_INCOMING = 0x45
ID_TCJOIN = 0x24
ORDER_OLD = ["type", "aps", "lqi", "rssi", "sender", "bindingIndex", "addressIndex", "message"]
ORDER_V14 = ["type", "aps", "sender", "senderEui64", "bindingIndex", "addressIndex", "lqi", "rssi", "timestamp", "message"]


def u16(v):
    return bytes((v & 0xFF, (v >> 8) & 0xFF))


def encode_incoming(ver, cb, extra):
    """own encoder, from the EZSP reference: little-endian scalars, apsFrame = profile, cluster, srcEp, dstEp, options, group, sequence"""
    aps = u16(cb["profile"]) + u16(cb["cluster"]) + bytes((cb["srcEp"], cb["dstEp"])) + u16(extra["options"]) + u16(cb["group"]) + bytes((cb["apsSeq"],))
    parts = {
        "type": bytes((cb["type"],)), "aps": aps, "lqi": bytes((cb["lqi"],)), "rssi": bytes((cb["rssi"] & 0xFF,)),
        "sender": u16(cb["sender"]), "bindingIndex": bytes((extra["bindingIndex"],)), "addressIndex": bytes((extra["addressIndex"],)),
        "senderEui64": bytes(extra["eui64"]), "timestamp": extra["timestamp"].to_bytes(4, "little"),
        "message": bytes((len(cb["msg"]),)) + bytes(cb["msg"]),
    }
    order = ORDER_V14 if ver >= 14 else ORDER_OLD
    return b"".join(parts[k] for k in order), order


def encode_join(cb):
    return u16(cb["nwk"]) + bytes(cb["ieee"]) + bytes((cb["status"], cb["decision"])) + u16(cb["parent"])


def run_version(args):
    ver, n, seed = args[:3]
    conn = args[3] if len(args) > 3 else 0       # 0: application attached by the rig; k >= 1: the k-th connection made by the application's own
    rng = random.Random(seed * 31 + ver)         # connect() / start_network() (disconnect() in between) on the same application object

    async def main(loop):
        import zigpy.types as zt
        if conn == 0:
            app, ezsp, gw, ncp = await apprig.make_app(loop, ver)
        else:
            life = apprig.Lifecycle(loop, ver)
            app = life.app
            for k in range(conn):
                r = await life.run(app.connect)
                if k == 0 and not r:
                    await life.form()
                r = r or await life.run(app.start_network, 120)
                if r:
                    raise RuntimeError(f"rig: bring-up of connection {k + 1} failed: {r}")
                if k < conn - 1:
                    await app.disconnect()
                    life.store.running = False
            ezsp = app._ezsp
        own = 0x4321
        app.state.node_info.nwk = zt.NWK(own)
        got_p, got_j = [], []

        def packet_received(pkt):
            kind = {zt.AddrMode.NWK: "nwk", zt.AddrMode.Group: "group", zt.AddrMode.Broadcast: "broadcast"}.get(pkt.dst.addr_mode, str(pkt.dst.addr_mode))
            got_p.append({"src": int(pkt.src.address), "srcEp": int(pkt.src_ep), "dstEp": int(pkt.dst_ep), "profile": int(pkt.profile_id),
                          "cluster": int(pkt.cluster_id), "tsn": int(pkt.tsn), "data": list(pkt.data.serialize()), "lqi": int(pkt.lqi),
                          "rssi": int(pkt.rssi), "dstKind": kind, "dstAddr": int(pkt.dst.address),
                          "srcKind": "nwk" if pkt.src.addr_mode == zt.AddrMode.NWK else "other"})
        app.packet_received = packet_received
        app.handle_join = lambda nwk, ieee, parent, *a, **k: got_j.append({"what": "join", "nwk": int(nwk), "ieee": list(ieee.serialize()), "parent": int(parent)})
        app.handle_leave = lambda nwk, ieee, *a, **k: got_j.append({"what": "leave", "nwk": int(nwk), "ieee": list(ieee.serialize()), "parent": -1})
        layout = ncp_ezsp.layout_of(ver)
        events = []
        seq = 0

        async def feed(payload, fid):
            nonlocal seq
            seq = (seq + 1) % 256
            frame = ncp_ezsp.make_header(layout, seq, fid, response=True, callback=True) + payload
            raised = 0
            try:
                ezsp.frame_received(frame)
            except BaseException:  # noqa
                raised = 1
            await apprig.settle(loop)
            return raised
        # message types: the defined ones (0..6) make up half of the callbacks, undefined values the rest
        types = list(range(256)) if n >= 256 else list(range(8)) + [rng.choice((0, 1, 2, 3, 4, 5, 6, rng.randrange(256), rng.randrange(256), rng.randrange(7, 256),
                                                                                rng.randrange(256), rng.randrange(256), rng.randrange(256), 4))
                                                                    for _ in range(max(0, n - 8))]
        prev = None
        for i in range(n):
            if i and i % 7 == 0:
                # the node's own address changes (load_network_info replaces state.node_info): later unicasts are addressed to the new one
                import zigpy.state
                own = rng.choice((0x0000, 0x2B7C, 0xFFF7, rng.randrange(1, 0xFFF8)))
                old = app.state.node_info
                app.state.node_info = zigpy.state.NodeInfo(nwk=zt.NWK(own), ieee=old.ieee, logical_type=old.logical_type)
            ty = types[i % len(types)]
            ln = rng.choice((0, 1, 2, 5, 20, 60, 100))
            b16 = lambda: rng.choice((0, 1, 0xFFFF, 0xFFFE, 0x8000, own, rng.randrange(65536), rng.randrange(65536)))   # noqa: boundary values of every field
            b8 = lambda: rng.choice((0, 1, 255, 254, 128, rng.randrange(256), rng.randrange(256)))   # noqa
            cb = {"type": ty, "profile": b16(), "cluster": b16(), "srcEp": b8(), "dstEp": b8(),
                  "group": b16(), "apsSeq": b8(), "lqi": rng.choice((0, 1, 127, 128, 255, rng.randrange(256))),
                  "rssi": rng.choice((-128, -1, 0, 127, rng.randrange(-128, 128))), "sender": b16(),
                  "msg": [rng.randrange(256) for _ in range(ln)]}
            # every callback yields its own packet: repeats of an earlier callback (identical; same sender and APS sequence with another
            # cluster / payload; the same message under another type) interleaved with other traffic
            r = rng.random()
            if prev is not None and r < 0.12:
                cb = dict(prev)
            elif prev is not None and r < 0.24:
                cb = dict(cb, sender=prev["sender"], apsSeq=prev["apsSeq"], type=prev["type"])
            elif prev is not None and r < 0.30:
                cb = dict(prev, type=rng.choice((0, 2, 4, 5)))
            if rng.random() < 0.5 or prev is None:
                prev = dict(cb)
            extra = {"options": rng.randrange(65536), "bindingIndex": rng.randrange(256), "addressIndex": rng.randrange(256),
                     "eui64": [rng.randrange(256) for _ in range(8)], "timestamp": rng.randrange(2 ** 32)}
            payload, order = encode_incoming(ver, cb, extra)
            got_p.clear(); got_j.clear()
            raised = await feed(payload, ID_INCOMING)
            events.append({"a": "incoming", "ver": ver, "own": own, "order": order, "cb": cb, "raised": raised,
                           "packets": [dict(p) for p in got_p], "joins": list(got_j)})
        for i in range(max(40, n // 2)):
            st = i % 8 if i < 64 else rng.randrange(256)
            dec = (i // 8) % 4 if i < 64 else rng.choice((0, 1, 2, 3, rng.randrange(256)))
            bb = lambda: rng.choice((0, 0xFFFF, 0xFFFE, own, rng.randrange(65536), rng.randrange(65536)))   # noqa
            # devices whose address prefix triggers the temporary manufacturer-code override (a background task of 180 s): several in a row
            lumi = [rng.randrange(256) for _ in range(5)] + rng.choice(([0x8C, 0xCF, 0x04], [0x44, 0xEF, 0x54]))
            cb = {"nwk": bb(), "ieee": rng.choice(([0] * 8, [255] * 8, [rng.randrange(256) for _ in range(8)], [rng.randrange(256) for _ in range(8)], lumi, lumi)),
                  "status": st, "decision": dec, "parent": bb()}
            got_p.clear(); got_j.clear()
            raised = await feed(encode_join(cb), ID_TCJOIN)
            events.append({"a": "join", "ver": ver, "cb": cb, "raised": raised, "packets": [dict(p) for p in got_p], "joins": list(got_j)})
        return events
    return vloop.run(main)


def sig(meta, v, tr):
    e = tr[v.stuck_at - 1] if v.stuck_at and v.stuck_at <= len(tr) else {}
    cb = e.get("cb", {})
    return f"trace:Incoming:{e.get('a')}:v{'14' if e.get('ver', 0) >= 14 else 'pre14'}:type={cb.get('type', '')}:status={cb.get('status', '')}:decision={cb.get('decision', '')}"


def run(ctx: Ctx):
    ctx.model_check("IncomingMC", "MC_Incoming", invariants=("ExactlyOneOrNone", "DstKind", "JoinTriage"), coverage=False, workers=4)
    n = 120 if ctx.quick else 12000
    VERS = tuple(range(4, 15)) + (15, 16)        # NCPs newer than the newest known version run on the newest tables (and field order)
    res = pmap(_rv, [(v, n, ctx.seed) for v in VERS], procs=13, chunksize=1)
    traces, metas = [], []
    for ver, evs in zip(VERS, res):
        for i in range(0, len(evs), 30):
            traces.append(evs[i:i + 30])
            metas.append({"ver": ver, "chunk": i // 30})
    # the same callbacks with the application brought up by its own connect() / start_network(): on the first connection and on later ones
    # (disconnect() in between) of the same application object
    lc = [(v, 24 if ctx.quick else 400, ctx.seed + 1, conn) for v in VERS for conn in (1, 2, 3) if not ctx.quick or (v + conn) % 2 or conn == 2]
    for a, evs in zip(lc, pmap(_rv, lc, procs=11, chunksize=1)):
        for i in range(0, len(evs), 30):
            traces.append(evs[i:i + 30])
            metas.append({"ver": a[0], "chunk": i // 30, "conn": a[3], "n": a[1], "seed": a[2]})
    ctx.evaluations = sum(len(t) for t in traces)
    ctx.distinct_nontrivial = len({str(e["cb"]) + str(e["ver"]) for t in traces for e in t})
    ctx.rule = (f"per protocol version 4..14 and NCP versions 15, 16 (newest known tables): {n} incomingMessageHandler callbacks (all small message types plus random ones incl. undefined values; "
                "payload lengths 0..100; RSSI extremes -128/-1/0/127; random other fields; repeats of earlier callbacks - identical, or sharing sender and APS sequence - interleaved with other traffic) and trust-centre join callbacks over all status x decision "
                "combinations, encoded byte-level by the harness's own encoder in the version's field order; distinct = distinct (version, callback)")
    ctx.add_sample(traces[0][0])
    ctx.add_sample(next(e for e in traces[-1] if e["a"] == "join"))
    ctx.validate_traces("Trace_Incoming", traces, metas=metas, label="incoming", sig=sig)
    ctx.events_validated = ctx.evaluations
    # the wire layouts of the structures this procedure exchanges with the NCP, pinned from the EZSP reference (spec/WireLayout.tla)
    from . import wirelayout
    wirelayout.check(ctx, ['EmberApsFrame'])
    ctx.exhaustive = False
    ctx.assumptions += ["zigpy.util.Requests shim; the application's packet_received / handle_join / handle_leave are wrapped on the instance",
                        "frame IDs 0x45 / 0x24, field orders and enum codes pinned from the EZSP reference in the harness encoder and spec/Incoming.tla"]


def _rv(a):
    return run_version(a)


def replay(ctx: Ctx, data):
    m = data["replay"]["meta"]
    evs = run_version((m["ver"], m.get("n", 120), m.get("seed", data.get("seed", 0)), m.get("conn", 0)))
    ctx.validate_traces("Trace_Incoming", [evs], metas=[m], label="incoming", sig=sig)
    ctx.add_sample(evs[0])
