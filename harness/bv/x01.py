"""X01 (extension, not one of the listed properties) - the extended-timeout set-up decision tree.

spec/ExtTimeout.tla states, case by case, which commands EZSPvN.set_extended_timeout must issue for an NCP address-table
state and a request; ExtTimeoutMC checks for every small state that the allowed sequences achieve the request and disturb
nothing else.  The real method runs for every protocol version against a simulated NCP address table, several calls per
protocol handler (size caching); TLC judges each call (Trace_ExtTimeout)."""
from __future__ import annotations

import asyncio
import random

from . import ncp_ezsp, vloop
from .c04 import pmap
from .core import Ctx

LEVEL = "model_checking"
NAMES = {"a": "00:11:22:33:44:55:66:0a", "b": "00:11:22:33:44:55:66:0b", "c": "00:11:22:33:44:55:66:0c", "d": "00:11:22:33:44:55:66:0d"}


def run_case(case):
    ver, seed = case

    async def main(loop):
        rng = random.Random(seed)
        ezsp, gw, ncp = await ncp_ezsp.make_ezsp(loop, ver)
        t = ncp.t
        by_eui = {str(t.EUI64.convert(v)): k for k, v in NAMES.items()}
        size = rng.randint(1, 4)
        tbl = []
        pool = ["a", "b", "d"]
        rng.shuffle(pool)
        for i in range(size):
            tbl.append({"eui": pool.pop() if (pool and rng.random() < 0.6) else "free", "nwk": 0x1000 + i})
        ext = {e["eui"] for e in tbl if e["eui"] != "free" and rng.random() < 0.5}
        size_ok = rng.random() < 0.75
        cmds = []

        def name_of(x):
            return by_eui.get(str(x), "?")

        def h_get(n, a):
            e = name_of(a["remoteEui64"])
            cmds.append({"c": "getExtendedTimeout", "eui": e})
            return [t.Bool(e in ext)]

        def h_lookup(n, a):
            e = name_of(a["eui64"])
            cmds.append({"c": "lookupNodeIdByEui64", "eui": e})
            slot = next((x for x in tbl if x["eui"] == e), None)
            return [t.EmberNodeId(slot["nwk"] if slot else 0xFFFF)]

        def h_set(n, a):
            e = name_of(a["remoteEui64"])
            w = bool(a["extendedTimeout"])
            cmds.append({"c": "setExtendedTimeout", "eui": e, "want": int(w)})
            (ext.add if w else ext.discard)(e)
            return [ncp_ezsp.zero_value(ty) for ty in ncp.cmds["setExtendedTimeout"][2].values()]     # a status from version 14 on

        def h_replace(n, a):
            i = int(a["addressTableIndex"])
            e = name_of(a["newEui64"])
            w = bool(a["newExtendedTimeout"])
            cmds.append({"c": "replaceAddressTableEntry", "idx": i, "eui": e, "nwk": int(a["newId"]), "want": int(w)})
            rx = ncp.cmds["replaceAddressTableEntry"][2]
            st = list(rx.values())[0]
            if not 0 <= i < len(tbl):
                return [st(1), t.EUI64.convert("ff:ff:ff:ff:ff:ff:ff:ff"), t.EmberNodeId(0xFFFF), t.Bool(False)]
            old = tbl[i]
            ext.discard(old["eui"])
            tbl[i] = {"eui": e, "nwk": int(a["newId"])}
            (ext.add if w else ext.discard)(e)
            return [st(0), t.EUI64.convert(NAMES.get(old["eui"], "ff:ff:ff:ff:ff:ff:ff:ff")), t.EmberNodeId(old["nwk"]), t.Bool(False)]
        ncp.handlers["getExtendedTimeout"] = h_get
        ncp.handlers["lookupNodeIdByEui64"] = h_lookup
        ncp.handlers["setExtendedTimeout"] = h_set
        ncp.handlers["replaceAddressTableEntry"] = h_replace
        orig_gcv = ncp.cmd_getConfigurationValue

        def h_gcv(n, a):
            if int(a["configId"]) == int(t.EzspConfigId.CONFIG_ADDRESS_TABLE_SIZE):
                cmds.append({"c": "getConfigurationValue"})
                if not size_ok:
                    return [t.EzspStatus.ERROR_INVALID_ID, 0]
                return [t.EzspStatus.SUCCESS, len(tbl)]
            return orig_gcv(a)
        ncp.handlers["getConfigurationValue"] = h_gcv
        events = []
        for _ in range(rng.randint(2, 6)):
            eui = rng.choice(("a", "b", "c", "d"))
            want = rng.random() < 0.7
            nwk = rng.randrange(1, 0xFFF0)
            before = {"tbl": [dict(x) for x in tbl], "ext": sorted(ext), "sizeOk": int(size_ok)}
            cmds.clear()
            raised = ""
            try:
                task = asyncio.ensure_future(ezsp._protocol.set_extended_timeout(nwk=t.NWK(nwk), ieee=t.EUI64.convert(NAMES[eui]), extended_timeout=want))
                for _k in range(200):
                    await asyncio.sleep(0)
                    if task.done():
                        break
                if not task.done():
                    task.cancel()
                    raised = "hang"
                elif task.exception() is not None:
                    raised = type(task.exception()).__name__
            except BaseException as e:  # noqa
                raised = type(e).__name__
            events.append(dict(before, eui=eui, nwk=nwk, want=int(want), cmds=list(cmds), raised=raised, ver=ver))
        return events
    return vloop.run(main)


def sig(meta, v, tr):
    e = tr[v.stuck_at - 1] if v.stuck_at and v.stuck_at <= len(tr) else {}
    return f"trace:ExtTimeout:{[c['c'] for c in e.get('cmds', [])]}:{e.get('raised')}"


def run(ctx: Ctx):
    ctx.model_check("ExtTimeoutMC", "MC_ExtTimeout", invariants=("RequestAchieved", "SomethingAllowed"), coverage=False, workers=4)
    n = 40 if ctx.quick else 1500
    cases = [(ver, ctx.seed * 100003 + ver * 1009 + k) for ver in range(4, 15) for k in range(n)]
    traces = pmap(run_case, cases, chunksize=16)
    ctx.evaluations = sum(len(t) for t in traces)
    ctx.distinct_nontrivial = len({str(e) for t in traces for e in t})
    ctx.rule = (f"per protocol version 4..14: {n} random NCP address tables (1..4 slots, nodes present / absent, flags, size readable or not) x 2..6 "
                "consecutive requests on one protocol handler; distinct = distinct (NCP state, request, observed commands)")
    ctx.add_sample(traces[0][0])
    ctx.validate_traces("Trace_ExtTimeout", traces, metas=[list(c) for c in cases], label="extended timeout", sig=sig)
    ctx.exhaustive = False
    ctx.assumptions += ["extension beyond the listed properties; the address table has at least one slot"]


def replay(ctx: Ctx, data):
    m = data["replay"]["meta"]
    tr = run_case(tuple(m))
    ctx.validate_traces("Trace_ExtTimeout", [tr], metas=[m], label="extended timeout", sig=sig)
    ctx.add_sample(tr[0])
