"""Run TLC and parse what it says.  Nothing here decides a property: it only
starts the model checker, hands it files and reports its verdict."""
from __future__ import annotations

import dataclasses
import json
import os
import re
import shutil
import subprocess
import tempfile
import time
from pathlib import Path

VERIF = Path(__file__).resolve().parents[2]
SPEC_DIR = VERIF / "spec"
JAR = "/opt/veriftools/tla/tla2tools.jar:/opt/veriftools/tla/CommunityModules-deps.jar"
SCRATCH_ROOT = os.environ.get("BV_SCRATCH", "/var/tmp")


class MachineryError(Exception):
    """The verification machinery itself failed (exit 2, never a violation)."""


def scratch(prefix: str = "bv-") -> Path:
    return Path(tempfile.mkdtemp(prefix=prefix, dir=SCRATCH_ROOT))


@dataclasses.dataclass
class TlcResult:
    ok: bool                      # TLC finished and found no error
    generated: int
    distinct: int
    depth: int
    violated: list[str]           # names of violated invariants / properties
    error_kind: str | None        # invariant | action_property | temporal | deadlock | postcondition | assumption | other
    error_trace: str              # raw text of the counter-example (if any)
    coverage: dict[str, tuple[int, int]]   # action -> (distinct, total)
    prints: list[str]             # lines produced by PrintT / Print
    output: str
    wall_s: float
    cmd: str

    def summary(self) -> dict:
        return {
            "ok": self.ok,
            "generated": self.generated,
            "distinct": self.distinct,
            "depth": self.depth,
            "violated": self.violated,
            "error_kind": self.error_kind,
            "wall_s": round(self.wall_s, 2),
        }


_RE_STATES = re.compile(r"(\d+) states generated, (\d+) distinct states found, (\d+) states? left on queue")
_RE_DEPTH = re.compile(r"The depth of the complete state graph search is (\d+)")
_RE_COV = re.compile(r"^<(\w+) line \d+, col \d+ to line \d+, col \d+ of module (\w+)(?: \([\d ]+\))?>: (\d+):(\d+)", re.M)
_RE_INV = re.compile(r"Error: Invariant (\S+) is violated")
_RE_ACTP = re.compile(r"Error: Action property (\S+) is violated")


def write_cfg(path: Path, *, spec: str | None = None, init: str | None = None, next_: str | None = None,
              constants: dict[str, str] | None = None, invariants=(), properties=(), constraints=(),
              action_constraints=(), view: str | None = None, postcondition: str | None = None,
              deadlock: bool = False, symmetry: str | None = None, alias: str | None = None) -> Path:
    lines = []
    if spec:
        lines.append(f"SPECIFICATION {spec}")
    else:
        lines.append(f"INIT {init}")
        lines.append(f"NEXT {next_}")
    if constants:
        lines.append("CONSTANTS")
        for k, v in constants.items():
            lines.append(f"  {k} {v}" if v.startswith("<-") else f"  {k} = {v}")
    for i in invariants:
        lines.append(f"INVARIANT {i}")
    for p in properties:
        lines.append(f"PROPERTY {p}")
    for c in constraints:
        lines.append(f"CONSTRAINT {c}")
    for c in action_constraints:
        lines.append(f"ACTION_CONSTRAINT {c}")
    if view:
        lines.append(f"VIEW {view}")
    if symmetry:
        lines.append(f"SYMMETRY {symmetry}")
    if alias:
        lines.append(f"ALIAS {alias}")
    if postcondition:
        lines.append(f"POSTCONDITION {postcondition}")
    lines.append(f"CHECK_DEADLOCK {'TRUE' if deadlock else 'FALSE'}")
    path.write_text("\n".join(lines) + "\n")
    return path


def run_tlc(module: str | Path, cfg: Path, *, workdir: Path, workers: int | str = "auto",
            simulate: str | None = None, depth: int | None = None, seed: int | None = None,
            coverage: bool = False, dump_dot: Path | None = None, env: dict | None = None,
            timeout: float = 3600, xss: str = "64m", heap: str | None = None,
            extra: list[str] | None = None, dfs_queue: bool = False, gc: str | None = None, jit: str | None = None) -> TlcResult:
    """`module` is a module name in spec/ or a path to a generated root module."""
    module = Path(module)
    if not module.suffix:
        module = SPEC_DIR / (module.name + ".tla")
    meta = workdir / f"meta-{module.stem}-{os.getpid()}-{time.monotonic_ns()}"
    if gc is None:
        gc = "serial" if str(workers) == "1" else "parallel"
    cmd = ["java", "-XX:+UseSerialGC" if gc == "serial" else "-XX:+UseParallelGC", f"-Xss{xss}"]
    cmd.append(f"-Xmx{heap or ('2g' if gc == 'serial' else '12g')}")
    if str(workers) == "1" or jit == "c1":
        cmd.append("-XX:TieredStopAtLevel=1")     # short single-worker runs: C2 compilation costs more than it saves
    cmd += [f"-DTLA-Library={SPEC_DIR}"]
    if dfs_queue:
        cmd.append("-Dtlc2.tool.queue.IStateQueue=StateDeque")
    cmd += ["-cp", JAR, "tlc2.TLC", "-noGenerateSpecTE", "-metadir", str(meta),
            "-config", str(cfg), "-workers", str(workers)]
    if coverage:
        cmd += ["-coverage", "1"]
    if simulate is not None:
        cmd += ["-simulate", simulate]
    if depth is not None:
        cmd += ["-depth", str(depth)]
    if seed is not None:
        cmd += ["-seed", str(seed)]
    if dump_dot is not None:
        cmd += ["-dump", "dot,actionlabels", str(dump_dot)]
    if extra:
        cmd += extra
    cmd.append(str(module))
    e = dict(os.environ)
    e.pop("JAVA_TOOL_OPTIONS", None)
    if env:
        e.update(env)
    t0 = time.time()
    try:
        p = subprocess.run(cmd, cwd=str(module.parent), env=e, capture_output=True, text=True, timeout=timeout)
    except subprocess.TimeoutExpired as ex:
        raise MachineryError(f"TLC timed out after {timeout}s: {' '.join(cmd)}") from ex
    finally:
        shutil.rmtree(meta, ignore_errors=True)
    out = p.stdout + p.stderr
    wall = time.time() - t0
    gen = dist = 0
    for m in _RE_STATES.finditer(out):
        gen, dist = int(m.group(1)), int(m.group(2))
    dm = _RE_DEPTH.search(out)
    depth_found = int(dm.group(1)) if dm else 0
    violated = _RE_INV.findall(out) + _RE_ACTP.findall(out)
    kind = None
    if _RE_INV.search(out):
        kind = "invariant"
    elif _RE_ACTP.search(out):
        kind = "action_property"
    elif "Temporal properties were violated" in out or re.search(r"Error: Temporal property \S+ was violated", out):
        kind = "temporal"
        violated += re.findall(r"Error: Temporal property (\S+) was violated", out) or ["<temporal>"]
    elif "Deadlock reached" in out:
        kind = "deadlock"
    elif "Error: Postcondition" in out:
        kind = "postcondition"
    elif "Assumption" in out and "is false" in out:
        kind = "assumption"
    elif "Error:" in out or p.returncode != 0:
        kind = "other"
    finished = ("Model checking completed. No error has been found." in out) or (
        simulate is not None and kind is None and p.returncode == 0)
    trace = ""
    if kind in ("invariant", "action_property", "temporal", "deadlock"):
        i = out.find("Error: ")
        trace = out[i:i + 20000]
    cov = {}
    for m in _RE_COV.finditer(out):
        name, mod, d, t = m.group(1), m.group(2), int(m.group(3)), int(m.group(4))
        a, b = cov.get(name, (0, 0))
        cov[name] = (a + d, b + t)
    prints = []
    for line in out.splitlines():
        if line.startswith('"BV') or line.startswith("<<\"BV"):
            prints.append(line)
    res = TlcResult(ok=finished and kind is None, generated=gen, distinct=dist, depth=depth_found,
                    violated=violated, error_kind=kind, error_trace=trace, coverage=cov, prints=prints,
                    output=out, wall_s=wall, cmd=" ".join(cmd))
    if kind == "other":
        raise MachineryError("TLC failed:\n" + out[-4000:])
    return res


def sany(module: Path) -> None:
    cmd = ["java", f"-DTLA-Library={SPEC_DIR}", "-cp", JAR, "tla2sany.SANY", str(module)]
    p = subprocess.run(cmd, cwd=str(module.parent), capture_output=True, text=True)
    out = p.stdout + p.stderr
    if p.returncode != 0 or "Semantic errors" in out or "Parse Error" in out or "Fatal errors" in out \
            or "*** Errors" in out or "Could not parse" in out:
        raise MachineryError(f"SANY rejects {module}:\n{out[-3000:]}")


# ---------------------------------------------------------------- values -> TLA+ text

def tla(v) -> str:
    """Python value -> TLA+ expression (ints, bools, strings, lists as sequences, dicts as records,
    sets/frozensets as sets)."""
    if isinstance(v, bool):
        return "TRUE" if v else "FALSE"
    if isinstance(v, int):
        return str(v)
    if isinstance(v, str):
        return json.dumps(v)
    if isinstance(v, (list, tuple)):
        return "<<" + ", ".join(tla(x) for x in v) + ">>"
    if isinstance(v, (set, frozenset)):
        return "{" + ", ".join(sorted(tla(x) for x in v)) + "}"
    if isinstance(v, dict):
        if not v:
            return "<<>>"
        return "[" + ", ".join(f"{k} |-> {tla(x)}" for k, x in v.items()) + "]"
    raise TypeError(type(v))


# ---------------------------------------------------------------- dot graphs

_RE_NODE = re.compile(r'^(-?\d+) \[label="(.*)"(?:,style = filled)?\];?$')
_RE_EDGE = re.compile(r'^(-?\d+) -> (-?\d+) \[label="((?:[^"\\]|\\.)*)"')


def parse_dot(path: Path):
    """Return (nodes: id -> state text, init ids, edges: list of (src, dst, label))."""
    nodes, inits, edges = {}, set(), []
    for line in path.read_text().splitlines():
        m = _RE_EDGE.match(line)
        if m:
            edges.append((m.group(1), m.group(2), m.group(3).replace('\\"', '"')))
            continue
        m = _RE_NODE.match(line)
        if m:
            nodes[m.group(1)] = m.group(2).replace("\\n", "\n").replace('\\"', '"').replace("\\\\", "\\")
            if "style = filled" in line:
                inits.add(m.group(1))
    return nodes, inits, edges


# ---------------------------------------------------------------- TLA+ value text -> Python

def parse_tla_value(s: str):
    """Parse the value syntax TLC prints (ints, strings, booleans, <<..>>, {..}, [a |-> ..], (k :> v @@ ..))."""
    pos = 0
    n = len(s)

    def ws():
        nonlocal pos
        while pos < n and s[pos] in " \n\t\r":
            pos += 1

    def val():
        nonlocal pos
        ws()
        c = s[pos]
        if s.startswith("<<", pos):
            pos += 2
            out = []
            ws()
            if s.startswith(">>", pos):
                pos += 2
                return out
            while True:
                out.append(val())
                ws()
                if s.startswith(">>", pos):
                    pos += 2
                    return out
                assert s[pos] == ",", (s[pos:pos + 20])
                pos += 1
        if c == "{":
            pos += 1
            out = []
            ws()
            if s[pos] == "}":
                pos += 1
                return frozenset()
            while True:
                out.append(_freeze(val()))
                ws()
                if s[pos] == "}":
                    pos += 1
                    return frozenset(out)
                assert s[pos] == ","
                pos += 1
        if c == "[":
            pos += 1
            out = {}
            while True:
                ws()
                m = re.compile(r"(\w+)\s*\|->").match(s, pos)
                assert m, s[pos:pos + 30]
                pos = m.end()
                out[m.group(1)] = val()
                ws()
                if s[pos] == "]":
                    pos += 1
                    return out
                assert s[pos] == ","
                pos += 1
        if c == "(":
            pos += 1
            out = {}
            while True:
                k = val()
                ws()
                assert s.startswith(":>", pos), s[pos:pos + 30]
                pos += 2
                out[_freeze(k)] = val()
                ws()
                if s[pos] == ")":
                    pos += 1
                    return out
                assert s.startswith("@@", pos), s[pos:pos + 30]
                pos += 2
        if c == '"':
            m = re.compile(r'"((?:[^"\\]|\\.)*)"').match(s, pos)
            pos = m.end()
            return m.group(1)
        m = re.compile(r"-?\d+").match(s, pos)
        if m:
            pos = m.end()
            return int(m.group(0))
        m = re.compile(r"\w+").match(s, pos)
        pos = m.end()
        w = m.group(0)
        return True if w == "TRUE" else False if w == "FALSE" else w

    v = val()
    return v


def _freeze(v):
    if isinstance(v, list):
        return tuple(_freeze(x) for x in v)
    if isinstance(v, dict):
        return tuple(sorted((k, _freeze(x)) for k, x in v.items()))
    return v


def parse_state(text: str) -> dict:
    """'/\\ a = 1\n/\\ b = <<>>' -> {'a': 1, 'b': []}"""
    out = {}
    parts = re.split(r"(?:^|\n)\s*/\\ ", "\n" + text)
    for part in parts:
        part = part.strip()
        if not part:
            continue
        m = re.match(r"(\w+) = (.*)$", part, re.S)
        if not m:
            continue
        out[m.group(1)] = parse_tla_value(m.group(2))
    return out


_RE_SIMACT = re.compile(r"^\\\* <(\w+) line ", re.M)


def parse_sim_actions(path: Path) -> list[str]:
    """action names of one `-simulate file=` behaviour (first entry is the initial predicate)"""
    return _RE_SIMACT.findall(Path(path).read_text())
