"""Rig for the application layer: the real ControllerApplication (zigpy.util.Requests shim) on the real EZSP with a
per-version protocol handler on a fake gateway, against the simulated EZSP NCP, in virtual time."""
from __future__ import annotations

import asyncio

from . import compat, ncp_ezsp, vloop


async def make_app(loop, version, source_routing=False):
    app = compat.make_app({"source_routing": source_routing} if source_routing else None)
    ezsp, gw, ncp = await ncp_ezsp.make_ezsp(loop, version)
    app._ezsp = ezsp
    app.controller_event.set()
    ezsp.add_callback(app.ezsp_callback_handler)       # as start_network does
    return app, ezsp, gw, ncp


async def settle(loop, n=200000):
    for _ in range(n):
        await asyncio.sleep(0)
        if not loop._ready:
            return
    raise RuntimeError("loop does not become idle")


def next_timer(loop):
    ws = [h._when for h in loop._scheduled if not h._cancelled]
    return min(ws) if ws else None


async def run_until_done(loop, tasks, limit_s=600.0, hooks=()):
    """advance virtual time until all tasks are done; hooks: list of (time_s, callable) fired on the way"""
    t_end = loop.time() + limit_s
    pend = sorted(hooks, key=lambda h: h[0])
    while True:
        await settle(loop)
        if all(t.done() for t in tasks) and not pend:
            return True
        when = next_timer(loop)
        nxt = pend[0][0] if pend else None
        cand = [x for x in (when, nxt) if x is not None]
        if not cand:
            return all(t.done() for t in tasks)
        t = min(cand)
        if t > t_end:
            return False
        loop._vnow = max(loop._vnow, t)
        while pend and pend[0][0] <= loop._vnow + 1e-9:
            _tm, fn = pend.pop(0)
            fn()


class Lifecycle:
    """The real ControllerApplication through its own connect() / start_network() / disconnect() on one persistent simulated NCP
    (NcpEzsp + NetStore): every connect() builds a new EZSP object on a new fake gateway, exactly as the application does it."""

    def __init__(self, loop, version, source_routing=False):
        from . import ncp_netinfo
        self.loop = loop
        self.app = compat.make_app({"source_routing": True} if source_routing else None)
        self.ncp = ncp_ezsp.NcpEzsp(version, loop, negotiated=False)
        self.store = ncp_netinfo.NetStore(self.ncp)
        self.ncp.reset_hooks = [self.store.on_reset]
        self.gateways = []
        self.on_gateway = None

    async def _patched(self, coro_fn):
        import bellows.uart
        import zigpy.device
        life = self

        async def fake_connect(config, application, use_thread=True):
            gw = ncp_ezsp.FakeGateway(life.ncp)
            life.ncp.deliver = application.frame_received
            life.ncp.negotiated = False
            life.gateways.append(gw)
            if life.on_gateway:
                life.on_gateway(gw, application)
            return gw

        async def no_init(self_):           # zigpy-side initialisation of the coordinator's own device object (ZDO traffic to itself)
            return None
        o1, o2 = bellows.uart.connect, zigpy.device.Device.schedule_initialize
        bellows.uart.connect, zigpy.device.Device.schedule_initialize = fake_connect, no_init
        try:
            return await coro_fn()
        finally:
            bellows.uart.connect, zigpy.device.Device.schedule_initialize = o1, o2

    async def run(self, coro_fn, limit_s=300.0):
        """-> '' | exception class name | 'hang'"""
        async def body():
            tk = asyncio.ensure_future(coro_fn())
            ok = await run_until_done(self.loop, [tk], limit_s=limit_s)
            if not ok or not tk.done():
                tk.cancel()
                await settle(self.loop)
                return "hang"
            if tk.cancelled():
                return "CancelledError"
            return "" if tk.exception() is None else type(tk.exception()).__name__
        return await self._patched(body)

    async def form(self):
        """give the NCP a stored network (written through the real write_network_info), stack not running"""
        import zigpy.state
        import zigpy.types as zt
        st = self.store
        ni = zigpy.state.NetworkInfo(
            extended_pan_id=zt.ExtendedPanId(bytes(range(8))), pan_id=zt.PanId(0x1234), nwk_update_id=1, nwk_manager_id=zt.NWK(0), channel=15,
            channel_mask=zt.Channels.from_channel_list([15]), security_level=5,
            network_key=zigpy.state.Key(key=zt.KeyData(bytes(range(16))), seq=1, tx_counter=100),
            tc_link_key=zigpy.state.Key(key=zt.KeyData(b"ZigBeeAlliance09"), partner_ieee=zt.EUI64(st.factory_eui), tx_counter=5))
        node = zigpy.state.NodeInfo(nwk=zt.NWK(0), ieee=zt.EUI64(st.factory_eui), logical_type=0)
        r = await self.run(lambda: self.app.write_network_info(network_info=ni, node_info=node), 600)
        if r:
            raise RuntimeError("rig: write_network_info failed: " + r)
        st.running = False
