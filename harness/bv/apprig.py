"""Rig for the application layer: the real ControllerApplication (zigpy.util.Requests shim) on the real EZSP with a
per-version protocol handler on a fake gateway, against the simulated EZSP NCP, in virtual time."""
from __future__ import annotations

import asyncio

from . import compat, ncp_ezsp, vloop


async def make_app(loop, version, source_routing=False):
    app = compat.make_app({"source_routing": source_routing} if source_routing else None)
    ezsp, gw, ncp = await ncp_ezsp.make_ezsp(loop, version)
    app._ezsp = ezsp
    app.controller_event.set()
    ezsp.add_callback(app.ezsp_callback_handler)       # as start_network does
    return app, ezsp, gw, ncp


async def settle(loop, n=200000):
    for _ in range(n):
        await asyncio.sleep(0)
        if not loop._ready:
            return
    raise RuntimeError("loop does not become idle")


def next_timer(loop):
    ws = [h._when for h in loop._scheduled if not h._cancelled]
    return min(ws) if ws else None


async def run_until_done(loop, tasks, limit_s=600.0, hooks=()):
    """advance virtual time until all tasks are done; hooks: list of (time_s, callable) fired on the way"""
    t_end = loop.time() + limit_s
    pend = sorted(hooks, key=lambda h: h[0])
    while True:
        await settle(loop)
        if all(t.done() for t in tasks) and not pend:
            return True
        when = next_timer(loop)
        nxt = pend[0][0] if pend else None
        cand = [x for x in (when, nxt) if x is not None]
        if not cand:
            return all(t.done() for t in tasks)
        t = min(cand)
        if t > t_end:
            return False
        loop._vnow = max(loop._vnow, t)
        while pend and pend[0][0] <= loop._vnow + 1e-9:
            _tm, fn = pend.pop(0)
            fn()
