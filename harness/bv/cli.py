"""bin/check entry point.

  bin/check <Cnn> --tier quick|thorough      run a property's check
  bin/check <Cnn> --replay <file>            re-execute a recorded violation
  bin/check --setup                          parse all specs, byte-compile the harness
exit 0 held / 1 violation / 2 machinery failure."""
from __future__ import annotations

import argparse
import compileall
import importlib
import json
import os
import sys
import traceback
from pathlib import Path

from . import core, tlc as T


def setup() -> int:
    ok = compileall.compile_dir(str(Path(__file__).parent), quiet=1)
    specs = sorted(T.SPEC_DIR.glob("*.tla"))
    import concurrent.futures as cf
    errs = []

    def one(p):
        try:
            T.sany(p)
        except T.MachineryError as e:
            errs.append(str(e))
    with cf.ThreadPoolExecutor(8) as ex:
        list(ex.map(one, specs))
    for e in errs:
        print(e)
    print(f"setup: {len(specs)} TLA+ modules parsed, harness compiled: {'ok' if ok and not errs else 'FAILED'}")
    return 0 if ok and not errs else 2


def main(argv=None) -> int:
    ap = argparse.ArgumentParser()
    ap.add_argument("prop", nargs="?")
    ap.add_argument("--tier", default=os.environ.get("VERIF_TIER", "quick"), choices=["quick", "thorough"])
    ap.add_argument("--replay")
    ap.add_argument("--setup", action="store_true")
    ap.add_argument("--selftest", action="store_true")
    a = ap.parse_args(argv)
    if a.setup:
        return setup()
    prop = a.prop.upper()
    seed = int(os.environ.get("VERIF_SEED", "0") or 0)
    os.environ.setdefault("PYTHONHASHSEED", "0")
    import logging
    import warnings
    logging.disable(logging.CRITICAL)
    warnings.simplefilter("ignore")
    try:
        mod = importlib.import_module(f"bv.{prop.lower()}")
    except ModuleNotFoundError:
        print(f"no check for {prop}")
        return 2
    ctx = core.Ctx(prop, a.tier, seed)
    # a check never hangs: past the limit it ends as a machinery failure (exit 2), not as a verdict
    import signal

    def _too_long(signum, frame):
        print(f"MACHINERY-ERROR property={prop}: time limit exceeded", file=sys.stderr)
        os._exit(2)
    signal.signal(signal.SIGALRM, _too_long)
    signal.alarm(int(os.environ.get("BV_MAX_S", "3600" if a.tier == "quick" else "28800")))
    try:
        if a.replay:
            data = json.loads(Path(a.replay).read_text())
            ctx.is_replay = True
            if data.get("replay", {}).get("kind") == "crash":
                mod.run(ctx)            # an exception out of the implementation: re-run the check that met it
            elif data.get("replay", {}).get("module") == "Trace_WireLayout":
                from . import wirelayout
                wirelayout.check(ctx, [data["replay"]["meta"]["struct"]])
            else:
                mod.replay(ctx, data)
        elif a.selftest:
            mod.selftest(ctx)
        else:
            mod.run(ctx)
        rc = core.finish(ctx, getattr(mod, "LEVEL", "model_checking"))
        print(f"{prop} {a.tier}: states={ctx.states} traces={ctx.traces_validated} "
              f"events={ctx.events_validated} violations={len(ctx.violations)} rc={rc}")
        return rc
    except T.MachineryError as e:
        print(f"MACHINERY-ERROR property={prop}: {e}", file=sys.stderr)
        return 2
    except Exception as e:
        tb = traceback.format_exc()
        cause = getattr(e, "__cause__", None)
        if cause is not None:
            tb += "\n" + str(cause)            # multiprocessing's RemoteTraceback carries the worker's traceback as text
        # where was the exception raised?  innermost frame inside the repository's package = the implementation raised during a run the
        # harness expected to complete: that is an observable misbehaviour of the code (a verdict), not a failure of the machinery
        import re
        files = re.findall(r'File "([^"]+)", line (\d+), in (\S+)', tb)
        repo_root = str(core.REPO)
        inner = files[-1] if files else ("", "0", "")
        if inner[0].startswith(repo_root + "/bellows/"):
            where = inner[0][len(repo_root) + 1:]
            ctx.violations.append(core.Violation(
                signature=f"crash:{type(e).__name__}:{where}:{inner[2]}",
                what=f"the implementation raised {type(e).__name__} in {where}:{inner[1]} ({inner[2]}) during a run the check expected to complete: {str(e)[:200]}",
                replay={"kind": "crash", "exception": type(e).__name__, "where": f"{where}:{inner[1]}", "function": inner[2], "traceback": tb[-6000:]}))
            ctx.notes["crash"] = "the check was cut short by an exception out of the implementation; coverage numbers are those reached before it"
            if not ctx.rule:
                ctx.rule = "run cut short by an exception raised inside the implementation"
            rc = core.finish(ctx, getattr(mod, "LEVEL", "model_checking"))
            print(f"{prop} {a.tier}: states={ctx.states} traces={ctx.traces_validated} events={ctx.events_validated} violations={len(ctx.violations)} rc={rc}")
            return rc
        sys.stderr.write(tb)
        print(f"MACHINERY-ERROR property={prop}: unexpected harness exception", file=sys.stderr)
        return 2
    finally:
        ctx.cleanup()


if __name__ == "__main__":
    _rc = main()
    sys.stdout.flush()
    sys.stderr.flush()
    os._exit(_rc)        # threads a broken implementation left running (C20) must not keep the check alive
