"""bellows verification harness (drives, records, projects; TLC decides)."""
