"""Environment gap: bellows at this commit calls zigpy.util.Requests(), which the installed zigpy (2.2.0)
no longer has.  This installs a Requests/Request pair with the semantics of the zigpy release bellows
targets (new(tag) -> context manager registering tag -> request with a `result` future; duplicate tag
raises; exit cancels an unfinished future and removes the tag).  Trusted base of C12-C14, C17, C19."""
from __future__ import annotations

import asyncio


class Request:
    def __init__(self, pending, sequence):
        self._pending = pending
        self._result = asyncio.get_event_loop().create_future()
        self._sequence = sequence

    @property
    def result(self):
        return self._result

    @property
    def sequence(self):
        return self._sequence

    def __enter__(self):
        self._pending[self._sequence] = self
        return self

    def __exit__(self, exc_type, exc_value, tb):
        if not self._result.done():
            self._result.cancel()
        self._pending.pop(self._sequence, None)
        return False


class Requests(dict):
    def new(self, sequence):
        if sequence in self:
            import zigpy.exceptions
            raise zigpy.exceptions.ControllerException(f"duplicate {sequence} TSN")
        return Request(self, sequence)


def install():
    import zigpy.util
    if not hasattr(zigpy.util, "Requests"):
        zigpy.util.Requests = Requests
        zigpy.util.Request = Request


def make_app(extra: dict | None = None):
    """Construct the real ControllerApplication (needs a current event loop)."""
    install()
    import bellows.zigbee.application as app_mod
    cfg = {"device": {"path": "/dev/null", "baudrate": 115200}, "database_path": None}
    if extra:
        cfg.update(extra)
    return app_mod.ControllerApplication(cfg)
