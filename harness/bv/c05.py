"""C05 - ASH sends end within the retry budget; a failed link stays silent until reset.

AshHost5MC (scripted peer) is model-checked; every reaction script up to a depth bound is run
against the real AshProtocol in virtual time (every ACK-timeout boundary hit exactly, reactions
also placed in the loop iteration of the timer) and validated by TLC against Trace_AshHost with
the C05 observer clauses and the timing clause evaluated on every state."""
from __future__ import annotations

import itertools

from . import hostrig
from .c04 import INV4, INV5, host_consts, pmap
from .core import Ctx

REACTIONS = ("cover", "stale", "nak", "silence", "latecover", "latenak", "error", "rstack", "nakcover", "slowcover", "slownak", "lateerror")
PAIRS = (("cover", "error"), ("nak", "cover"), ("error", "rstack"), ("rstack", "cover"), ("cover", "nak"),
         ("error", "cover"), ("stale", "nak"), ("rstack", "error"), ("nak", "error"), ("nak", "rstack"), ("stale", "error"),
         ("nak", "nak"), ("error", "nak"), ("error", "error"))


def frames_for(kind, last_frm, code_e=0x51, code_r=11):
    n = last_frm
    if kind in ("cover", "latecover", "slowcover"):
        return [{"type": "ACK", "res": 0, "nrdy": 0, "ack": (n + 1) % 8}]
    if kind == "stale":
        return [{"type": "ACK", "res": 0, "nrdy": 0, "ack": n}]
    if kind in ("nak", "latenak", "slownak"):
        return [{"type": "NAK", "res": 0, "nrdy": 0, "ack": n}]
    # acknowledgement numbers that do not cover the outstanding frame n (neither n nor n + 1): the frame is NOT acknowledged
    if kind == "strayack":
        return [{"type": "ACK", "res": 0, "nrdy": 0, "ack": (n + 2) % 8}]
    if kind == "strayack5":
        return [{"type": "ACK", "res": 0, "nrdy": 0, "ack": (n + 5) % 8}]
    if kind == "straynak":
        return [{"type": "NAK", "res": 0, "nrdy": 0, "ack": (n + 3) % 8}]
    if kind == "straydata":
        return [{"type": "DATA", "frm": 5, "retx": 0, "ack": (n + 4) % 8, "pl": 900 + n}]
    if kind == "nakcover":
        return [{"type": "NAK", "res": 0, "nrdy": 0, "ack": (n + 1) % 8}]
    if kind in ("error", "lateerror"):
        return [{"type": "ERROR", "ver": 2, "code": code_e}]
    if kind == "rstack":
        return [{"type": "RSTACK", "ver": 2, "code": code_r}]
    raise ValueError(kind)


def run_script(args):
    workload, prefix, script, codes = args

    async def go(r):
        last = [0]

        def note():
            for ev in r.trace[-1:]:
                for o in ev["out"]:
                    if o["o"] == "write" and o["f"]["type"] == "DATA":
                        last[0] = o["f"]["frm"]
        nid = [0]

        async def sub():
            nid[0] += 1
            await r.submit(nid[0])
            note()
        for _ in range(prefix):            # move the transmit number towards the wrap
            await sub()
            await r.recv(frames_for("cover", last[0]))
            note()
        if workload == "one":
            await sub()
        elif workload == "three":
            await sub(); await sub(); await sub()
        elif workload == "staggered":
            await sub()
        for i, kind in enumerate(script):
            if workload == "staggered" and i in (1, 3):
                await sub()
            kinds = kind if isinstance(kind, tuple) else (kind,)
            if kinds[0] in ("cancel1", "cancel2", "cancel3"):
                # the caller of the first / second / third send of the workload is cancelled (in flight or still queued): invisible on the link
                cid = prefix + int(kinds[0][-1])
                if cid in r.tasks and not r.tasks[cid].done():
                    await r.cancel(cid)
                continue
            if kinds == ("hostreset",):
                await r.hostreset()
                continue
            if kinds == ("silence",):
                if await r.tick() is None:
                    continue
                note()
                continue
            fs = []
            for k in kinds:
                fs += frames_for(k, last[0], *codes)
            late = kinds[0].startswith("late") and r.next_timer() is not None
            await r.recv(fs, late=late, slow=kinds[0].startswith("slow"))
            note()
        if workload == "staggered":
            await sub()
    return hostrig.run_script(go)


def sig(meta, v, tr):
    e = tr[v.stuck_at - 1] if v.stuck_at and v.stuck_at <= len(tr) else {}
    return f"trace:AshHost:{v.invariant or 'unexplained'}:{meta['workload']}:{e.get('a')}:" + \
           ",".join(str(x) for x in meta["script"][-2:])


def run(ctx: Ctx):
    consts = host_consts()
    maxatt = consts["MaxAtt"]
    mcc = {"MaxAtt": maxatt, "Codes": "{11, 81}", "NSends": "3" if ctx.quick else "4", "StartTx": "{0, 6, 7}"}
    ctx.model_check("AshHost5MC", "MC_AshHost5", constants=mcc,
                    invariants=("AttemptsBounded", "RepeatSame", "SilentWhenFailed", "OneOutstanding", "Consecutive",
                                "ToldOnce", "WaitersFail", "ObserverTracksFailure", "SendEndsByTicks"),
                    required_actions=("Submit", "DoReact", "DoReact2", "DoReactLate", "Silence"))
    D = 4 if ctx.quick else 5
    alpha = list(REACTIONS)
    core = ("cover", "nak", "silence", "slowcover", "error", "rstack")     # depth D + 1 over the reactions that change state most

    def gen_jobs():
        k = 0
        for n in range(0, D + 1):
            for script in itertools.product(alpha, repeat=n):
                for wl, prefix in (("one", 0), ("three", 6), ("staggered", 7)):
                    if ctx.quick and n == D and wl == "staggered":
                        continue
                    k += 1
                    yield (wl, prefix, list(script), (0x51, 11) if (k % 3) else (0x80, 2))
        if not ctx.quick:
            for script in itertools.product(core, repeat=D + 1):
                for wl, prefix in (("one", 0), ("three", 6), ("staggered", 7)):
                    yield (wl, prefix, list(script), (0x51, 11))
        # full-budget scripts (reach the last attempt with every consuming reaction) and paired reactions
        consuming = ("nak", "silence", "latecover", "latenak", "slownak")
        for script in itertools.product(consuming, repeat=int(maxatt)):
            for tail in ((), ("cover",), ("rstack",), ("error",)):
                for wl, prefix in (("one", 0), ("three", 5)):
                    yield (wl, prefix, list(script) + list(tail), (0x51, 11))
        for n in range(1, 3 if ctx.quick else 4):
            for script in itertools.product(PAIRS + ("silence", "nak"), repeat=n):
                yield ("three", 6, list(script), (0x51, 11))
        # stray acknowledgement numbers (ACK / NAK / the number piggy-backed on a DATA frame) mixed with the ordinary reactions
        stray = ("strayack", "strayack5", "straynak", "straydata", "cover", "nak", "silence")
        for n in range(1, 4 if ctx.quick else 5):
            for script in itertools.product(stray, repeat=n):
                if not any(x.startswith("stray") for x in script):
                    continue
                for wl, prefix in (("one", 0), ("three", 6), ("staggered", 7)):
                    yield (wl, prefix, list(script), (0x51, 11))
        # the caller of a send is cancelled at every point of every short script (in flight, during a retransmission wait, while queued):
        # the link goes on as if nothing had happened - above all, the next frame is not written while this one is unacknowledged
        small = ("cover", "nak", "silence", "latecover", "error", "slowcover")
        for n in range(1, 4 if ctx.quick else 5):
            for script in itertools.product(small, repeat=n):
                for pos in range(0, n + 1):
                    for cn in ("cancel1", "cancel2"):
                        if ctx.quick and n == 3 and (pos + len(script[0])) % 2:
                            continue
                        for wl, prefix in (("three", 6), ("staggered", 0)):
                            yield (wl, prefix, list(script[:pos]) + [cn] + list(script[pos:]) + ["silence", "cover", "cover"], (0x51, 11))
        # a failed link, the host's RST, and sends submitted before the RSTACK arrives: still silent, still failing
        for fail in (["error"], ["silence"] * int(maxatt), ["nak"] * int(maxatt), ["nak", "error"]):
            for mid in (["silence"], [], ["cover"], ["nak"]):
                for wl, prefix in (("staggered", 0), ("staggered", 5), ("three", 6)):
                    yield (wl, prefix, fail + ["hostreset"] + mid + ["rstack", "cover", "cover", "cover"], (0x51, 11))
                    yield (wl, prefix, fail + ["hostreset", "hostreset"] + mid + ["silence", "rstack", "cover", "cover"], (0x51, 11))
        # adaptive-timeout ramps: answers arriving just in time drive the timeout up; silence afterwards must still fire within the bounds
        for up in range(1, 9):
            for tail in (("silence",), ("silence", "silence"), ("slownak", "silence"), ("silence", "slowcover", "silence"), ("latecover",)):
                for wl, prefix in (("three", 0), ("staggered", 3)):
                    yield (wl, prefix, ["slowcover"] * up + list(tail) + ["slowcover", "silence", "cover"], (0x51, 11))
        # all reset / error codes once
        for c in range(256):
            yield ("three", 0, ["nak", "error", "silence", "rstack", "cover"], (c, (c * 7 + 3) % 256))
        # random long runs
        rng = ctx.rng
        for _ in range(100 if ctx.quick else 5000):
            script = [rng.choice(alpha + ["cover"] * 6 + ["strayack", "strayack5", "straynak", "straydata"]) for _ in range(rng.randint(10, 60))]
            yield ("staggered", rng.randrange(8), script, (rng.randrange(256), rng.randrange(256)))

    def meta_of(j):
        return {"workload": j[0], "prefix": j[1], "script": [list(x) if isinstance(x, tuple) else x for x in j[2]], "codes": j[3]}
    # streamed in batches: the thorough tier runs more than a million scripts
    BATCH = 120000
    total = 0
    distinct = set()
    it = gen_jobs()
    while True:
        jobs = list(itertools.islice(it, BATCH))
        if not jobs:
            break
        traces = pmap(run_script, jobs)
        metas = [meta_of(j) for j in jobs]
        if total == 0:
            ctx.add_sample({"meta": metas[len(metas) // 2], "trace": traces[len(metas) // 2]})
        total += len(jobs)
        distinct.update(hash(str(j)) for j in jobs)
        ctx.validate_traces("Trace_AshHost", traces, constants=consts, invariants=INV5 + INV4, metas=metas,
                            label="sender", sig=sig)
        del traces, metas, jobs
        if len(ctx.violations) > 200:
            break
    ctx.evaluations = total
    ctx.distinct_nontrivial = len(distinct)
    ctx.rule = (f"every script over {len(alpha)} per-attempt peer reactions (incl. answers in the timer's own loop iteration and answers 1 ms before the "
                f"timer) up to length {D} x 3 workloads (one send; three queued sends starting at frame number 6; sends submitted while the script runs "
                f"starting at 7){'' if ctx.quick else f', every script of length {D + 1} over {len(core)} core reactions'}, every full-budget script of consuming "
                "reactions, paired reactions in one read, acknowledgement numbers that do not cover the outstanding frame (ACK, NAK, piggy-backed on DATA) mixed with ordinary reactions, adaptive-timeout ramps, all 256 reset/error codes, random long scripts; each followed by silence "
                "until every send ended; distinct = distinct (workload, prefix, script, codes)")
    ctx.exhaustive = False
    ctx.assumptions += ["virtual-time event loop (bv.vloop) and rebinding of the `time` name in bellows.ash",
                        "ACK timeout bounds 400..3200 ms pinned from the ASH text; the retry budget is read from the tree (ACK_TIMEOUTS)"]


def replay(ctx: Ctx, data):
    m = data["replay"]["meta"]
    script = [tuple(x) if isinstance(x, list) else x for x in m["script"]]
    tr = run_script((m["workload"], m["prefix"], script, tuple(m["codes"])))
    ctx.validate_traces("Trace_AshHost", [tr], constants=host_consts(), invariants=INV5 + INV4, metas=[m],
                        label="sender", sig=sig)
    ctx.add_sample(tr)
