"""X05 (extension, not one of the listed properties) - the energy scan of ControllerApplication.energy_scan.

spec/EnergyScan.tla models the aggregation loop (count passes; every pass asks again for the channels the NCP has not reported yet; every
reported value is recorded; the result is the mean per requested channel).  EnergyScanMC closes it with an NCP reporting partial scans,
duplicates and foreign channels: with progress the loop ends within one scan per channel and pass and every channel has its values; without
the progress assumption TLC must find the run that never ends (an NCP answering with nothing - the code has no bound: named deviation).
The real method runs against the simulated NCP at frame level; TLC judges every startScan (type, mask = exactly the missing channels,
duration) and the means handed to the energy mapping (as fractions)."""
from __future__ import annotations

import asyncio
import random
from fractions import Fraction

from . import apprig, tlc as T, vloop
from .c04 import pmap
from .core import Ctx

LEVEL = "model_checking"
INVS = ("Done", "Missing")


def gen_case(ver, rng: random.Random):
    chans = sorted(rng.sample(range(11, 27), rng.choice((1, 2, 3, 5, 16))))
    count = rng.choice((1, 1, 2, 3))
    return {"ver": ver, "chans": chans, "count": count, "dur": rng.choice((2, 4)), "seed": rng.randrange(1 << 30),
            "style": rng.choice(("full", "partial", "dups", "foreign", "mixed", "mixed"))}


def run_case(case):
    ver = case["ver"]

    async def main(loop):
        import bellows.zigbee.util as U
        app, ezsp, gw, ncp = await apprig.make_app(loop, ver)
        t = ncp.t
        rng = random.Random(case["seed"])
        events = [{"a": "cfg", "chans": case["chans"], "count": case["count"], "dur": case["dur"], "ver": ver}]
        empties = [0]
        sty = list(ncp.cmds["scanCompleteHandler"][2].values())[1]

        def answer(name, args):
            mask = [c for c in range(11, 27) if int(args["channelMask"]) & (1 << c)]
            style = case["style"] if case["style"] != "mixed" else rng.choice(("full", "partial", "dups", "foreign", "empty"))
            if style == "empty" and empties[0] >= 2:
                style = "partial"
            res = []
            if style == "empty":
                empties[0] += 1
            elif mask:
                sub = mask if style in ("full", "dups", "foreign") else rng.sample(mask, rng.randint(1, len(mask)))
                for c in sub:
                    res.append((c, rng.randint(-100, -20)))
                if style == "dups":
                    for c in rng.sample(sub, rng.randint(1, len(sub))):
                        res.append((c, rng.randint(-100, -20)))
                if style == "foreign":
                    res.append((rng.choice([c for c in range(11, 27) if c not in case["chans"]] or [11]), rng.randint(-100, -20)))
                rng.shuffle(res)
            events.append({"a": "scan", "energy": int(int(args["scanType"]) == int(t.EzspNetworkScanType.ENERGY_SCAN)), "mask": mask,
                           "dur": int(args["duration"]), "res": [{"c": c, "v": v} for c, v in res]})
            return ("seq", "reply") + tuple(("callback", "energyScanResultHandler", [c, v]) for c, v in res) + \
                   (("callback", "scanCompleteHandler", [0, sty(0)]),)
        ncp.script["startScan"] = answer
        args_seen = []
        orig = U.map_rssi_to_energy

        def rec(x):
            args_seen.append(x)
            return 1000.0 + len(args_seen) - 1          # a token: which call produced this value
        U.map_rssi_to_energy = rec
        try:
            tk = asyncio.ensure_future(app.energy_scan(t.Channels.from_channel_list(case["chans"]), case["dur"], case["count"]))
            ok = await apprig.run_until_done(loop, [tk], limit_s=600)
        finally:
            U.map_rssi_to_energy = orig
        if not ok or not tk.done():
            tk.cancel()
            events.append({"a": "end", "out": "hang", "result": []})
        elif tk.exception() is not None:
            events.append({"a": "end", "out": type(tk.exception()).__name__, "result": []})
        else:
            out = []
            for ch, token in tk.result().items():
                x = args_seen[int(round(token - 1000.0))]
                fr = Fraction(x).limit_denominator(10000)
                out.append({"c": int(ch), "num": fr.numerator, "den": fr.denominator})
            events.append({"a": "end", "out": "ok", "result": out})
        return events
    return vloop.run(main)


def sig(meta, v, tr):
    e = tr[v.stuck_at - 1] if v.stuck_at and v.stuck_at <= len(tr) else {}
    return f"trace:EnergyScan:{v.invariant or e.get('a')}:{e.get('out', '')}"


def run(ctx: Ctx):
    base = {"Chans": "{11, 12}", "Count": "2", "MaxRes": "2", "Vals": "{1, 3}", "Foreign": "20", "MaxScans": "6"}
    ctx.model_check("EnergyScanMC", "MC_EnergyScan", constants=base, invariants=("Done", "Missing", "Bounded"), properties=("Terminates",),
                    required_actions=("Scan",), workers=4)
    ctx.model_check("EnergyScanMC", "MC_EnergyScan3", constants=dict(base, Chans="{11, 12, 13}", Count="1", MaxRes="3", Vals="{1}", MaxScans="4"),
                    invariants=("Done", "Missing", "Bounded"), properties=("Terminates",), required_actions=("Scan",), workers=4)
    # without the progress assumption the loop need not end: TLC must find the run (an NCP that reports nothing) - the code has no bound
    cfg = T.write_cfg(ctx.workdir / "MC_EnergyScan_any.cfg", spec="SpecAny", constants=dict(base, MaxScans="3"), invariants=("Missing",), properties=("Terminates",))
    res = T.run_tlc("EnergyScanMC", cfg, workdir=ctx.workdir, workers=1)
    ctx.model_runs.append({"module": "EnergyScanMC", "config": "no progress assumption (non-termination expected)", **res.summary()})
    ctx.notes["deviation_unbounded_scan"] = "TLC: " + (",".join(res.violated) or str(res.error_kind))
    if res.error_kind != "temporal":
        raise T.MachineryError(f"EnergyScanMC without the progress assumption: expected the non-terminating run, got {res.error_kind} {res.violated}")
    n = 20 if ctx.quick else 800
    cases = [gen_case(ver, random.Random(ctx.seed * 4217 + ver * 131 + k)) for ver in range(4, 15) for k in range(n)]
    traces = pmap(run_case, cases, chunksize=8)
    ctx.evaluations = sum(len(t_) for t_ in traces)
    ctx.distinct_nontrivial = len({str(t_) for t_ in traces})
    ctx.rule = (f"per protocol version 4..14: {n} scans over 1..16 channels, 1..3 passes, the NCP reporting full / partial scans, duplicates, foreign channels "
                "and (at most twice) nothing; every startScan's type, mask and duration and the per-channel means compared; distinct = distinct run")
    ctx.add_sample(traces[0][:6])
    ctx.validate_traces("Trace_EnergyScan", traces, invariants=INVS, metas=cases, label="energy scan", sig=sig)
    # binding self-test: one reported value changed / one scan dropped from accepted runs
    rng = random.Random(ctx.seed)
    bad = []
    for tr in traces[:80]:
        scans = [i for i, e in enumerate(tr) if e["a"] == "scan" and e["res"] and e["res"][0]["c"] in tr[0]["chans"]]   # a value that reaches the result
        if not scans or tr[-1].get("out") != "ok":
            continue
        c = [dict(e) for e in tr]
        i = rng.choice(scans)
        c[i] = dict(c[i], res=[dict(c[i]["res"][0], v=c[i]["res"][0]["v"] + 7)] + c[i]["res"][1:])
        bad.append(c)
    from . import trace as TR
    rej = len(TR.validate("Trace_EnergyScan", bad, workdir=ctx.workdir, invariants=INVS).rejected) if bad else 0
    ctx.notes["binding_selftest"] = {"corrupted_runs": len(bad), "rejected": rej}
    if rej != len(bad):
        raise T.MachineryError(f"binding self-test: only {rej} of {len(bad)} corrupted runs were rejected")
    ctx.exhaustive = False
    ctx.assumptions += ["extension beyond the listed properties", "zigpy.util.Requests shim; simulated EZSP NCP", "the numeric mapping of the mean to an energy value is not modelled: "
                        "bellows.zigbee.util.map_rssi_to_energy is wrapped to record its argument, recovered as a fraction with denominator <= 10000"]


def replay(ctx: Ctx, data):
    m = data["replay"]["meta"]
    tr = run_case(m)
    ctx.validate_traces("Trace_EnergyScan", [tr], invariants=INVS, metas=[m], label="energy scan", sig=sig)
    ctx.add_sample(tr[:6])
