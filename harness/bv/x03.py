"""X03 (extension, not one of the listed properties) - opening the network for joining (permit / pre_permit).

spec/PermitPolicy.tla models ControllerApplication.permit(T): the background task of the version's protocol handler (wildcard
transient link key from version 5, trust-centre policy flipped to "allow joins" from version 8 and restored T + 2 s later) and the
caller's path (Mgmt_Permit_Joining_req broadcast, permitJoining).  PermitPolicyMC checks that the configured policy is back whenever
no task is pending and that the flip covers the join window when permits do not overlap - and requires TLC to FIND the counter-example
for overlapping permits (the earlier task's restore falls into the later window: a deviation of the code, recorded, outside the listed
properties).  The real application runs in virtual time on every version against the simulated NCP; TLC judges every step."""
from __future__ import annotations

import asyncio
import random

from . import apprig, tlc as T, vloop
from .c04 import pmap
from .core import Ctx, Violation

LEVEL = "model_checking"
TC_POLICY = 0x19            # the configured trust-centre policy used by the runs (recognisable, not the "allow" value 0x03)
ALLOW = 0x03                # ALLOW_JOINS | ALLOW_UNSECURED_REJOINS (EZSP reference)


def vc_of(ver):
    return "v4" if ver == 4 else "v5" if ver < 8 else "v8"


def gen_case(ver, rng: random.Random):
    n = rng.randint(1, 5)
    permits = []
    for _ in range(n):
        T_ = rng.choice((0, 1, 5, 60, 60, 254))
        gap = rng.choice((0, 500, 1000, (T_ + 2) * 1000 - 1000, (T_ + 2) * 1000, (T_ + 2) * 1000 + 1000, 30000, 300000))
        permits.append({"T": T_, "gap": gap})
    return {"ver": ver, "permits": permits}


def run_case(case):
    ver = case["ver"]

    async def main(loop):
        import zigpy.types as zt
        app, ezsp, gw, ncp = await apprig.make_app(loop, ver)
        t = ncp.t
        app.state.node_info.nwk = zt.NWK(0x0000)
        app.state.node_info.ieee = zt.EUI64.convert("00:11:22:33:44:55:66:77")
        st = {"pol": "tc", "open": 0, "keys": 0, "task": [], "main": []}

        def now_ms():
            return int(round(loop.time() * 1000))
        t0 = [0]

        def on_command(entry):
            name, a = entry["name"], entry.get("args", {})
            if name == "setPolicy" and int(a["policyId"]) == int(t.EzspPolicyId.TRUST_CENTER_POLICY):
                v = int(a["decisionId"])
                kind = "allow" if v == ALLOW else "restore" if v == TC_POLICY else f"other:{v}"
                st["pol"] = "allow" if v == ALLOW else "tc" if v == TC_POLICY else f"other:{v}"
                st["task"].append(kind)
            elif name in ("addTransientLinkKey", "importTransientKey"):
                ieee = a.get("partner", a.get("eui64"))
                key = a.get("transientKey", a.get("plaintext_key"))
                wild = bytes(ieee.serialize()) == b"\xff" * 8 and bytes(key.serialize()) == b"ZigBeeAlliance09"
                st["keys"] += 1
                st["task"].append("addKey" if wild else "addKey:other")
            elif name == "sendBroadcast":
                st["main"].append("broadcast")
            elif name == "permitJoining":
                d = int(a["duration"])
                st["open"] = 0 if d == 0 else now_ms() - t0[0] + d * 1000
                st["main"].append("permitJoining")
        ncp.on_command = on_command
        await ezsp._protocol.update_policies({"TRUST_CENTER_POLICY": TC_POLICY})         # as start_network does
        await apprig.settle(loop)
        st.update(pol="tc", task=[], main=[])
        t0[0] = now_ms()
        events = [{"a": "cfg", "vc": vc_of(ver), "ver": ver}]
        when = t0[0]
        plan = []
        for p in case["permits"]:
            when += p["gap"]
            plan.append((when, p["T"]))
        tasks = []
        guard = 0

        def snap(ev, raised=0):
            ev.update(task=list(st["task"]), main=list(st["main"]), pol=st["pol"], open=st["open"], keys=st["keys"], raised=raised,
                      t=now_ms() - t0[0])
            st["task"], st["main"] = [], []
            events.append(ev)
        while guard < 300:
            guard += 1
            timer = apprig.next_timer(loop)
            timer_ms = None if timer is None else int(round(timer * 1000))
            tp = plan[0][0] if plan else None
            if tp is not None and (timer_ms is None or tp < timer_ms):
                loop._vnow = max(loop._vnow, tp / 1000.0)
                _w, T_ = plan.pop(0)
                raised = 0
                try:
                    tk = asyncio.ensure_future(app.permit(T_))
                    tasks.append(tk)
                except BaseException:  # noqa
                    raised = 1
                await apprig.settle(loop)
                if tk.done() and tk.exception() is not None:
                    raised = 1
                snap({"a": "permit", "T": T_}, raised)
                continue
            if timer_ms is None:
                break
            loop._vnow = max(loop._vnow, timer)
            await apprig.settle(loop)
            snap({"a": "tick"})
        pend = [x for x in asyncio.all_tasks(loop) if x is not asyncio.current_task(loop) and not x.done()]
        events.append({"a": "end", "pending": len(pend), "pol": st["pol"], "t": now_ms() - t0[0]})
        return events
    return vloop.run(main)


def sig(meta, v, tr):
    e = tr[v.stuck_at - 1] if v.stuck_at and v.stuck_at <= len(tr) else {}
    return f"trace:PermitPolicy:{v.invariant or e.get('a')}:{e.get('task')}:{e.get('main')}"


def run(ctx: Ctx):
    base = {"Ts": "{0, 1, 3}", "MaxT": "20000" if ctx.quick else "30000", "MaxPermits": "3" if ctx.quick else "4"}
    for vc in ("v4", "v5", "v8"):
        ctx.model_check("PermitPolicyMC", f"MC_PermitPolicy_{vc}", constants=dict(base, Vc=f'"{vc}"'), invariants=("Restored", "Covered"),
                        properties=("EventuallyRestored",), required_actions=("DoPermit", "Advance") + (("Fire",) if vc == "v8" else ()), workers=4)
    # overlapping permits: the counter-example to WindowCovered must exist (the deviation is real and the invariant is not vacuous)
    cfg = T.write_cfg(ctx.workdir / "MC_PermitPolicy_overlap.cfg", spec="SpecOverlap", constants=dict(base, Vc='"v8"'), invariants=("Restored", "Covered"))
    res = T.run_tlc("PermitPolicyMC", cfg, workdir=ctx.workdir, workers=4)
    ctx.states += res.distinct
    ctx.model_runs.append({"module": "PermitPolicyMC", "config": "overlapping permits (counter-example to Covered expected)", **res.summary()})
    ctx.notes["deviation_overlapping_permits"] = ("TLC counter-example: " + " ".join(res.error_trace.split())[:1500]) if res.violated == ["Covered"] else "NOT FOUND"
    if res.violated != ["Covered"]:
        raise T.MachineryError(f"expected exactly the counter-example to Covered under overlapping permits, got {res.violated} / {res.error_kind}")
    n = 30 if ctx.quick else 1200
    cases = [gen_case(ver, random.Random(ctx.seed * 9173 + ver * 337 + k)) for ver in range(4, 15) for k in range(n)]
    traces = pmap(run_case, cases, chunksize=8)
    ctx.evaluations = sum(len(t) for t in traces)
    ctx.distinct_nontrivial = len({str(t) for t in traces})
    ctx.rule = (f"per protocol version 4..14: {n} schedules of 1..5 permit(T) calls, T in 0/1/5/60/254 s, gaps around 0, T+2 s (the restore instant) and far "
                "apart; the commands the NCP received per step split into task / caller path, policy, join window and key count compared; distinct = distinct run")
    ctx.add_sample(traces[-1][:4])
    ctx.validate_traces("Trace_PermitPolicy", traces, invariants=("Restored",), metas=cases, label="permit", sig=sig)
    ctx.exhaustive = False
    ctx.assumptions += ["extension beyond the listed properties; every command answered at once", "zigpy.util.Requests shim; simulated EZSP NCP",
                        "policy value 0x03 = ALLOW_JOINS | ALLOW_UNSECURED_REJOINS pinned from the EZSP reference; the configured policy is set to 0x19 by the run"]


def replay(ctx: Ctx, data):
    m = data["replay"]["meta"]
    tr = run_case(m)
    ctx.validate_traces("Trace_PermitPolicy", [tr], invariants=("Restored",), metas=[m], label="permit", sig=sig)
    ctx.add_sample(tr[:4])
