"""C02 - the ASH receiver decodes any byte stream like the reference decoder, under any chunking.

spec/AshRx.tla is the reference decoder (one byte per step).  AshRxMC checks it against itself;
the real AshProtocol.data_received is fed (a) every stream over a reserved-byte-rich alphabet
(+ whole valid frames as macro symbols) up to a length bound under all chunkings at symbol
boundaries, (b) random mutated concatenations of valid frames under random chunkings, (c) megabytes
of flag-free garbage under tracemalloc; each recorded trace is validated by TLC (Trace_AshRx)."""
from __future__ import annotations

import itertools
import tracemalloc

from . import ashref, vloop
from .c04 import pmap
from .core import Ctx
from .seams import FakeSerialTransport

ALPHA = [0x7E, 0x7D, 0x11, 0x13, 0x18, 0x1A, 0x5E, 0x31, 0x00]


class RxRig:
    def __init__(self):
        import bellows.ash as ash
        self.out = []
        self.tr = FakeSerialTransport()
        self.tr.on_write = self._w
        self.p = ash.AshProtocol(self)
        self.p.connection_made(self.tr)

    def connection_made(self, t):
        pass

    def data_received(self, data):
        self.out.append({"o": "up_data", "pl": list(bytes(data))})

    def reset_received(self, code):
        self.out.append({"o": "up_reset", "code": int(code)})

    def connection_lost(self, exc):
        pass

    def eof_received(self):
        pass

    def _w(self, data):
        for f in ashref.decode_write(data):
            f = dict(f)
            f.pop("cancel", None)
            f.pop("residue", None)
            self.out.append({"o": "write", "f": f})

    def feed(self, chunk: bytes):
        try:
            self.p.data_received(bytes(chunk))
        except BaseException as e:  # noqa - an escaping exception is an observable outcome
            self.out.append({"o": "raised", "exc": type(e).__name__})
        ev = {"a": "rx", "bytes": list(chunk), "out": self.out}
        self.out = []
        return ev


def run_stream(args):
    """args = list of chunks (bytes) -> trace"""
    import asyncio
    loop = vloop.VLoop()
    asyncio.set_event_loop(loop)
    try:
        rig = RxRig()
        return [rig.feed(c) for c in args]
    finally:
        asyncio.set_event_loop(None)
        loop.close()


def run_streams(batch):
    import asyncio
    loop = vloop.VLoop()
    asyncio.set_event_loop(loop)
    try:
        out = []
        for chunks in batch:
            rig = RxRig()
            out.append([rig.feed(c) for c in chunks])
        return out
    finally:
        asyncio.set_event_loop(None)
        loop.close()


def chunkings(symbols):
    """all 2^(n-1) ways of cutting the symbol sequence into reads"""
    n = len(symbols)
    for mask in range(1 << max(n - 1, 0)):
        chunks, cur = [], b""
        for i, s in enumerate(symbols):
            cur += s
            if i == n - 1 or (mask >> i) & 1:
                chunks.append(cur)
                cur = b""
        yield chunks


def valid_frames(rng, exp):
    """a random valid frame (bytes incl. flag); exp = list holding the expected number"""
    r = rng.random()
    if r < 0.5:
        frm = exp[0] if rng.random() < 0.75 else rng.randrange(8)
        pl = [rng.choice(ALPHA + [rng.randrange(256)]) for _ in range(rng.randint(0, 12))]
        f = {"type": "DATA", "frm": frm, "retx": int(rng.random() < 0.3), "ack": rng.randrange(8), "pl": pl}
        if frm == exp[0]:
            exp[0] = (exp[0] + 1) % 8
    elif r < 0.7:
        f = {"type": rng.choice(("ACK", "NAK")), "res": 0, "nrdy": 0, "ack": rng.randrange(8)}
    elif r < 0.78:
        f = {"type": "RST"}
    elif r < 0.9:
        f = {"type": "RSTACK", "ver": 2, "code": rng.randrange(256)}
        exp[0] = 0
    else:
        f = {"type": "ERROR", "ver": 2, "code": rng.randrange(256)}
    return ashref.wire(f)


def random_stream(rng, maxbuf):
    exp = [0]
    s = bytearray()
    for _ in range(rng.randint(3, 30)):
        fr = bytearray(valid_frames(rng, exp))
        m = rng.random()
        if m < 0.45:
            pass
        elif m < 0.6 and len(fr) > 1:       # flip a byte
            fr[rng.randrange(len(fr))] ^= 1 << rng.randrange(8)
        elif m < 0.7 and len(fr) > 1:       # delete a byte
            del fr[rng.randrange(len(fr))]
        elif m < 0.78 and len(fr) > 4:      # over-stuff: escape a byte that needs no escaping (invalid escape, CRC would match)
            idx = [i for i in range(len(fr) - 1) if fr[i] not in ashref.RESERVED and (i == 0 or fr[i - 1] != 0x7D)]
            if idx:
                i = rng.choice(idx)
                fr[i:i + 1] = bytes((0x7D, fr[i] ^ 0x20))
        elif m < 0.85:                      # insert a reserved byte at a random intra-frame position
            fr.insert(rng.randrange(len(fr) + 1), rng.choice(ALPHA[:6]))
        else:                               # insert an arbitrary byte
            fr.insert(rng.randrange(len(fr) + 1), rng.randrange(256))
        s += fr
        if rng.random() < 0.1:
            s += bytes(rng.choice(ALPHA) for _ in range(rng.randint(1, 6)))
    s = bytes(s[:400])
    chunks, i = [], 0
    while i < len(s):
        n = rng.choice((1, 1, 2, 3, 5, 8, 13, 40, 120))
        chunks.append(s[i:i + n])
        i += n
    return chunks


def mem_trace(total, chunk, maxbuf, budget_s=40.0):
    import asyncio
    loop = vloop.VLoop()
    asyncio.set_event_loop(loop)
    try:
        rig = RxRig()
        garbage = bytes((i * 7 + 3) % 251 if ((i * 7 + 3) % 251) not in (0x7E, 0x1A, 0x18, 0x11, 0x13) else 0x55
                        for i in range(chunk))
        tracemalloc.start()
        base = tracemalloc.get_traced_memory()[0]
        tracemalloc.reset_peak()
        fed = 0
        raised = None
        import time as _t
        t0 = _t.time()
        while fed < total and _t.time() - t0 < budget_s:
            try:
                rig.p.data_received(garbage)
            except Exception as e:  # noqa
                raised = type(e).__name__
                break
            fed += chunk
        cur, peak = tracemalloc.get_traced_memory()
        tracemalloc.stop()
        tr = [{"a": "mem", "fed": fed, "chunk": chunk, "peak": max(peak - base, 0), "held": max(cur - base, 0)}]
        if raised or rig.out:
            tr.append({"a": "rx", "bytes": [], "out": rig.out + ([{"o": "raised", "exc": raised}] if raised else [])})
            rig.out = []
        # the receiver must still work: cancel the residue, then a valid frame
        tr.append(rig.feed(bytes([0x1A]) + ashref.wire({"type": "DATA", "frm": 0, "retx": 0, "ack": 0, "pl": [1, 2, 3]})))
        return tr
    finally:
        asyncio.set_event_loop(None)
        loop.close()


def sig(meta, v, tr):
    e = tr[v.stuck_at - 1] if v.stuck_at and v.stuck_at <= len(tr) else {}
    return f"trace:AshRx:{meta.get('src')}:{e.get('a')}:" + bytes(e.get("bytes", [])[:12]).hex()


def run(ctx: Ctx):
    import bellows.ash as ash
    maxbuf = int(ash.MAX_BUFFER_SIZE)
    L = 4 if ctx.quick else 5
    ctx.model_check("AshRxMC", "MC_AshRx",
                    constants={"MaxAtt": "5", "Alphabet": "{" + ", ".join(map(str, ALPHA)) + "}", "MaxLen": str(L)},
                    invariants=("NeverUpOnInvalid", "BufBounded", "NoReservedInBuf", "DiscardClearsBuf"),
                    required_actions=("Feed",))
    va = ashref.wire({"type": "ACK", "res": 0, "nrdy": 0, "ack": 1})
    vd0 = ashref.wire({"type": "DATA", "frm": 0, "retx": 0, "ack": 0, "pl": [126, 17, 0]})
    vd1 = ashref.wire({"type": "DATA", "frm": 1, "retx": 0, "ack": 0, "pl": [126, 17, 0]})
    symbols = [bytes([b]) for b in ALPHA] + [va, vd0, vd1]
    streams, metas = [], []
    for n in range(1, L + 1):
        for seq in itertools.product(symbols, repeat=n):
            for ch in chunkings(seq):
                streams.append(ch)
                metas.append({"src": "enum", "chunks": [c.hex() for c in ch]})
    # every single insertion of a reserved byte (and of the escape byte before every byte), every single deletion and every single
    # re-escaping in a few valid frames, framed by a valid frame before and after, delivered whole, split at the edit, and byte by byte
    bases = [ashref.wire({"type": "DATA", "frm": 0, "retx": 0, "ack": 0, "pl": [126, 17, 0, 125, 19, 24, 26, 93]}),
             ashref.wire({"type": "DATA", "frm": 0, "retx": 1, "ack": 5, "pl": []}),
             ashref.wire({"type": "RSTACK", "ver": 2, "code": 11}),
             ashref.wire({"type": "ACK", "res": 0, "nrdy": 0, "ack": 3})]
    tail = ashref.wire({"type": "DATA", "frm": 1, "retx": 0, "ack": 0, "pl": [1, 2, 3]})
    for fr in bases:
        edits = []
        for i in range(len(fr) + 1):
            for b in ALPHA[:6] + [0x7D]:
                edits.append((i, fr[:i] + bytes([b]) + fr[i:]))
        for i in range(len(fr)):
            edits.append((i, fr[:i] + fr[i + 1:]))
            if fr[i] not in ashref.RESERVED and (i == 0 or fr[i - 1] != 0x7D):
                edits.append((i, fr[:i] + bytes((0x7D, fr[i] ^ 0x20)) + fr[i + 1:]))
        for k, (i, ed) in enumerate(edits):
            st = va + ed + tail
            cut = len(va) + i
            variants = [[st], [st[:cut], st[cut:]], [st[:cut + 1], st[cut + 1:]]]
            if not ctx.quick or k % 4 == 0:
                variants.append([bytes([x]) for x in st])
            for ch in variants:
                ch = [c for c in ch if c]
                streams.append(ch)
                metas.append({"src": "edit", "chunks": [c.hex() for c in ch]})
    # length checks: DATA frames with a valid CRC whose data field is shorter than 3 or longer than 128 bytes (up to what still fits the
    # receive buffer), between two ordinary frames; the reference decoder either discards such a frame or handles all of it
    odd_idx = set()
    lrng = __import__("random").Random(ctx.seed + 77)
    for ln in (0, 1, 2, 3, 4, 127, 128, 129, 130, 200, 255, 256, 257, 258, 300, 400, 512, 700, 900):
        for kind in ("seq", "rand") if (not ctx.quick or ln in (2, 129, 256, 257, 300, 900)) else ("seq",):
            pl = [(i * 5 + 1) % 256 for i in range(ln)] if kind == "seq" else [lrng.randrange(256) for _ in range(ln)]
            for frm, retx in ((0, 0), (1, 0), (0, 1)):
                fr = ashref.wire({"type": "DATA", "frm": frm, "retx": retx, "ack": 0, "pl": pl})
                st = va + fr + ashref.wire({"type": "DATA", "frm": 1, "retx": 0, "ack": 0, "pl": [1, 2, 3]}) + vd0
                if len(fr) > maxbuf - 40:
                    continue
                for ch in ([st], [st[:len(va) + len(fr) // 2], st[len(va) + len(fr) // 2:]], [st[i:i + 100] for i in range(0, len(st), 100)]):
                    if not (3 <= ln <= 128):
                        odd_idx.add(len(streams))
                    streams.append(ch)
                    metas.append({"src": "length", "len": ln, "chunks": [c.hex() for c in ch]})
    n_enum = len(streams)
    rng = ctx.rng
    for _ in range(2000 if ctx.quick else 40000):
        ch = random_stream(rng, maxbuf)
        streams.append(ch)
        metas.append({"src": "random", "chunks": [c.hex() for c in ch]})
    # split inside macro symbols too: every byte its own read for the random ones is covered by chunk size 1
    B = 500
    batches = [streams[i:i + B] for i in range(0, len(streams), B)]
    traces = [t for b in pmap(run_streams, batches, chunksize=1) for t in b]
    for i in odd_idx:
        for e in traces[i]:
            e["odd"] = 1
    # memory bound under flag-free garbage
    total = (8 if ctx.quick else 64) << 20
    for chunk in ((4096, 65536) if ctx.quick else (4096, 65536, 1 << 20)):
        traces.append(mem_trace(total, chunk, maxbuf))
        metas.append({"src": "mem", "total": total, "chunk": chunk})
    ctx.notes["memory_runs"] = [t[0] for t in traces if t and t[0]["a"] == "mem"]
    ctx.evaluations = len(traces)
    ctx.distinct_nontrivial = len({str(m) for m in metas})
    ctx.rule = (f"all streams of up to {L} symbols over {len(symbols)} symbols (9 reserved-rich bytes + 3 whole valid frames) under all "
                f"2^(n-1) chunkings at symbol boundaries, and every single insertion of a reserved / escape byte, single deletion and single re-escaping in four "
                f"valid frames between two valid frames, delivered whole / split at the edit / byte by byte; valid-CRC DATA frames with data fields of 0..900 bytes (length check) ({n_enum} runs); random concatenations of valid frames with flipped / deleted / "
                "inserted bytes under random chunkings (read sizes 1..120); flag-free garbage runs under tracemalloc; distinct = distinct chunk list")
    ctx.add_sample({"chunks": metas[n_enum + 1]["chunks"], "trace": traces[n_enum + 1]})
    ctx.validate_traces("Trace_AshRx", traces, constants={"MaxAtt": "5", "MaxBuf": str(maxbuf)}, metas=metas,
                        label="receiver bytes", sig=sig)
    ctx.exhaustive = False
    ctx.assumptions += ["reads plus unterminated residue stay below the receive-buffer bound (property quantifier)",
                        "memory clause: tracemalloc measurement is harness-side, TLC decides only the inequality 4*(bound+read size)+64KiB",
                        "a DATA frame whose data field is outside 3..128 bytes may be discarded (ASH text) or handled whole (what bellows does up to 256 bytes) - both are behaviours of the reference decoder; ACK/NAK frames with surplus data are accepted (latitude)"]


def replay(ctx: Ctx, data):
    import bellows.ash as ash
    m = data["replay"]["meta"]
    if m["src"] == "mem":
        tr = mem_trace(m["total"], m["chunk"], int(ash.MAX_BUFFER_SIZE))
    else:
        tr = run_stream([bytes.fromhex(c) for c in m["chunks"]])
        if m["src"] == "length" and not 3 <= m["len"] <= 128:
            for e in tr:
                e["odd"] = 1
    ctx.validate_traces("Trace_AshRx", [tr], constants={"MaxAtt": "5", "MaxBuf": str(int(ash.MAX_BUFFER_SIZE))},
                        metas=[m], label="receiver bytes", sig=sig)
    ctx.add_sample(tr)
