"""Simulated EZSP NCP (frame level) and fake gateway.

The real bellows.ezsp.EZSP talks to `FakeGateway` (what bellows.uart.connect would return); every frame
the host hands to `send_data` reaches `NcpEzsp.receive`, which decodes the header with the layout of
ITS OWN version only (the legacy 3-byte `version` query is understood by every version), decodes the
arguments with the command tables of that version, runs a per-command handler against its state and
answers through `EZSP.frame_received`.  Per-command behaviour can be scripted (reply, no reply, late
reply, duplicate reply, callbacks before/after, link-level send failure).

Request/response (de)serialisation uses bellows' own command tables - codec fidelity is property C07's
subject and is checked there against spec/EzspCodec.tla with an independent encoder."""
from __future__ import annotations

import asyncio
import importlib


def layout_of(version: int) -> str:
    return "legacy3" if version <= 4 else ("legacy5" if version <= 7 else "ext")


def parse_header(layout: str, data: bytes):
    """-> (seq, frame_id, payload) or None if the frame does not have this layout"""
    data = bytes(data)
    if layout == "legacy3":
        if len(data) < 3:
            return None
        return data[0], data[2], data[3:]
    if layout == "legacy5":
        if len(data) < 5 or data[2] != 0xFF:
            return None
        return data[0], data[4], data[5:]
    if len(data) < 5 or (data[2] & 0x03) != 0x01:
        return None
    return data[0], data[3] | (data[4] << 8), data[5:]


def make_header(layout: str, seq: int, frame_id: int, response: bool = True, callback: bool = False) -> bytes:
    fc = 0x80 if response else 0x00
    if callback:
        fc |= 0x10
    if layout == "legacy3":
        return bytes([seq & 0xFF, fc, frame_id & 0xFF])
    if layout == "legacy5":
        return bytes([seq & 0xFF, fc, 0xFF, 0x00, frame_id & 0xFF])
    return bytes([seq & 0xFF, fc, 0x01, frame_id & 0xFF, (frame_id >> 8) & 0xFF])


def commands_of(version: int):
    v = max(4, min(version, 14))
    return importlib.import_module(f"bellows.ezsp.v{v}.commands").COMMANDS


def zero_value(typ):
    """a default value of a schema type (all-zero encoding)"""
    try:
        v, _ = typ.deserialize(b"\x00" * 256)
        return v
    except Exception:
        return typ()


class FakeGateway:
    """Stands in for the ThreadsafeProxy(Gateway) returned by bellows.uart.connect."""

    def __init__(self, ncp: "NcpEzsp"):
        self.ncp = ncp
        self.sent: list[bytes] = []
        self.closed = False
        self.send_modes: list[str] = []       # consumed per send_data call: "ok" | "fail" | "hang"
        self.resets = 0
        self.log = None

    async def send_data(self, data: bytes) -> None:
        data = bytes(data)
        self.sent.append(data)
        mode = self.send_modes.pop(0) if self.send_modes else "ok"
        if self.log:
            self.log({"o": "sent", "bytes": list(data), "mode": mode})
        if mode == "fail":
            import bellows.ash as ash
            import bellows.types as t
            raise ash.NcpFailure(t.NcpResetCode.ERROR_EXCEEDED_MAXIMUM_ACK_TIMEOUT_COUNT)
        if mode == "hang":
            await asyncio.get_running_loop().create_future()
        if self.closed:
            return
        self.ncp.receive(data)

    async def reset(self):
        self.resets += 1
        self.ncp.on_reset()
        await asyncio.sleep(0)

    def close(self):
        self.closed = True

    async def wait_for_startup_reset(self):
        await asyncio.get_running_loop().create_future()


class NcpEzsp:
    def __init__(self, version: int, loop, deliver=None, negotiated: bool = True):
        import bellows.types as t
        self.t = t
        self.version = version
        self.loop = loop
        self.deliver = deliver                 # callable(bytes): EZSP.frame_received
        self.cmds = commands_of(version)
        self.by_id = {cid: name for name, (cid, _tx, _rx) in self.cmds.items()}
        self.native = layout_of(version)
        self.negotiated = negotiated
        self.log: list[dict] = []              # every command received, in order
        self.last_seq = 0xFF          # no response sent yet
        self.script = {}                       # name -> list of behaviours consumed per call (or callable)
        self.handlers = {}                     # name -> callable(ncp, args dict) -> tuple of response values
        self.on_command = None                 # hook(entry) called for every received command
        self.misframed: list[bytes] = []
        # ---- state
        self.config: dict[int, int] = {}
        self.config_unreadable: set[int] = set()
        self.config_reject: set[int] = set()
        self.values: dict[int, bytes] = {}
        self.value_reject: set[int] = set()
        self.counters = [0] * 64
        self.free_buffers = 200
        self.stack_type = 2

    # ------------------------------------------------------------------ wire
    @property
    def layout(self):
        return self.native if self.negotiated else "legacy3"

    def on_reset(self):
        self.negotiated = False
        for h in getattr(self, "reset_hooks", []):
            h()

    def receive(self, data: bytes):
        # an NCP understands its native layout only; in addition every version answers the legacy
        # 3-byte `version` query in legacy form
        hdr = parse_header(self.native, data)
        fmt = self.native
        if hdr is None or (self.native != "legacy3" and len(data) == 4):
            legacy = parse_header("legacy3", data)
            if legacy is not None and legacy[1] == 0x00 and len(data) == 4:
                hdr = legacy
                fmt = "legacy3"
            else:
                self.misframed.append(bytes(data))
                self.log.append({"name": "<misframed>", "raw": bytes(data)})
                return
        seq, fid, payload = hdr
        name = self.by_id.get(fid)
        entry = {"name": name, "id": fid, "seq": seq, "fmt": fmt, "raw": bytes(data)}
        if name is None:
            self.log.append(entry)
            self._send(fmt, seq, "invalidCommand", [self.t.EzspStatus.ERROR_INVALID_FRAME_ID])
            return
        _cid, tx_schema, _rx = self.cmds[name]
        try:
            args, rest = self.t.deserialize_dict(payload, tx_schema)
        except Exception as e:  # noqa
            entry["undecodable"] = repr(e)
            self.log.append(entry)
            return
        entry["args"] = args
        entry["rest"] = rest
        self.log.append(entry)
        if self.on_command:
            self.on_command(entry)
        beh = self._behaviour(name, args)
        self._run_behaviour(beh, fmt, seq, name, args)

    def _behaviour(self, name, args):
        b = self.script.get(name)
        if b is None:
            b = self.script.get("*")
        if b is None:
            return "reply"
        if callable(b):
            return b(name, args)
        if isinstance(b, list):
            return b.pop(0) if b else "reply"
        return b

    def _run_behaviour(self, beh, fmt, seq, name, args):
        if isinstance(beh, (list, tuple)) and beh and beh[0] == "seq":
            for x in beh[1:]:
                self._run_behaviour(x, fmt, seq, name, args)
            return
        kind = beh if isinstance(beh, str) else beh[0]
        if kind == "reply":
            self._send(fmt, seq, name, self._result(name, args))
        elif kind == "noreply":
            pass
        elif kind == "late":           # ("late", seconds)
            vals = self._result(name, args)
            self.loop.call_later(beh[1], self._send_now, fmt, seq, name, vals)
        elif kind == "twice":
            vals = self._result(name, args)
            self._send(fmt, seq, name, vals)
            self._send(fmt, seq, name, vals)
        elif kind == "values":         # ("values", [..]) reply with the given values
            self._send(fmt, seq, name, beh[1])
        elif kind == "callback":       # ("callback", cbname, values)
            self.callback(beh[1], beh[2], fmt=fmt)
        elif kind == "otherseq":       # reply under a different sequence number
            self._send(fmt, (seq + beh[1]) & 0xFF, name, self._result(name, args))
        elif kind == "invalid":        # the NCP does not know the command: invalidCommand under the request's sequence number
            self._send(fmt, seq, "invalidCommand", [self.t.EzspStatus.ERROR_INVALID_FRAME_ID])
        elif kind == "raw":            # ("raw", bytes)
            self.loop.call_soon(self.deliver, bytes(beh[1]))
        else:
            raise ValueError(beh)

    def _result(self, name, args):
        h = self.handlers.get(name)
        r = None
        if h is not None:
            r = h(self, args)
        else:
            m = getattr(self, "cmd_" + name, None)
            if m is not None:
                r = m(args)
        if r is not None:
            return list(r)
        _cid, _tx, rx_schema = self.cmds[name]
        return [zero_value(ty) for ty in rx_schema.values()]

    def encode(self, fmt, seq, name, values, callback=False):
        cid, _tx, rx_schema = self.cmds[name]
        body = self.t.serialize_dict(list(values), {}, rx_schema) if isinstance(rx_schema, dict) else rx_schema(*values).serialize()
        return make_header(fmt, seq, cid, response=True, callback=callback) + body

    def _send(self, fmt, seq, name, values):
        self.loop.call_soon(self._send_now, fmt, seq, name, values)

    def _send_now(self, fmt, seq, name, values):
        self.last_seq = seq           # callbacks carry the sequence number of the NCP's last response
        self.deliver(self.encode(fmt, seq, name, values))

    def callback(self, name, values, fmt=None, seq=None, now=False):
        data = self.encode(fmt or self.layout, self.last_seq if seq is None else seq, name, values, callback=True)
        if now:
            self.deliver(data)
        else:
            self.loop.call_soon(self.deliver, data)

    # ------------------------------------------------------------------ default command handlers
    def _ok(self):
        return self.t.EzspStatus.SUCCESS

    def cmd_version(self, a):
        if int(a["desiredProtocolVersion"]) == self.version:
            self.negotiated = True
        return [self.version, self.stack_type, 0x6710]

    def cmd_nop(self, a):
        return []

    def cmd_getConfigurationValue(self, a):
        cid = int(a["configId"])
        if cid in self.config_unreadable or cid not in self.config:
            return [self.t.EzspStatus.ERROR_INVALID_ID, 0]
        return [self._ok(), self.config[cid]]

    def cmd_setConfigurationValue(self, a):
        cid = int(a["configId"])
        if cid in self.config_reject:
            # the refusal's status is the firmware's choice (invalid value, invalid id, out of memory, ...)
            name = getattr(self, "reject_status", None) or "ERROR_INVALID_VALUE"
            if self.version >= 14 and name == "ERROR_OUT_OF_MEMORY":
                return [self.t.sl_Status.NO_MORE_RESOURCE]
            return [self.t.EzspStatus[name]]
        self.config[cid] = int(a["value"])
        return [self._ok()]

    def cmd_getValue(self, a):
        vid = int(a["valueId"])
        if vid == int(self.t.EzspValueId.VALUE_FREE_BUFFERS):
            return [self._ok(), bytes([self.free_buffers])]
        if vid not in self.values:
            return [self.t.EzspStatus.ERROR_INVALID_ID, b""]
        return [self._ok(), self.values[vid]]

    def cmd_setValue(self, a):
        vid = int(a["valueId"])
        if vid in self.value_reject:
            return [self.t.EzspStatus.ERROR_INVALID_VALUE]
        self.values[vid] = bytes(a["value"])
        return [self._ok()]

    def cmd_readCounters(self, a):
        if getattr(self, "n_counters", None):
            return [[(i * 3) % 100 for i in range(self.n_counters)]]        # firmware reporting fewer / more counters than the host knows
        n = len(self.t.EmberCounterType) if self.version > 4 else 40
        rx = list(self.cmds["readCounters"][2].values())[0]
        try:
            n = rx._length if hasattr(rx, "_length") and rx._length else n
        except Exception:
            pass
        return [[(i * 3) % 100 for i in range(n)]]

    def cmd_readAndClearCounters(self, a):
        return self.cmd_readCounters(a)


async def make_ezsp(loop, version: int, negotiated_direct: bool = True):
    """Real EZSP object on a FakeGateway with a simulated NCP of `version`.
    negotiated_direct=True switches the host's protocol handler with EZSP's own
    _switch_protocol_version (no bring-up traffic); False leaves bring-up to the caller."""
    import bellows.ezsp
    import bellows.uart
    ncp = NcpEzsp(version, loop, negotiated=negotiated_direct)
    gw = FakeGateway(ncp)

    async def fake_connect(config, application, use_thread=True):
        return gw
    orig = bellows.uart.connect
    bellows.uart.connect = fake_connect
    try:
        ezsp = bellows.ezsp.EZSP({"path": "/dev/null", "baudrate": 115200, "flow_control": None})
        await ezsp.connect(use_thread=False)
    finally:
        bellows.uart.connect = orig
    ncp.deliver = ezsp.frame_received
    if negotiated_direct:
        ezsp._switch_protocol_version(version)
        ezsp.start_ezsp()
    return ezsp, gw, ncp
