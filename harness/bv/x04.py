"""X04 (extension, not one of the listed properties) - bringing the network up at application level.

spec/NetStart.tla models ControllerApplication.start_network() as one step per observable event: the network-state query, the network
initialisation and the bounded wait for NETWORK_UP, the trust-centre address repair (security state, NV3 token read / write, then an NCP
reset with a second bring-up), source routing, policies, the read-only load of the network settings, the registration of the application
callback + running mark, the multicast start-up; and the application's disconnect / connect cycle on the same application object.
NetStartMC closes it with an NCP giving every class of answer (or none) to every command and checks: running / registered only with the
network up since the last NCP reset and all policies written; nothing later than the bring-up on a network that is not up; one
registration and at most one reset (only after the token was rewritten); a rewritten token is followed by the reset; a start-up that
fails before the registration leaves nothing behind.  The real application runs through its own connect() / start_network() /
disconnect() against the persistent simulated NCP on versions 4..14; TLC judges every event (Trace_NetStart) and evaluates the clauses
on every state."""
from __future__ import annotations

import asyncio
import itertools
import random

from . import apprig, tlc as T, vloop
from .c04 import pmap
from .core import Ctx

LEVEL = "model_checking"
INVS = ("Up", "LateUp", "OnceOnly", "TokReset", "Clean")
READ_PREFIXES = ("get", "export", "read", "find", "lookup", "networkState")


def default_plan():
    return {"state": "nonet", "init": "ok", "up": True, "sec": "match", "tokget": "ok", "tokset": "ok", "state2": "nonet", "init2": "ok", "up2": True,
            "conc": "ok", "polbad": 0, "lost": None, "cycles": 1}


def run_case(case):
    ver, src, plan = case["ver"], case["src"], dict(default_plan(), **case["plan"])

    async def main(loop):
        from . import compat
        compat.install()
        import bellows.zigbee.application as A
        life = apprig.Lifecycle(loop, ver, source_routing=src)
        app, ncp, store = life.app, life.ncp, life.store
        t = ncp.t
        events = []
        cur = {"ev": None}

        def ms():
            return int(round(loop.time() * 1000))

        def close_cmd():
            e = cur["ev"]
            if e is not None and e["r"] is None:
                e["r"] = "noreply"
            cur["ev"] = None

        def emit(ev):
            close_cmd()
            ev["t"] = ms()
            events.append(ev)

        def classify(name, reply_name, vals):
            sl = lambda x: t.sl_Status.from_ember_status(x)   # noqa  (harness-side reading of the status the harness itself sent)
            if reply_name == "invalidCommand":
                return "invalid"
            if name == "networkState":
                return "joined" if int(vals[0]) == int(t.EmberNetworkStatus.JOINED_NETWORK) else "nonet"
            if name in ("networkInit", "networkInitExtended"):
                st = int(vals[0])
                nj = int(t.sl_Status.NOT_JOINED) if isinstance(vals[0], t.sl_Status) else int(t.EmberStatus.NOT_JOINED)
                return "ok" if st == 0 else "notjoined" if st == nj else "fail"
            if name == "getCurrentSecurityState":
                if int(vals[0]) != 0:
                    return "bad"
                return "match" if bytes(vals[1].trustCenterLongAddress.serialize()) == bytes(store.eui64) else "mismatch"
            if name == "getTokenData":
                return "ok" if int(vals[0].status) == 0 else "bad"
            if name in ("setTokenData", "setConcentrator", "setPolicy"):
                return "ok" if int(vals[0]) == 0 else "bad"
            return "-"

        def on_command(entry):
            close_cmd()
            name = entry["name"]
            ev = {"a": "cmd", "n": name, "r": None, "k": "read" if name.startswith(READ_PREFIXES) else "write", "t": ms()}
            events.append(ev)
            cur["ev"] = ev
        ncp.on_command = on_command
        orig_send = ncp._send

        def _send(fmt, seq, name, values):
            e = cur["ev"]
            if e is not None and e["r"] is None:
                e["r"] = classify(e["n"], name, values)
            orig_send(fmt, seq, name, values)
        ncp._send = _send
        # NETWORK_UP as sent by the NCP (suppressible)
        orig_status = store.status_event
        ctl = {"up": True}

        def status_event(up):
            if up and not ctl["up"]:
                return
            if up:
                ev = {"a": "up", "t": ms()}
                events.append(ev)           # right behind the command that caused it (its answer class is filled in afterwards)
            orig_status(up)
        store.status_event = status_event

        def on_gateway(gw, ezsp):
            orig_reset = gw.reset

            async def reset():
                emit({"a": "reset"})
                return await orig_reset()
            gw.reset = reset
            orig_add = ezsp.add_callback

            def add_callback(cb):
                if cb == app.ezsp_callback_handler:
                    emit({"a": "reg"})
                return orig_add(cb)
            ezsp.add_callback = add_callback
        life.on_gateway = on_gateway
        cev = app.controller_event
        orig_set = cev.set

        def set_():
            if not cev.is_set():
                emit({"a": "set"})
            orig_set()
        cev.set = set_

        def cbs():
            return (len(app._ezsp._callbacks) - 1) if app._ezsp is not None else 0
        # ---- first connection (not recorded), a stored network, then the recorded start-ups
        r = await life.run(app.connect)
        if r:
            raise RuntimeError("rig: connect failed: " + r)
        await life.form()
        proto = app._ezsp._protocol
        npol = len(proto.SCHEMAS[A.CONF_EZSP_POLICIES](app.config[A.CONF_EZSP_POLICIES]))
        events.clear()
        cur["ev"] = None
        events.append({"a": "cfg", "src": bool(src), "v8": ver >= 8, "tok": "getTokenData" in ncp.cmds, "npol": npol,
                       "upT": int(A.NETWORK_UP_TIMEOUT_S * 1000), "ver": ver})

        def arm(cycle):
            p = plan
            sfx = "" if cycle == 1 else "c"
            ncp.script.clear()
            store.running = p["state"] == "joined"
            store.stored = p["state"] == "joined" or p["init"] != "notjoined"       # a running stack has a stored network
            ctl["up"] = p["up"]
            init_name = "networkInit" if "networkInit" in ncp.cmds else "networkInitExtended"
            if p["init"] == "fail":
                ncp.script[init_name] = [("values", [store.st(init_name, False)])]
            store.tc_eui = bytes(store.eui64) if p["sec"] != "mismatch" else bytes([0xBB] * 8)
            if p["sec"] == "bad":
                ncp.script["getCurrentSecurityState"] = [("values", [store.st("getCurrentSecurityState", False),
                                                                     t.EmberCurrentSecurityState(bitmask=t.EmberCurrentSecurityBitmask(0),
                                                                                                 trustCenterLongAddress=t.EUI64(store.tc_eui))])]
            store.tc_token = "ok" if p["tokget"] == "ok" else "bad"
            if p["tokget"] == "invalid" and "getTokenData" in ncp.cmds:
                ncp.script["getTokenData"] = ["invalid"]
            store.tc_token_write = p["tokset"]
            if p["conc"] == "bad":
                ncp.script["setConcentrator"] = [("values", [store.st("setConcentrator", False)])]
            if p["polbad"]:
                ncp.script["setPolicy"] = ["reply"] * (p["polbad"] - 1) + [("values", [t.EzspStatus.ERROR_INVALID_ID])]
            if p["lost"]:
                nm, nth = p["lost"]
                if nm == "networkInit":
                    nm = init_name
                if nm in ncp.cmds:
                    ncp.script[nm] = list(ncp.script.get(nm, []))[:nth - 1] + ["reply"] * max(0, nth - 1 - len(ncp.script.get(nm, []))) + ["noreply"]
            # what the NCP does after the repair's reset (second bring-up)
            hooks = [store.on_reset]

            def after_reset():
                store.running = p["state2"] == "joined"
                store.stored = p["state2"] == "joined" or p["init2"] != "notjoined"
                ctl["up"] = p["up2"]
                if p["init2"] == "fail":
                    ncp.script[init_name] = [("values", [store.st(init_name, False)])]
            hooks.append(after_reset)
            ncp.reset_hooks = hooks
        for cycle in range(1, plan["cycles"] + 1):
            arm(cycle)
            out = await life.run(app.start_network, 120)
            emit({"a": "end", "out": out or "ok", "running": bool(app.controller_event.is_set()), "cbs": cbs()})
            if cycle < plan["cycles"]:
                await app.disconnect()
                emit({"a": "disconnect", "running": bool(app.controller_event.is_set())})
                ncp.script.clear()
                ncp.reset_hooks = [store.on_reset]
                store.stored = True
                r = await life.run(app.connect)
                if r:
                    emit({"a": "connectfailed", "exc": r})
                    break
                emit({"a": "connected", "running": bool(app.controller_event.is_set()), "cbs": cbs()})
        close_cmd()
        return events
    return vloop.run(main)


def plans(quick, rng):
    out = []
    # the decision tree: every combination along the path that reaches the choice
    for state in ("joined", "nonet"):
        for init, up in ((("ok", True), ("ok", False), ("notjoined", True), ("fail", True)) if state == "nonet" else (("ok", True),)):
            out.append({"state": state, "init": init, "up": up})
    for sec in ("mismatch", "bad"):
        out.append({"sec": sec})
        out.append({"sec": sec, "state": "joined"})
    for tokget in ("ok", "bad", "invalid"):
        for tokset in ("ok", "bad"):
            if tokget != "ok" and tokset == "bad":
                continue
            for state2, init2, up2 in (("joined", "ok", True), ("nonet", "ok", True), ("nonet", "ok", False), ("nonet", "notjoined", True), ("nonet", "fail", True)):
                if (tokget != "ok" or tokset != "ok") and (state2, init2, up2) != ("nonet", "ok", True):
                    continue
                out.append({"sec": "mismatch", "tokget": tokget, "tokset": tokset, "state2": state2, "init2": init2, "up2": up2})
    out.append({"conc": "bad"})
    for k in (1, 2, 3):
        out.append({"polbad": k})
    # a command the NCP never answers, at every stage
    for nm, nth in (("networkState", 1), ("networkInit", 1), ("getEui64", 1), ("getCurrentSecurityState", 1), ("getTokenData", 1), ("setTokenData", 1),
                    ("setConcentrator", 1), ("setSourceRouteDiscoveryMode", 1), ("setPolicy", 1), ("setPolicy", 2), ("getNetworkParameters", 1), ("getNodeId", 1),
                    ("networkState", 2), ("getMulticastTableEntry", 1), ("getMulticastTableEntry", 3), ("getConfigurationValue", 1)):
        out.append({"lost": (nm, nth)})
        out.append({"lost": (nm, nth), "sec": "mismatch"})
    # disconnect, connect and start again on the same application object (after a good and after a failed start-up)
    for base in ({}, {"state": "joined"}, {"sec": "mismatch"}, {"init": "notjoined"}, {"up": False}, {"polbad": 2}, {"lost": ("getMulticastTableEntry", 2)}):
        out.append(dict(base, cycles=2))
        out.append(dict(base, cycles=3))
    if not quick:
        keys = {"state": ("joined", "nonet"), "init": ("ok", "notjoined", "fail"), "up": (True, False), "sec": ("match", "mismatch", "bad"),
                "tokget": ("ok", "bad", "invalid"), "tokset": ("ok", "bad"), "state2": ("joined", "nonet"), "init2": ("ok", "notjoined", "fail"),
                "up2": (True, False), "conc": ("ok", "bad"), "polbad": (0, 0, 1, 3), "cycles": (1, 1, 2)}
        for _ in range(400):
            out.append({k: rng.choice(v) for k, v in keys.items()})
    return out


def sig(meta, v, tr):
    e = tr[v.stuck_at - 1] if v.stuck_at and v.stuck_at <= len(tr) else {}
    return f"trace:NetStart:{v.invariant or e.get('a')}:{e.get('n', e.get('out', ''))}:{e.get('r', '')}"


def corrupt(tr, rng):
    """binding self-test: damage one recorded field of an accepted run; TLC must reject it"""
    tr = [dict(e) for e in tr]
    kind = rng.randrange(4)
    if kind == 0:                       # the registration vanishes
        idx = [i for i, e in enumerate(tr) if e["a"] == "reg"]
        if idx:
            del tr[idx[0]]
            return tr
    if kind == 1:                       # policies after the registration
        i = next((i for i, e in enumerate(tr) if e["a"] == "cmd" and e["n"] == "setPolicy"), None)
        j = next((i for i, e in enumerate(tr) if e["a"] == "reg"), None)
        if i is not None and j is not None:
            tr.insert(j + 1, tr.pop(i))
            return tr
    if kind == 2:                       # reported running although the start-up raised / the other way round
        for e in tr:
            if e["a"] == "end":
                e["running"] = not e["running"]
                return tr
    for e in tr:                        # the network-state answer flipped
        if e["a"] == "cmd" and e["n"] == "networkState":
            e["r"] = "joined" if e["r"] == "nonet" else "nonet"
            return tr
    return None


def run(ctx: Ctx):
    for src in ("TRUE", "FALSE"):
        for v8, tok in (("FALSE", "FALSE"), ("TRUE", "FALSE"), ("TRUE", "TRUE")):
            ctx.model_check("NetStartMC", f"MC_NetStart_{src}_{v8}_{tok}", constants={"Src": src, "V8": v8, "Tok": tok, "NPol": "3"},
                            invariants=INVS, required_actions=("Next",), workers=2, deadlock=False)
    # reachability witnesses: a good start-up and one through the repair's reset exist (TLC must violate the negations)
    for inv in ("NeverOk", "NeverRepaired"):
        cfg = T.write_cfg(ctx.workdir / f"MC_NetStart_{inv}.cfg", spec="Spec", constants={"Src": "TRUE", "V8": "TRUE", "Tok": "TRUE", "NPol": "3"}, invariants=(inv,))
        res = T.run_tlc("NetStartMC", cfg, workdir=ctx.workdir, workers=2)
        ctx.model_runs.append({"module": "NetStartMC", "config": f"witness {inv} (violation expected)", **res.summary()})
        if res.violated != [inv]:
            raise T.MachineryError(f"NetStartMC: expected a witness violating {inv}, got {res.violated} / {res.error_kind}")
    rng = random.Random(ctx.seed * 7907)
    ps = plans(ctx.quick, rng)
    vers = tuple(range(4, 15))
    cases = []
    for i, p in enumerate(ps):
        for ver in vers:
            if ctx.quick and (i + ver) % 3 and len(ps) > 40:
                continue
            cases.append({"ver": ver, "src": bool((i + ver) % 2) or "lost" in p and p["lost"][0].startswith("set"), "plan": p})
    traces = pmap(run_case, cases, chunksize=4)
    ctx.evaluations = sum(len(t_) for t_ in traces)
    ctx.distinct_nontrivial = len({str(t_) for t_ in traces})
    ctx.rule = ("per protocol version 4..14: the decision tree of start_network() (already joined / initialised with or without NETWORK_UP / not joined / refused; "
                "trust-centre address matching, differing, unreadable; token read ok / error status / unknown command; token write ok / refused; every outcome of the "
                "second bring-up after the repair's reset; concentrator refused; the k-th policy refused), a command left unanswered at every stage, and "
                "disconnect -> connect -> start_network cycles (2 and 3 connections) on the same application object after good and failed start-ups; distinct = distinct run")
    ctx.add_sample(traces[0][:12])
    ctx.validate_traces("Trace_NetStart", traces, invariants=INVS, metas=cases, label="start-up", sig=sig)
    # binding self-test
    good = [t_ for t_ in traces if t_[-1]["a"] == "end" and t_[-1].get("out") == "ok"][:60]
    bad = [c for c in (corrupt(t_, rng) for t_ in good) if c is not None]
    res = ctx_validate_quiet(ctx, bad)
    ctx.notes["binding_selftest"] = {"corrupted_runs": len(bad), "rejected": res}
    if res != len(bad):
        raise T.MachineryError(f"binding self-test: only {res} of {len(bad)} corrupted runs were rejected")
    ctx.exhaustive = False
    ctx.assumptions += ["extension beyond the listed properties", "zigpy.util.Requests shim; simulated EZSP NCP with the network-information store; zigpy's own "
                        "initialisation of the coordinator device object (ZDO requests to itself) is stubbed out",
                        "NETWORK_UP_TIMEOUT_S and the number of configured policies are read from the tree (configuration)"]


def ctx_validate_quiet(ctx, traces):
    from . import trace as TR
    if not traces:
        return 0
    res = TR.validate("Trace_NetStart", traces, workdir=ctx.workdir, invariants=INVS)
    return len(res.rejected)


def replay(ctx: Ctx, data):
    m = data["replay"]["meta"]
    if m["plan"].get("lost"):
        m["plan"]["lost"] = tuple(m["plan"]["lost"])
    tr = run_case(m)
    ctx.validate_traces("Trace_NetStart", [tr], invariants=INVS, metas=[m], label="start-up", sig=sig)
    ctx.add_sample(tr[:12])
