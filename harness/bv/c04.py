"""C04 - host receiver never hands a frame up twice or out of order, whatever arrives.

AshHostOpenMC (open peer) is model-checked; its state graph is replayed edge by edge on the
real AshProtocol (spec -> code); all short frame sequences from every expected-number state,
all 256 reset/error codes and long random sequences are recorded from the real code and
validated by TLC against Trace_AshHost with the C04 observer evaluated on every state."""
from __future__ import annotations

import itertools
import multiprocessing as mp
import os

from . import hostrig, tlc as T
from .core import Ctx

TCONST = {"MaxAtt": "5", "TMin": "400", "TMax": "3200"}
INV4 = ("C04_UpExactlyAccepted", "C04_OneAckPerData")
INV5 = ("C05_AttemptsBounded", "C05_RepeatSame", "C05_SilentWhenFailed", "C05_OneOutstanding",
        "C05_Consecutive", "C05_ToldOnce")


def host_consts():
    import bellows.ash as ash
    return {"MaxAtt": str(int(ash.ACK_TIMEOUTS)), "TMin": "400", "TMax": "3200"}


def alphabet(acknums=(0, 3), codes=(11, 2, 0x77), ecodes=(0x51, 0x80)):
    a = []
    for frm in range(8):
        for retx in (0, 1):
            for k in acknums:
                a.append({"type": "DATA", "frm": frm, "retx": retx, "ack": k, "pl": 100 + frm * 2 + retx})
    for k in acknums:
        a.append({"type": "ACK", "res": 0, "nrdy": 0, "ack": k})
        a.append({"type": "NAK", "res": 0, "nrdy": 0, "ack": k})
    a.append({"type": "RST"})
    for c in codes:
        a.append({"type": "RSTACK", "ver": 2, "code": c})
    for c in ecodes:
        a.append({"type": "ERROR", "ver": 2, "code": c})
    return a


def run_seq(args):
    """args = (start_state k, list of chunks (each a list of frames)) -> trace"""
    k, chunks = args

    async def script(r):
        if k:
            await r.recv([{"type": "DATA", "frm": i, "retx": 0, "ack": 0, "pl": 200 + i} for i in range(k)])
        for ch in chunks:
            if ch == "UPRAISE":
                r.up_raise_next = True          # the upper layer fails while consuming its next delivery
                continue
            await r.recv(ch)
    return hostrig.run_script(script)


class _Guard:
    """runs one job under an alarm: a run of the implementation that never returns ends the check as a machinery failure
    within minutes instead of hanging it"""

    def __init__(self, fn):
        self.fn = fn

    def __call__(self, x):
        import signal

        def _alarm(signum, frame):
            raise RuntimeError("a run of the implementation did not return within the per-job limit")
        old = signal.signal(signal.SIGALRM, _alarm)
        signal.alarm(int(os.environ.get("BV_JOB_TIMEOUT", "900")))
        try:
            return self.fn(x)
        finally:
            signal.alarm(0)
            signal.signal(signal.SIGALRM, old)


def pmap(fn, items, procs=16, chunksize=64):
    items = list(items)
    if len(items) < 200:
        return [fn(x) for x in items]
    fn = _Guard(fn)
    ctx = mp.get_context("fork")
    with ctx.Pool(procs) as pool:
        try:
            # a worker killed by something escaping the code under test must not hang the check
            return pool.map_async(fn, items, chunksize=chunksize).get(timeout=int(os.environ.get("BV_PMAP_TIMEOUT", "14400")))
        except mp.TimeoutError:
            from . import tlc as T
            raise T.MachineryError("harness workers did not finish in time (a run of the implementation hangs)")


def frame_from_tla(v):
    return {k: v[k] for k in v}


def sig(meta, v, tr):
    e = tr[v.stuck_at - 1] if v.stuck_at and v.stuck_at <= len(tr) else {}
    fs = e.get("fs") or []
    kinds = ",".join(f["type"] + ("r" if f.get("retx") else "") for f in fs[-2:])
    return f"trace:AshHost:{v.invariant or 'unexplained'}:{e.get('a')}:{kinds}"


def run(ctx: Ctx):
    consts = host_consts()
    dot = ctx.workdir / "open.dot"
    mc = {"MaxAtt": consts["MaxAtt"], "Codes": "{11, 2, 119, 81}", "AckNums": "{0, 3}"}
    ctx.model_check("AshHostOpenMC", "MC_AshHostOpen", constants=mc,
                    invariants=("DataRule", "RstackRule", "ErrorRule", "QuietRule", "ObserverAgrees"),
                    dump_dot=dot, workers=4, required_actions=("Recv", "Recv2"))
    nodes, inits, edges = T.parse_dot(dot)
    # spanning tree: path (list of chunks) from the initial state to every node
    adj = {}
    for a, b, lab in edges:
        adj.setdefault(a, []).append((b, lab))

    def chunk_of(lab):
        m = lab[lab.index("(") + 1: lab.rindex(")")]
        vals = T.parse_tla_value("<<" + m + ">>")
        return [frame_from_tla(x) for x in vals]
    path = {i: [] for i in inits}
    todo = list(inits)
    while todo:
        n = todo.pop(0)
        for b, lab in adj.get(n, []):
            if b not in path:
                path[b] = path[n] + [chunk_of(lab)]
                todo.append(b)
    jobs, metas = [], []
    seen = set()
    for a, b, lab in edges:
        key = (a, lab)
        if key in seen:
            continue
        seen.add(key)
        ch = chunk_of(lab)
        if len(ch) == 2 and ctx.quick and (hash(lab) % 4):
            continue
        jobs.append((0, path[a] + [ch]))
        metas.append({"src": "graph-edge", "k": 0, "chunks": path[a] + [ch]})
    ctx.notes["spec_graph"] = {"nodes": len(nodes), "distinct_edges": len(seen), "edges_replayed": len(jobs)}
    # harness enumeration: all sequences up to length L from every expected-number state
    alpha = alphabet()
    L = 2 if ctx.quick else 3
    for k in range(8):
        for n in range(1, L + 1):
            for i, seq in enumerate(itertools.product(alpha, repeat=n)):
                if n == 3 and ctx.quick:
                    continue
                # alternate: one chunk per frame / all frames in one read
                chunks = [list(seq)] if (i + k) % 2 else [[f] for f in seq]
                jobs.append((k, chunks))
                metas.append({"src": "enum", "k": k, "chunks": chunks})
    # every reset / error code
    for c in range(256):
        for ty in ("RSTACK", "ERROR"):
            chunks = [[{"type": ty, "ver": 2, "code": c}], [{"type": "DATA", "frm": 0 if ty == "RSTACK" else 3,
                                                            "retx": 0, "ack": 0, "pl": 7}]]
            jobs.append((3, chunks))
            metas.append({"src": "codes", "k": 3, "chunks": chunks})
    # the upper layer fails while consuming a delivery (DATA payload or reset notification; always the last frame of its read - what happens
    # to the rest of a read after such an exception is nobody's promise): the frame stays accepted and acknowledged exactly once - its
    # retransmission is a duplicate, the next frame is the next one
    for k in range(8):
        for retx0 in (0, 1):
            d = lambda frm, retx, pl: {"type": "DATA", "frm": frm % 8, "retx": retx, "ack": 0, "pl": pl}   # noqa
            for chunks in ([["UPRAISE"][0], [d(k, retx0, 11)], [d(k, 1, 11)], [d(k + 1, 0, 12)]],
                           [[d(k, 0, 11)], "UPRAISE", [d(k + 1, retx0, 12)], "UPRAISE", [d(k + 1, 1, 12), d(k + 2, 0, 13)], [d(k + 3, 0, 14)]],
                           ["UPRAISE", [{"type": "RSTACK", "ver": 2, "code": 11}], [d(0, 0, 15)], [d(1, 0, 16)]],
                           ["UPRAISE", [d(k + 7, 1, 9), {"type": "RSTACK", "ver": 2, "code": 2}], [d(0, retx0, 15)], [d(1, 0, 16)]],
                           ["UPRAISE", [{"type": "ERROR", "ver": 2, "code": 0x51}], [d(k, 0, 17)]]):
                jobs.append((k, chunks))
                metas.append({"src": "upraise", "k": k, "chunks": chunks})
    # long random sequences crossing the wrap many times
    rng = ctx.rng
    nrand = 150 if ctx.quick else 3000
    for _ in range(nrand):
        n = rng.randint(100, 300 if ctx.quick else 1200)
        exp = 0
        chunks = []
        cur = []
        for _ in range(n):
            r = rng.random()
            if r < 0.55:
                frm = exp if rng.random() < 0.7 else rng.randrange(8)
                f = {"type": "DATA", "frm": frm, "retx": int(rng.random() < 0.3), "ack": rng.randrange(8),
                     "pl": rng.randrange(100, 4000)}
                if frm == exp:
                    exp = (exp + 1) % 8
            elif r < 0.75:
                f = {"type": rng.choice(("ACK", "NAK")), "res": 0, "nrdy": rng.randrange(2), "ack": rng.randrange(8)}
            elif r < 0.8:
                f = {"type": "RST"}
            elif r < 0.9:
                f = {"type": "RSTACK", "ver": 2, "code": rng.randrange(256)}
                exp = 0
            else:
                f = {"type": "ERROR", "ver": 2, "code": rng.randrange(256)}
            cur.append(f)
            if rng.random() < 0.6:
                chunks.append(cur)
                cur = []
        if cur:
            chunks.append(cur)
        jobs.append((0, chunks))
        metas.append({"src": "random", "k": 0, "chunks": chunks})
    traces = pmap(run_seq, jobs)
    ctx.evaluations = len(traces)
    ctx.distinct_nontrivial = len({str(j) for j in jobs})
    ctx.rule = ("every edge of the TLC state graph of AshHostOpenMC replayed from the initial state; all frame sequences of "
                f"length <= {L} over a {len(alpha)}-symbol alphabet from each of the 8 expected-number states (one read per frame "
                "and all frames in one read); all 256 RSTACK and ERROR codes; long random sequences; distinct = distinct (start state, chunk list)")
    ctx.add_sample({"start_state": jobs[len(jobs) // 2][0], "chunks": jobs[len(jobs) // 2][1],
                    "trace": traces[len(jobs) // 2]})
    ctx.validate_traces("Trace_AshHost", traces, constants={**consts}, invariants=INV4 + INV5, metas=metas,
                        label="receiver", sig=sig)
    ctx.exhaustive = False
    ctx.assumptions += ["well-formed frames only (byte-level decoding is C02's subject)",
                        "the peer's frames are encoded by the harness codec ashref.py (validated against AshCodec.tla in C03)"]


def replay(ctx: Ctx, data):
    m = data["replay"]["meta"]
    tr = run_seq((m["k"], m["chunks"]))
    ctx.validate_traces("Trace_AshHost", [tr], constants=host_consts(), invariants=INV4 + INV5, metas=[m],
                        label="receiver", sig=sig)
    ctx.add_sample(tr)
