"""Full-stack rig: the real bellows.ezsp.EZSP -> real bellows.uart.connect/_connect -> real Gateway -> real
AshProtocol on a fake serial transport; the peer is the simulated conforming ASH NCP (linkrig.NcpSim) carrying the
simulated EZSP NCP (ncp_ezsp.NcpEzsp).  Every frame travels as its own event-loop callback; a schedule can
drop / corrupt / duplicate DATA/ACK/NAK frames in either direction and inject failures."""
from __future__ import annotations

import asyncio

from . import ashref, ncp_ezsp, vloop
from .linkrig import NcpSim
from .seams import FakeSerialTransport

SOFTWARE_RESET = 0x0B


class Peer:
    """ASH + EZSP NCP behind the fake serial line"""

    def __init__(self, rig, version, win=1):
        self.rig = rig
        self.loop = rig.loop
        self.version = version
        self.ash = NcpSim(win)
        self.ezsp = ncp_ezsp.NcpEzsp(version, self.loop, deliver=self._ezsp_reply, negotiated=False)
        self.payloads: dict[int, bytes] = {}
        self.npl = 1000
        self.silent = False              # stops reacting to anything (silent NCP)
        self.rst_reply = SOFTWARE_RESET   # code of the RSTACK answering an RST (None: do not answer)
        self.timer = None
        self.rx_ezsp: list[dict] = []     # EZSP frames seen by the NCP's EZSP layer, classified by the harness's header parser
        self.rst_seen = 0
        self.booting_until = None         # the NCP process is still starting: host bytes wait in the socket buffer
        self.held: list[bytes] = []
        self.boot_gap = 0.0               # time between announcing the start-up reset and reading the socket
        self.faults_h2n: list[str] = []   # consumed per DATA/ACK/NAK frame from the host
        self.faults_n2h: list[str] = []

    # ---- NCP -> host
    def _to_host(self, f):
        rig = self.rig
        if f["type"] == "DATA":
            g = dict(f)
            g["pl"] = list(self.payloads[f["pl"]])
            raw = ashref.wire(g)
        else:
            raw = ashref.wire(f)
        fault = "deliver"
        if f["type"] in ("DATA", "ACK", "NAK") and self.faults_n2h:
            fault = self.faults_n2h.pop(0)
        rig.note({"o": "n2h", "f": self._brief(f), "fault": fault})
        if fault == "drop":
            return
        if fault == "corrupt":
            b = bytearray(raw)
            b[len(b) // 2 - 1] ^= 0x04
            raw = bytes(b)
        rig.deliver(raw)
        if fault == "dup":
            rig.deliver(raw)

    @staticmethod
    def _brief(f):
        return {k: v for k, v in f.items() if k in ("type", "frm", "retx", "ack", "code")}

    def _outs(self, outs):
        for o in outs:
            if o["o"] == "write":
                self._to_host(o["f"])
            elif o["o"] == "up_data":
                self._ezsp_rx(o["pl"])
        self._arm_timer()

    def _arm_timer(self):
        if self.timer is not None:
            self.timer.cancel()
            self.timer = None
        if self.ash.win and not self.silent:
            self.timer = self.loop.call_later(0.8, self._timeout)

    def _timeout(self):
        self.timer = None
        if self.silent:
            return
        self._outs(self.ash.timer())

    def send_rstack(self, code):
        self._to_host({"type": "RSTACK", "ver": 2, "code": code})

    def send_error(self, code):
        self._to_host({"type": "ERROR", "ver": 2, "code": code})

    def reset_state(self):
        self.ash = NcpSim(self.ash.W)
        self.ezsp.on_reset()
        if self.timer is not None:
            self.timer.cancel()
            self.timer = None

    # ---- host -> NCP
    def boot(self, code):
        """the NCP process comes up: announces its start-up reset, then reads what was waiting in the socket"""
        self.send_rstack(code)
        if self.boot_gap:
            self.loop.call_later(self.boot_gap, self._read_held)
        else:
            self._read_held()

    def _read_held(self):
        self.booting_until = None
        held, self.held = self.held, []
        for data in held:
            self.on_host_bytes(data)

    def on_host_bytes(self, data: bytes):
        if self.booting_until is not None:
            self.held.append(data)
            return
        for f in ashref.decode_write(data):
            self.on_host_frame(f)

    def on_host_frame(self, f):
        if self.silent:
            return
        ty = f["type"]
        if ty == "RST" and getattr(self, "ignore_rst", 0) > 0:
            self.ignore_rst -= 1            # the NCP misses this RST altogether (busy / line glitch): no reset, no RSTACK
            return
        if ty == "RST":
            self.rst_seen += 1
            self.rig.note({"o": "h2n", "f": {"type": "RST", "cancel": f.get("cancel", 0)}, "fault": "deliver"})
            self.reset_state()
            if self.rst_reply is not None:
                self.send_rstack(self.rst_reply)
            return
        fault = "deliver"
        if ty in ("DATA", "ACK", "NAK") and self.faults_h2n:
            fault = self.faults_h2n.pop(0)
        self.rig.note({"o": "h2n", "f": self._brief(f), "fault": fault})
        if fault == "drop":
            return
        g = {"type": "GARBAGE"} if (fault == "corrupt" or ty == "INVALID") else dict(f)
        if g["type"] == "DATA":
            key = self.npl = self.npl + 1
            self.payloads[key] = bytes(f["pl"])
            g["pl"] = key
        g.pop("cancel", None)
        self._outs(self.ash.recv(g))
        if fault == "dup":
            self._outs(self.ash.recv(g))

    def _ezsp_rx(self, key):
        data = self.payloads[key]
        lay = None
        for cand in ("legacy5", "ext", "legacy3"):
            h = ncp_ezsp.parse_header(cand, data)
            if cand == "legacy5" and h is not None:
                lay = cand
                break
            if cand == "ext" and h is not None and len(data) >= 5 and data[2] == 0x01:
                lay = cand
                break
            if cand == "legacy3" and h is not None:
                lay = cand
        hdr = ncp_ezsp.parse_header(lay, data) if lay else None
        ev = {"o": "ezsp_rx", "fmt": lay or "none", "id": hdr[1] if hdr else -1, "seq": hdr[0] if hdr else -1,
              "desired": (hdr[2][0] if hdr and hdr[1] == 0 and len(hdr[2]) == 1 else -1), "len": len(data)}
        self.rx_ezsp.append(ev)
        self.rig.note(ev)
        self.ezsp.receive(data)

    def _ezsp_reply(self, data: bytes):
        """EZSP layer of the NCP hands a response / callback to its ASH layer"""
        if self.silent:
            return
        key = self.npl = self.npl + 1
        self.payloads[key] = bytes(data)
        self._outs(self.ash.submit(key))


class StackRig:
    def __init__(self, loop, version, path="/dev/ttyFAKE", win=1):
        self.loop = loop
        self.version = version
        self.path = path
        self.notes: list[dict] = []
        self.tr = None
        self.protocol = None
        self.peer = Peer(self, version, win)
        self.lost = False
        self.after_fail_writes = 0
        self.failed_at = None

    def note(self, ev):
        ev = dict(ev)
        ev["t"] = self.loop.ms
        self.notes.append(ev)

    def deliver(self, raw: bytes):
        """a read from the serial port, as its own event-loop callback"""
        self.loop.call_soon(self._read, raw)

    def _read(self, raw):
        if self.lost or self.protocol is None or (self.tr is not None and self.tr.closed):
            return                      # a closed transport delivers no more reads
        try:
            self.protocol.data_received(raw)
        except BaseException as e:  # noqa - the loop would log it
            self.note({"o": "raised", "where": "data_received", "exc": type(e).__name__})

    async def connect(self, boot_rstack=None):
        """boot_rstack: None | ('inwindow'|'late', code): the NCP announces a spontaneous start-up reset"""
        import bellows.ezsp
        import zigpy.serial
        rig = self

        async def fake_create(loop, protocol_factory, url=None, baudrate=None, xonxoff=None, rtscts=None, **kw):
            protocol = protocol_factory()
            tr = FakeSerialTransport()
            tr.on_write = rig._on_write
            tr.on_close = lambda: loop.call_soon(rig._closed)
            rig.tr = tr
            rig.protocol = protocol
            protocol.connection_made(tr)
            return tr, protocol
        orig = zigpy.serial.create_serial_connection
        zigpy.serial.create_serial_connection = fake_create
        try:
            self.ezsp = bellows.ezsp.EZSP({"path": self.path, "baudrate": 115200, "flow_control": None})
            await self.ezsp.connect(use_thread=False)
        finally:
            zigpy.serial.create_serial_connection = orig
        if boot_rstack is not None:
            # "early": the NCP announces its start-up reset as soon as the socket is open, before anybody waits for it
            when = 0.0 if boot_rstack[0] == "early" else 0.3 if boot_rstack[0] == "inwindow" else 1.2
            self.peer.booting_until = when
            self.peer.boot_gap = 0.05 if boot_rstack[0].endswith("gap") else 0.0
            if boot_rstack[0] == "early":
                self.note({"o": "ncpreset"})
                self.peer.boot(boot_rstack[1])
                for _ in range(20):
                    await asyncio.sleep(0)
            else:
                self.loop.call_later(when, self.peer.boot, boot_rstack[1])
        return self.ezsp

    def _on_write(self, data: bytes):
        if self.failed_at is not None:
            self.after_fail_writes += 1
            self.note({"o": "write_after_failure", "bytes": list(data[:8])})
        self.loop.call_soon(self.peer.on_host_bytes, data)

    def _closed(self):
        if not self.lost:
            self.lost = True
            if self.protocol is not None:
                self.protocol.connection_lost(None)

    def lose(self, how):
        """how: 'exc' | 'eof'"""
        self.lost = True
        try:
            if how == "eof":
                keep = self.protocol.eof_received()
                if not keep:
                    self.loop.call_soon(self.protocol.connection_lost, None)
            else:
                self.protocol.connection_lost(ConnectionResetError("gone"))
        except BaseException as e:  # noqa
            self.note({"o": "raised", "where": "connection_lost", "exc": type(e).__name__})

    async def settle(self):
        for _ in range(50000):
            await asyncio.sleep(0)
            if not self.loop._ready:
                return
        raise RuntimeError("loop does not become idle")

    def next_timer(self):
        ws = [h._when for h in self.loop._scheduled if not h._cancelled]
        return min(ws) if ws else None

    async def run_until(self, fut_or_task, limit_s=120.0):
        """advance virtual time until the awaitable is done (or the limit passes)"""
        t_end = self.loop.time() + limit_s
        while not fut_or_task.done():
            await self.settle()
            if fut_or_task.done():
                break
            when = self.next_timer()
            if when is None or when > t_end:
                break
            self.loop._vnow = max(self.loop._vnow, when)
        await self.settle()
        return fut_or_task.done()


def run(coro_fn):
    return vloop.run(coro_fn)
