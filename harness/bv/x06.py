"""X06 (extension, not one of the listed properties) - what the NCP is asked to transmit for a packet handed to send_packet.

spec/Outgoing.tla is the counterpart of Incoming.tla (C13): for a unicast / multicast / broadcast packet exactly one send command of the
right kind carries the APS frame built from the packet (profile, cluster, endpoints, sequence = tsn, options RETRY + route discovery or -
with source routing configured - address discovery, group id only for multicasts), the destination / radius / payload of the packet and
the tag under which the confirmation is awaited; a unicast carrying a source route is preceded by setSourceRoute for the same destination
with the same relays.  The real send_packet runs on every version against the simulated NCP; the commands the NCP received are read by the
harness's own per-version argument reader and compared by TLC."""
from __future__ import annotations

import asyncio
import random

from . import apprig, vloop
from .c04 import pmap
from .core import Ctx

LEVEL = "model_checking"


def gen_packet(rng: random.Random):
    mode = rng.choice(("nwk", "nwk", "group", "bcast"))
    b16 = lambda: rng.choice((0, 1, 0xFFFE, 0x8000, rng.randrange(65536)))   # noqa
    b8 = lambda: rng.choice((0, 1, 255, 254, rng.randrange(256)))   # noqa
    dst = rng.choice((0x1234, 0x0001, 0xFFF7, rng.randrange(1, 0xFFF8))) if mode == "nwk" else \
        rng.choice((0, 1, 0xFFFF, rng.randrange(65536))) if mode == "group" else rng.choice((0xFFFC, 0xFFFD, 0xFFFF))
    sr_given = mode == "nwk" and rng.random() < 0.4
    return {"mode": mode, "dst": dst, "srcEp": b8(), "dstEp": rng.choice((-1, b8(), b8())), "profile": b16(), "cluster": b16(), "tsn": b8(),
            "radius": rng.choice((0, 1, 30, 255)), "nonMember": rng.choice((0, 3, 7)), "data": [rng.randrange(256) for _ in range(rng.choice((0, 1, 5, 60)))],
            "sr": [rng.randrange(1, 0xFFF0) for _ in range(rng.choice((0, 1, 3)))] if sr_given else [], "srGiven": sr_given, "ext": False}


def read_cmd(ver, t, name, a):
    """the harness's own reading of the arguments the NCP received, per version"""
    def aps_of(x):
        return {"profile": int(x.profileId), "cluster": int(x.clusterId), "srcEp": int(x.sourceEndpoint), "dstEp": int(x.destinationEndpoint),
                "options": int(x.options), "group": int(x.groupId), "seq": int(x.sequence)}
    if name == "setSourceRoute":
        return {"cmd": name, "dst": int(a["destination"]), "relays": [int(r) for r in a["relayList"]]}
    v14 = ver >= 14
    aps = aps_of(a["aps_frame"] if v14 else a["apsFrame"])
    tag = int(a["message_tag"] if v14 else a["messageTag"])
    data = list(bytes(a["message"] if v14 else a["messageContents"]))
    base = {"cmd": name, "aps": aps, "tag": tag, "data": data}
    if name == "sendUnicast":
        base.update(type=int(a["message_type"] if v14 else a["type"]), dst=int(a["nwk"] if v14 else a["indexOrDestination"]))
    elif name == "sendMulticast":
        if v14:
            base.update(hops=int(a["hops"]), bcastAddr=int(a["broadcast_addr"]), alias=int(a["alias"]), seq=int(a["sequence"]))
        else:
            base.update(hops=int(a["hops"]), nonMember=int(a["nonmemberRadius"]))
    else:
        if v14:
            base.update(dst=int(a["destination"]), radius=int(a["radius"]), alias=int(a["alias"]), seq=int(a["sequence"]))
        else:
            base.update(dst=int(a["destination"]), radius=int(a["radius"]))
    return base


def run_case(case):
    ver, src = case["ver"], case["src"]

    async def main(loop):
        import zigpy.types as zt
        app, ezsp, gw, ncp = await apprig.make_app(loop, ver, source_routing=src)
        t = ncp.t
        events = [{"a": "cfg", "srcRouting": bool(src), "v14": ver >= 14, "routeCmd": ver <= 8, "ver": ver}]
        seen = []

        def on_command(entry):
            name, a = entry["name"], entry.get("args", {})
            if name in ("sendUnicast", "sendMulticast", "sendBroadcast", "setSourceRoute"):
                seen.append(read_cmd(ver, t, name, a))
                if name == "sendUnicast":
                    r = seen[-1]
                    aps = a["aps_frame"] if ver >= 14 else a["apsFrame"]
                    if ver >= 14:
                        vals = [t.sl_Status.OK, t.EmberOutgoingMessageType.OUTGOING_DIRECT, r["dst"], aps, r["tag"], b""]
                    else:
                        vals = [t.EmberOutgoingMessageType.OUTGOING_DIRECT, r["dst"], aps, r["tag"], t.EmberStatus.SUCCESS, b""]
                    loop.call_later(0.05, lambda: ncp.callback("messageSentHandler", vals, now=True))
        ncp.on_command = on_command
        for i, p in enumerate(case["packets"]):
            if p["mode"] == "nwk":
                dst = zt.AddrModeAddress(addr_mode=zt.AddrMode.NWK, address=zt.NWK(p["dst"]))
            elif p["mode"] == "group":
                dst = zt.AddrModeAddress(addr_mode=zt.AddrMode.Group, address=zt.Group(p["dst"]))
            else:
                dst = zt.AddrModeAddress(addr_mode=zt.AddrMode.Broadcast, address=zt.BroadcastAddress(p["dst"]))
            pkt = zt.ZigbeePacket(src=zt.AddrModeAddress(addr_mode=zt.AddrMode.NWK, address=zt.NWK(0)), src_ep=p["srcEp"], dst=dst,
                                  dst_ep=None if p["dstEp"] < 0 else p["dstEp"], tsn=p["tsn"], profile_id=p["profile"], cluster_id=p["cluster"],
                                  data=zt.SerializableBytes(bytes(p["data"])), extended_timeout=False,
                                  source_route=[zt.NWK(x) for x in p["sr"]] if p["srGiven"] else None, radius=p["radius"], non_member_radius=p["nonMember"])
            seen.clear()
            tk = asyncio.ensure_future(app.send_packet(pkt))
            ok = await apprig.run_until_done(loop, [tk], limit_s=300)
            out = "hang" if not ok or not tk.done() else ("ok" if tk.exception() is None else type(tk.exception()).__name__)
            if not tk.done():
                tk.cancel()
            sends = [c for c in seen if c["cmd"] != "setSourceRoute"]
            events.append({"a": "send", "p": p, "cmds": list(seen), "tag": sends[-1]["tag"] if sends else -1, "out": out})
            await apprig.settle(loop)
        return events
    return vloop.run(main)


def sig(meta, v, tr):
    e = tr[v.stuck_at - 1] if v.stuck_at and v.stuck_at <= len(tr) else {}
    return f"trace:Outgoing:{e.get('p', {}).get('mode')}:{e.get('out')}"


def run(ctx: Ctx):
    ctx.model_check("OutgoingMC", "MC_Outgoing", invariants=("OneSend", "GroupOnlyMulticast", "RouteOnlyUnicast", "RetryAlways"), coverage=False, workers=4)
    n = 12 if ctx.quick else 400
    cases = []
    for ver in tuple(range(4, 15)) + (15, 16):
        for src in (False, True):
            rng = random.Random(ctx.seed * 6151 + ver * 17 + int(src))
            cases.append({"ver": ver, "src": src, "packets": [gen_packet(rng) for _ in range(n)]})
    traces = pmap(run_case, cases, chunksize=1)
    ctx.evaluations = sum(len(t_) - 1 for t_ in traces)
    ctx.distinct_nontrivial = len({str(e["p"]) + str(t_[0]["ver"]) + str(t_[0]["srcRouting"]) for t_ in traces for e in t_[1:]})
    ctx.rule = (f"per protocol version 4..14, 15, 16 x source routing off / on: {n} packets (unicast with and without a source route, multicast, broadcast; boundary "
                "values of every field; no destination endpoint; payloads of 0..60 bytes); every command the NCP received for the packet compared field by field; "
                "distinct = distinct (version, configuration, packet)")
    ctx.add_sample(traces[0][:2])
    ctx.validate_traces("Trace_Outgoing", traces, metas=[{k: v for k, v in c.items()} for c in cases], label="outgoing", sig=sig)
    # binding self-test: one field of one recorded command changed
    rng = random.Random(ctx.seed)
    bad = []
    for tr in traces[:40]:
        c = [dict(e) for e in tr]
        i = rng.randrange(1, len(c))
        cmds = [dict(x) for x in c[i]["cmds"]]
        cmds[-1] = dict(cmds[-1], aps=dict(cmds[-1]["aps"], options=cmds[-1]["aps"]["options"] ^ 0x0040))
        c[i] = dict(c[i], cmds=cmds)
        bad.append(c)
    from . import trace as TR, tlc as T
    rej = len(TR.validate("Trace_Outgoing", bad, workdir=ctx.workdir).rejected)
    ctx.notes["binding_selftest"] = {"corrupted_runs": len(bad), "rejected": rej}
    if rej != len(bad):
        raise T.MachineryError(f"binding self-test: only {rej} of {len(bad)} corrupted runs were rejected")
    ctx.exhaustive = False
    ctx.assumptions += ["extension beyond the listed properties", "zigpy.util.Requests shim; simulated EZSP NCP confirming every unicast 50 ms after it was accepted",
                        "APS option bits, outgoing type and the version-14 argument shapes pinned from the EZSP reference in spec/Outgoing.tla and the harness reader"]


def replay(ctx: Ctx, data):
    m = data["replay"]["meta"]
    tr = run_case(m)
    ctx.validate_traces("Trace_Outgoing", [tr], metas=[m], label="outgoing", sig=sig)
    ctx.add_sample(tr[:2])
