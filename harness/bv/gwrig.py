"""Rig for bellows.uart.Gateway on the real AshProtocol over a fake serial transport (C11, and the link
half of C10).  The application above the gateway is a recorder."""
from __future__ import annotations

import asyncio

from . import ashref, vloop
from .hostrig import clean, host_payload, ncp_payload, token
from .seams import FakeSerialTransport


class AppRecorder:
    def __init__(self, rig):
        self.rig = rig

    def frame_received(self, data):
        self.rig.out.append({"o": "up_data", "pl": token(data)})

    def enter_failed_state(self, code):
        self.rig.out.append({"o": "failed", "code": int(code)})

    def connection_lost(self, exc):
        self.rig.out.append({"o": "applost"})


class GatewayRig:
    def __init__(self, loop, application=None):
        import bellows.ash as ash
        import bellows.uart as uart
        self.ash_mod = ash
        self.loop = loop
        self.out: list[dict] = []
        self.trace: list[dict] = []
        self.tr = FakeSerialTransport()
        self.tr.on_write = self._on_write
        self.app = application or AppRecorder(self)
        self.gw = uart.Gateway(self.app)
        self.p = ash.AshProtocol(self.gw)
        self.tr.on_close = lambda: loop.call_soon(self._closed_cb)
        self.p.connection_made(self.tr)
        self.tasks: dict[str, asyncio.Task] = {}
        self.lost = False

    def _closed_cb(self):
        if not self.lost:
            self.lost = True
            self.p.connection_lost(None)

    def _on_write(self, data: bytes):
        for f in ashref.decode_write(data):
            if f["type"] == "RST" and f.get("cancel"):
                self.out.append({"o": "rst"})
            else:
                self.out.append({"o": "write", "f": clean(f)})

    async def settle(self):
        for _ in range(200):
            await asyncio.sleep(0)
            if not self.loop._ready:
                return
        raise RuntimeError("loop does not become idle")

    def next_timer(self):
        ws = [h._when for h in self.loop._scheduled if not h._cancelled]
        return min(ws) if ws else None

    def _event(self, ev):
        ev["out"] = self.out
        ev["t"] = self.loop.ms
        self.out = []
        self.trace.append(ev)
        return ev

    def _classify(self, e):
        if isinstance(e, asyncio.TimeoutError):
            return "timeout"
        if isinstance(e, (ConnectionError, OSError)) or type(e).__name__ in ("SerialException",):
            return "connerr"
        if isinstance(e, asyncio.CancelledError):
            return "cancelled"
        if isinstance(e, self.ash_mod.NcpFailure):
            return "ncpfail"
        return "exc:" + type(e).__name__

    async def reset(self, k):
        async def call():
            try:
                await self.gw.reset()
                res = "ok"
            except BaseException as e:  # noqa
                res = self._classify(e)
            self.out.append({"o": "rdone", "k": k, "res": res})
        self.tasks[f"r{k}"] = asyncio.Task(call(), loop=self.loop, eager_start=True)
        await self.settle()
        return self._event({"a": "reset", "k": k})

    async def startup(self, k):
        async def call():
            try:
                await self.gw.wait_for_startup_reset()
                res = "ok"
            except BaseException as e:  # noqa
                res = self._classify(e)
            self.out.append({"o": "sdone", "k": k, "res": res})
        self.tasks[f"s{k}"] = asyncio.Task(call(), loop=self.loop, eager_start=True)
        await self.settle()
        return self._event({"a": "startup", "k": k})

    def _feed(self, data):
        try:
            self.p.data_received(data)
        except BaseException as e:  # noqa
            self.out.append({"o": "raised", "exc": type(e).__name__})

    def _lose(self, exc):
        self.lost = True
        try:
            if exc == "eof":
                # asyncio: eof_received() returning a false value makes the transport close itself,
                # which reports connection_lost(None) from the loop
                keep = self.p.eof_received()
                if not keep:
                    self.loop.call_soon(self._lose, None)
            else:
                self.p.connection_lost(ConnectionResetError("gone") if exc else None)
        except BaseException as e:  # noqa - what the event loop would log as an unhandled callback exception
            self.out.append({"o": "raised", "exc": type(e).__name__})

    @staticmethod
    def _bytes(frames):
        out = b""
        for f in frames:
            if f["type"] == "DATA":
                g = dict(f)
                g["pl"] = list(ncp_payload(f["pl"]))
                f = g
            out += ashref.wire(f)
        return out

    async def recv(self, frames, lost="no"):
        """lost: 'no' | 'exc' | 'close' - the loss is queued as its own callback right behind the read"""
        data = self._bytes(frames)
        self.loop.call_soon(self._feed, data)
        if lost != "no":
            self.loop.call_soon(self._lose, lost == "exc")
        await self.settle()
        return self._event({"a": "recv", "fs": frames, "lost": lost})

    async def lose(self, exc):
        self.loop.call_soon(self._lose, exc)
        await self.settle()
        return self._event({"a": "lost", "exc": 1 if exc else 0, "kind": "eof" if exc == "eof" else "lost"})

    async def timer(self):
        when = self.next_timer()
        if when is None:
            return None
        self.loop._vnow = max(self.loop._vnow, when)
        await self.settle()
        return self._event({"a": "timer"})

    async def advance(self, ms):
        """let virtual time pass; timers falling due on the way fire as recorded timer events"""
        target = self.loop._vnow + ms / 1000.0
        while True:
            when = self.next_timer()
            if when is None or when > target + 1e-9:
                break
            await self.timer()
        self.loop._vnow = max(self.loop._vnow, target)

    async def submit(self, i):
        async def call():
            ash = self.ash_mod
            try:
                await self.gw.send_data(host_payload(i))
                res = "ok"
            except ash.NotAcked:
                res = "nak"
            except asyncio.TimeoutError:
                res = "timeout"
            except ash.NcpFailure:
                res = "ncpfail"
            except RuntimeError:
                res = "closed"
            except BaseException as e:  # noqa
                res = "exc:" + type(e).__name__
            self.out.append({"o": "done", "id": i, "res": res})
        self.tasks[f"d{i}"] = asyncio.Task(call(), loop=self.loop, eager_start=True)
        await self.settle()
        return self._event({"a": "submit", "id": i, "pl": i})

    async def end(self):
        for _ in range(40):
            if self.next_timer() is None:
                break
            await self.timer()
        await self.settle()
        pending = sorted(k for k, t in self.tasks.items() if not t.done() and not k.startswith("s"))
        return self._event({"a": "end", "pending": pending})


def run_script(script):
    async def main(loop):
        rig = GatewayRig(loop)
        await script(rig)
        if not rig.trace or rig.trace[-1]["a"] != "end":
            await rig.end()
        return rig.trace
    return vloop.run(main)
