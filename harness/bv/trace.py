"""Batch trace validation: hand recorded executions of the real code to TLC.

A batch is a JSON array of traces; each trace is an array of event objects.  The
Trace_X module follows one idiom (variables tid, l; CONSTRAINT Progress updates a
TLCSet register with the furthest explained position per trace; POSTCONDITION Post
prints the register).  A trace is accepted iff the register reaches len+1 and no
invariant failed on any state of it.  The verdict is TLC's."""
from __future__ import annotations

import concurrent.futures as cf
import dataclasses
import json
import os
import re
from pathlib import Path

from . import tlc as T


@dataclasses.dataclass
class TraceVerdict:
    index: int               # index in the caller's list
    accepted: bool
    stuck_at: int | None     # 1-based index of the first event no spec behaviour explains
    invariant: str | None    # violated invariant / property (if any)
    detail: str = ""


@dataclasses.dataclass
class BatchResult:
    verdicts: list[TraceVerdict]
    generated: int
    distinct: int
    wall_s: float
    events: int

    @property
    def rejected(self):
        return [v for v in self.verdicts if not v.accepted]


_RE_PROG = re.compile(r'<<"BVPROGRESS", (.*)>>\s*$')
_RE_TID = re.compile(r"/\\ tid = (\d+)")
_RE_L = re.compile(r"/\\ l = (\d+)")


def _run_shard(args):
    module, cfg, shard_file, workdir, n, first_offset, timeout, dfs = args
    res = T.run_tlc(module, cfg, workdir=workdir, workers=1, env={"TRACE_FILE": str(shard_file)},
                    timeout=timeout, dfs_queue=dfs)
    return res


def validate(module: str, traces: list[list[dict]], *, workdir: Path, constants: dict[str, str] | None = None,
             invariants=(), properties=(), shards: int = 16, first_offset: int = 1,
             timeout: float = 3600, dfs: bool = False, spec: str = "TSpec",
             extra_constraints=(), length_of=len) -> BatchResult:
    """first_offset: 1 if TInit consumes the first event (register ends at len+1 either way)."""
    if not traces:
        return BatchResult([], 0, 0, 0.0, 0)
    cfg = T.write_cfg(workdir / f"{module}.cfg", spec=spec, constants=constants or {},
                      invariants=invariants, properties=properties,
                      constraints=("Progress",) + tuple(extra_constraints), postcondition="Post")
    shards = max(1, min(shards, len(traces)))
    # balance by number of events
    order = sorted(range(len(traces)), key=lambda i: -length_of(traces[i]))
    buckets = [[] for _ in range(shards)]
    loads = [0] * shards
    for i in order:
        k = loads.index(min(loads))
        buckets[k].append(i)
        loads[k] += length_of(traces[i]) + 1
    verdicts: dict[int, TraceVerdict] = {}
    gen = dist = 0
    wall = 0.0
    pending = [b for b in buckets if b]
    rounds = 0
    serial = 0
    while pending:
        rounds += 1
        if rounds > 12 and any(not v.accepted for v in verdicts.values()):
            # one invariant failure is judged per shard and round; with hundreds of failing traces the verdict of the batch is settled
            # long before every trace has been looked at: the rest is left unjudged (counted, never reported as accepted evidence)
            for b in pending:
                for gi in b:
                    verdicts[gi] = TraceVerdict(gi, True, None, None, "unjudged")
            break
        if rounds > 50:
            raise T.MachineryError("trace validation did not converge")
        jobs = []
        for b in pending:
            serial += 1
            f = workdir / f"{module}-shard{serial}.json"
            f.write_text(json.dumps([traces[i] for i in b]))
            jobs.append((module, cfg, f, workdir, len(b), first_offset, timeout, dfs))
        with cf.ThreadPoolExecutor(max_workers=min(16, len(jobs))) as ex:
            results = list(ex.map(_run_shard, jobs))
        nxt = []
        for b, job, res in zip(pending, jobs, results):
            gen += res.generated
            dist += res.distinct
            wall = max(wall, res.wall_s)
            os.unlink(job[2])
            if res.error_kind in ("invariant", "action_property", "temporal"):
                # the counter-example names the trace; judge it, re-run the others
                tids = _RE_TID.findall(res.error_trace)
                ls = _RE_L.findall(res.error_trace)
                if not tids:
                    raise T.MachineryError("cannot find tid in TLC counter-example:\n" + res.error_trace[:2000])
                k = int(tids[-1]) - 1
                gi = b[k]
                verdicts[gi] = TraceVerdict(gi, False, int(ls[-1]) - 1 if ls else None,
                                            ",".join(res.violated), res.error_trace[:6000])
                rest = [x for x in b if x != gi]
                if rest:
                    nxt.append(rest)
                continue
            prog = None
            ms = list(re.finditer(r'<<\s*"BVPROGRESS"', res.output))
            if ms:
                val = T.parse_tla_value(res.output[ms[-1].start():])
                prog = val[1]
            if prog is None:
                raise T.MachineryError("no BVPROGRESS line from TLC:\n" + res.output[-3000:])
            if isinstance(prog, dict):
                prog = [prog[i + 1] for i in range(len(b))]
            if len(prog) != len(b):
                raise T.MachineryError(f"progress register has {len(prog)} entries for {len(b)} traces")
            for k, gi in enumerate(b):
                want = length_of(traces[gi]) + 1
                if prog[k] == want:
                    verdicts[gi] = TraceVerdict(gi, True, None, None)
                else:
                    stuck = max(prog[k], 1)
                    verdicts[gi] = TraceVerdict(gi, False, stuck, None,
                                                f"no behaviour of {module} explains event #{stuck}")
        pending = nxt
    ev = sum(length_of(t) for i, t in enumerate(traces) if verdicts[i].detail != "unjudged")
    return BatchResult([verdicts[i] for i in range(len(traces))], gen, dist, wall, ev)
