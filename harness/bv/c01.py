"""C01 - ASH link delivers payloads exactly once, in order, over a faulty serial line.

AshLink.tla (host as implemented || faulty FIFO line || conforming NCP) is model-checked for
windows 1..3; the real AshProtocol is then run against the simulated NCP over the faulty line
along (1) TLC-simulated behaviours of AshLink, (2) every assignment of {deliver, drop, corrupt,
duplicate, stall} to the first D serviced frames, (3) long random fault runs with cancellations;
TLC validates each recorded run against Trace_AshLink with the delivery invariants on every state."""
from __future__ import annotations

import itertools

from . import linkrig, tlc as T
from .c04 import host_consts, pmap
from .core import Ctx

INV = ("UpInOrderH2N", "UpInOrderN2H", "OkDeliveredOnce", "AckedDelivered")
MCINV = ("UpInOrderH2N", "UpInOrderN2H", "OkDeliveredOnce", "FailedAtMostOnce", "AckedDelivered")
FAULTS = ("deliver", "drop", "corrupt", "dup", "stall")
ACT2STEP = {
    "HSubmit": ("hsubmit",), "NSubmit": ("nsubmit",), "HTimer": ("htick",), "NTimer": ("ntick",),
    "THDeliver": ("tohost", "deliver"), "THDrop": ("tohost", "drop"), "THCorrupt": ("tohost", "corrupt"),
    "THDup": ("tohost", "dup"), "TNDeliver": ("toncp", "deliver"), "TNDrop": ("toncp", "drop"),
    "TNCorrupt": ("toncp", "corrupt"), "TNDup": ("toncp", "dup"), "HCancelAny": ("hcancel", 1),
    "THHold": ("tohost", "hold"), "TNHold": ("toncp", "hold"), "ReleaseH": ("hrelease",), "ReleaseN": ("nrelease",), "HArm": ("harm",),
}
WF_ALPHABET = (("toncp", "deliver"), ("tohost", "deliver"), ("tohost", "drop"), ("toncp", "drop"), ("htick",), ("harm",))


def mc_consts(maxatt, win, hp, np_, faults, cancel, starts="{0, 62}", holds=0, span=2, wf=0):
    return {"MaxAtt": maxatt, "Win": str(win), "HPayloads": str(hp), "NPayloads": str(np_), "MaxFaults": str(faults),
            "Cap": "3", "StartPairs": starts, "MaxCancel": str(cancel), "MaxHolds": str(holds), "HoldSpan": str(span), "MaxWF": str(wf)}


def sig(meta, v, tr):
    e = tr[v.stuck_at - 1] if v.stuck_at and v.stuck_at <= len(tr) else {}
    prev = tr[v.stuck_at - 2] if v.stuck_at and v.stuck_at >= 2 else {}
    return (f"trace:AshLink:{v.invariant or 'unexplained'}:{e.get('a')}:{e.get('fault', '')}"
            f":after:{prev.get('a')}:{prev.get('fault', '')}")


def random_schedule(rng, n):
    sched = []
    for _ in range(n):
        r = rng.random()
        if r < 0.12:
            sched.append(("hsubmit",))
        elif r < 0.24:
            sched.append(("nsubmit",))
        elif r < 0.58:
            f = rng.choices(("deliver", "drop", "corrupt", "dup", "hold"), (66, 10, 10, 8, 6))[0]
            sched.append(("tohost", f, rng.random() < 0.1))
        elif r < 0.88:
            f = rng.choices(("deliver", "drop", "corrupt", "dup", "hold"), (66, 10, 10, 8, 6))[0]
            sched.append(("toncp", f))
        elif r < 0.90:
            sched.append((rng.choice(("hrelease", "nrelease")),))
        elif r < 0.94:
            sched.append(("htick",))
        elif r < 0.98:
            sched.append(("ntick",))
        elif r < 0.99:
            sched.append(("hcancel", rng.randint(1, 40)))
        else:
            sched.append(("harm",))
    return sched


def run(ctx: Ctx):
    consts = host_consts()
    maxatt = consts["MaxAtt"]
    props = ("CancelIsInvisible",)
    req = ("HSubmit", "HTimer", "HResume", "NSubmit", "NTimer", "ToHost", "ToNcp")
    if ctx.quick:
        runs = [(3, 1, 2, 2, 0, 0), (2, 2, 1, 1, 1, 0), (1, 2, 0, 3, 0, 1, "{0}"), (1, 2, 1, 2, 0, 1, "{0}")]
    else:
        runs = [(1, 2, 2, 2, 1, 0), (2, 2, 2, 2, 1, 0), (3, 2, 2, 2, 1, 0), (3, 1, 3, 2, 0, 0), (2, 2, 1, 3, 0, 0), (1, 3, 1, 2, 0, 1), (2, 2, 2, 2, 0, 1)]
    # (the last element: stalled duplicate copies explored - a copy of a delivered frame arriving up to HoldSpan frames later)
    for run_ in runs:
        win, hp, np_, fl, cn, holds = run_[:6]
        ctx.model_check("AshLink", f"MC_AshLink_W{win}_{hp}_{np_}_F{fl}_H{holds}",
                        constants=mc_consts(maxatt, win, hp, np_, fl, cn, *(run_[6:7] or ("{0, 62}",)), holds=holds),
                        invariants=MCINV, properties=props, constraints=("LineBound",), required_actions=(tuple(a for a in req if np_ or a not in ("NSubmit", "NTimer"))) + (("HNext", "HCancel") if hp > 1 and cn else ()) + (("ReleaseH", "ReleaseN") if holds else ()),
                        heap="20g", timeout=3000)
    # the host's transport may raise out of a DATA write (first transmission or retransmission)
    for win, hp, np_, fl in ((1, 2, 0, 2), (2, 3, 0, 1)) if ctx.quick else ((1, 3, 0, 2), (2, 3, 1, 2), (3, 3, 0, 2)):
        ctx.model_check("AshLink", f"MC_AshLink_W{win}_{hp}_{np_}_F{fl}_WF", constants=mc_consts(maxatt, win, hp, np_, fl, 0, "{0}", wf=1),
                        invariants=MCINV, properties=props, constraints=("LineBound",), required_actions=("HSubmit", "HTimer", "HResume", "HArm"),
                        heap="20g", timeout=3000)
    jobs, metas = [], []
    # (1) spec -> code: TLC-simulated behaviours, environment actions replayed on the real host
    nsim = 400 if ctx.quick else 4000
    for win in (1, 2, 3):
        simdir = ctx.workdir / f"sim{win}"
        simdir.mkdir()
        ctx.model_check("AshLink", f"SIM_AshLink_W{win}", constants=mc_consts(maxatt, win, 3, 3, 3, 1, "{0}", holds=1, wf=1),
                        invariants=MCINV, constraints=("LineBound",), simulate=f"file={simdir}/b,num={nsim}", depth=45,
                        workers=1, coverage=False)
        for f in sorted(simdir.iterdir()):
            acts = T.parse_sim_actions(f)[1:]
            sched = [ACT2STEP[a] for a in acts if a in ACT2STEP]
            jobs.append(("sched", (win, sched)))
            metas.append({"src": "tlc-sim", "win": win, "schedule": sched})
            f.unlink()
    n_sim = len(jobs)
    # (2) every fault assignment to the first D serviced frames
    D = 4 if ctx.quick else 6
    for win in (1, 2, 3):
        for nh, nn in ((2, 2), (1, 3)) if not ctx.quick else ((2, 2),):
            for fa in itertools.product(FAULTS + ("hold",), repeat=D):
                if fa.count("hold") > 1 and ctx.quick:
                    continue
                cancel = (3, 1) if (hash(fa) % 5 == 0) else None
                jobs.append(("policy", (win, nh, nn, list(fa), cancel)))
                metas.append({"src": "policy", "win": win, "nh": nh, "nn": nn, "faults": list(fa), "cancel": cancel})
    # (2b) one failing DATA write: every placement of it among every short order of deliveries, losses and timer expiries
    L = 4 if ctx.quick else 5
    for win in ((1, 2) if ctx.quick else (1, 2, 3)):
        for mid in itertools.product(WF_ALPHABET, repeat=L):
            if mid.count(("harm",)) != 1:
                continue
            for pre in ((("hsubmit",),), (("hsubmit",), ("hsubmit",))):
                sched = list(pre) + list(mid) + [("hsubmit",), ("toncp", "deliver"), ("tohost", "deliver"), ("hsubmit",)]
                jobs.append(("sched", (win, sched)))
                metas.append({"src": "writefail", "win": win, "schedule": sched})
    # (3) long random runs (wrap the 3-bit numbers many times)
    rng = ctx.rng
    for _ in range(120 if ctx.quick else 2500):
        win = rng.randint(1, 3)
        sched = random_schedule(rng, rng.randint(200, 400))
        jobs.append(("sched", (win, sched)))
        metas.append({"src": "random", "win": win, "schedule": sched})
    traces = pmap(_run_job, jobs, chunksize=16)
    by_win = {1: [], 2: [], 3: []}
    for i, m in enumerate(metas):
        by_win[m["win"]].append(i)
    ctx.evaluations = len(traces)
    ctx.distinct_nontrivial = len({str(j) for j in jobs})
    ctx.rule = (f"{n_sim} TLC-simulated behaviours of AshLink (environment actions replayed); every assignment of 5 line behaviours to the "
                f"first {D} serviced frames x windows 1..3 x workloads, with a caller cancellation in a fifth of them; random runs of 200-400 "
                "steps with 30% faults, late (timer-iteration) deliveries and cancellations; distinct = distinct schedule")
    ctx.add_sample({"meta": metas[n_sim + 7], "trace": traces[n_sim + 7][:12]})
    for win, idx in by_win.items():
        ctx.validate_traces("Trace_AshLink", [traces[i] for i in idx], constants={**consts, "Win": str(win)},
                            invariants=INV, metas=[metas[i] for i in idx], label=f"link W={win}", sig=sig)
    ctx.exhaustive = False
    ctx.assumptions += ["the peer is the simulated NCP of harness/bv/linkrig.py, a transcription of spec/AshNcp.tla whose every step is "
                        "validated against that specification in the same traces",
                        "FIFO line (a serial line stalls, it does not reorder); corruption is detectable (CRC)",
                        "virtual-time loop; ashref.py codec (validated in C03)"]


def _run_job(job):
    kind, args = job
    if kind == "sched":
        return linkrig.run_link(args)
    return linkrig.run_policy(args)


def replay(ctx: Ctx, data):
    m = data["replay"]["meta"]
    if m["src"] == "policy":
        tr = linkrig.run_policy((m["win"], m["nh"], m["nn"], m["faults"], tuple(m["cancel"]) if m["cancel"] else None))
    else:
        tr = linkrig.run_link((m["win"], [tuple(s) for s in m["schedule"]]))
    ctx.validate_traces("Trace_AshLink", [tr], constants={**host_consts(), "Win": str(m["win"])}, invariants=INV,
                        metas=[m], label=f"link W={m['win']}", sig=sig)
    ctx.add_sample(tr[:20])
