"""C15 - host view of the multicast table mirrors the NCP and never leaks slots.

spec/Multicast.tla is explored exhaustively by TLC; its state graph is dumped and every
(state, operation, answer) transition is executed on the real bellows.multicast.Multicast
(spec -> code), every execution is recorded and validated by TLC against
Trace_Multicast (code -> spec)."""
from __future__ import annotations

import asyncio
import copy
import itertools
import re

from . import tlc as T
from .core import Ctx

GROUPS = {"g1": 0x0101, "g2": 0x0202, "g3": 0x0303, "g4": 0x0404, "g5": 0x0505, "g6": 0x0606}
GNAME = {v: k for k, v in GROUPS.items()}
ANSWERS = ("ok", "reject", "timeout")


class FakeNcp:
    """Command-level NCP multicast table.  status_family: 'ember' (EZSP<=13) or 'sl' (v14)."""

    def __init__(self, table, family="ember"):
        self.family = family
        self.table = []          # list of [groupId, endpoint]
        for cell in table:
            if cell == "free":
                self.table.append([0, 0])
            elif isinstance(cell, (tuple, list)) and cell[0] == "ep":   # ("ep", gname, n): programmed with endpoint n (not the one bellows uses)
                self.table.append([GROUPS[cell[1]], int(cell[2])])
            elif isinstance(cell, (tuple, list)):          # ("stale", gname): endpoint 0 with a left-over id
                self.table.append([GROUPS[cell[1]], 0])
            else:
                self.table.append([GROUPS[cell], 1])
        self.answer = "ok"
        self.writes = []
        self.size_status_ok = True

    @property
    def t(self):
        import bellows.types as t
        return t

    def _st(self, ok, rej="ERR_FATAL"):
        t = self.t
        if self.family == "ember":
            return t.EmberStatus.SUCCESS if ok else t.EmberStatus[rej]
        return t.sl_Status.OK if ok else t.sl_Status.FAIL

    async def getConfigurationValue(self, cfg):
        await asyncio.sleep(0)
        assert int(cfg) == int(self.t.EzspConfigId.CONFIG_MULTICAST_TABLE_SIZE), cfg
        return [self._st(True), len(self.table)]

    async def getMulticastTableEntry(self, i):
        await asyncio.sleep(0)
        t = self.t
        e = t.EmberMulticastTableEntry()
        if not 0 <= i < len(self.table):
            e.multicastId = t.EmberMulticastId(0); e.endpoint = t.uint8_t(0); e.networkIndex = t.uint8_t(0)
            return [self._st(False, "INDEX_OUT_OF_RANGE"), e]
        e.multicastId = t.EmberMulticastId(self.table[i][0])
        e.endpoint = t.uint8_t(self.table[i][1])
        e.networkIndex = t.uint8_t(0)
        return [self._st(True), e]

    async def setMulticastTableEntry(self, i, entry):
        await asyncio.sleep(0)
        i = int(i)
        w = {"idx": i, "grp": GNAME.get(int(entry.multicastId), "g?"), "ep": int(entry.endpoint)}
        self.writes.append(w)
        a = self.answer
        if a == "timeout":
            raise asyncio.TimeoutError()
        if a == "reject" or not 0 <= i < len(self.table):
            return [self._st(False)]
        self.table[i] = [int(entry.multicastId), int(entry.endpoint)]
        return [self._st(True)]

    def view(self):
        return [GNAME.get(g, "g?") if ep != 0 else "free" for g, ep in self.table]


def _status_class(st) -> str:
    import bellows.types as t
    if st is None:
        return "none"
    if int(st) == 0:
        return "ok"
    name = getattr(st, "name", "")
    if name == "INVALID_INDEX" and isinstance(st, t.sl_Status):
        return "invalid_index"
    return "rejected"


_LOOP = None


def _run(coro):
    global _LOOP
    if _LOOP is None:
        _LOOP = asyncio.new_event_loop()
    return _LOOP.run_until_complete(coro)


def probe(mc, universe):
    """Behavioural host view: (groups for which subscribe() is a no-op success, number of fresh
    groups that can still be subscribed).  Works on deep copies, the object under test is untouched."""
    subs = []
    for g in universe:
        c = copy.deepcopy(mc)
        ncp = c._ezsp
        ncp.answer = "ok"
        ncp.writes = []
        try:
            st = _run(c.subscribe(GROUPS[g]))
        except Exception:
            continue
        if _status_class(st) == "ok" and not ncp.writes:
            subs.append(g)
    c = copy.deepcopy(mc)
    ncp = c._ezsp
    ncp.answer = "ok"
    free = 0
    for k in range(len(ncp.table) + 2):
        ncp.writes = []
        try:
            st = _run(c.subscribe(0x7000 + k))
        except Exception:
            break
        if _status_class(st) != "ok" or not ncp.writes:
            break
        free += 1
    return sorted(subs), free


def execute(init_table, ops, family="ember", universe=("g1", "g2", "g3")):
    """Run ops on a fresh real Multicast; return the trace (list of events)."""
    import bellows.multicast
    ncp = FakeNcp(init_table, family)
    mc = bellows.multicast.Multicast(ncp)
    trace = [{"a": "Init", "tbl": ncp.view()}]
    for op in ops:
        ncp.writes = []
        ret = None
        if op[0] == "Startup":
            ncp.answer = "ok"
            _run(mc._initialize())
            ev = {"a": "Startup", "ret": "none"}
        elif op[0] == "NcpChange":
            # the NCP's table changes behind the host's back; nothing is called on the host
            ncp.table = FakeNcp(op[1], family).table
            trace.append({"a": "NcpChange", "ret": "none", "wrote": [], "tbl": ncp.view(), "subs": [], "free": 0})
            continue
        else:
            name, g, ans = op
            ncp.answer = ans
            fn = mc.subscribe if name == "Subscribe" else mc.unsubscribe
            try:
                st = _run(fn(GROUPS[g]))
                ret = _status_class(st)
            except asyncio.TimeoutError:
                ret = "exception"
            except Exception as e:  # any other exception class is still an exception outcome
                ret = "exception:" + type(e).__name__
            ev = {"a": name, "g": g, "ans": ans, "ret": ret}
        if len(ncp.writes) > 1:
            ev["wrote"] = {"idx": -1, "grp": "multiple", "ep": len(ncp.writes)}
        else:
            ev["wrote"] = ncp.writes[0] if ncp.writes else []
        ev["tbl"] = ncp.view()
        subs, free = probe(mc, universe)
        ev["subs"] = subs
        ev["free"] = free
        trace.append(ev)
    return trace


# ---------------------------------------------------------------- overlapping calls (MulticastConc.tla)
class ConcNcp(FakeNcp):
    """table writes stay pending until the schedule answers them (oldest first); `manual` off = answered at once (probing copies)"""
    manual = True

    def __init__(self, table, family="ember"):
        super().__init__(table, family)
        self.pending = []          # [future, index, entry]

    async def setMulticastTableEntry(self, i, entry):
        if not self.manual:
            return await super().setMulticastTableEntry(i, entry)
        await asyncio.sleep(0)
        i = int(i)
        self.writes.append({"idx": i, "grp": GNAME.get(int(entry.multicastId), "g?"), "ep": int(entry.endpoint)})
        fut = asyncio.get_running_loop().create_future()
        self.pending.append((fut, i, int(entry.multicastId), int(entry.endpoint)))
        return await fut

    def answer_oldest(self, ans):
        fut, i, gid, ep = self.pending.pop(0)
        if ans == "timeout":
            fut.set_exception(asyncio.TimeoutError())
        elif ans == "reject" or not 0 <= i < len(self.table):
            fut.set_result([self._st(False)])
        else:
            self.table[i] = [gid, ep]
            fut.set_result([self._st(True)])


def execute_conc(init_table, ops, family="ember", universe=("g1", "g2", "g3")):
    """ops: ("SubBegin", id, g) | ("UnsubBegin", id, g) | ("End", ans) | ("Probe",)"""
    import bellows.multicast
    global _LOOP
    if _LOOP is None:
        _LOOP = asyncio.new_event_loop()
    loop = _LOOP
    ncp = ConcNcp(init_table, family)
    mc = bellows.multicast.Multicast(ncp)
    _run(mc._initialize())
    trace = [{"a": "Init", "tbl": ncp.view()}]
    tasks, order = {}, []

    def settle():
        for _ in range(6):
            _run(asyncio.sleep(0))

    def outcome(tk):
        if tk.cancelled():
            return "exception:CancelledError"
        e = tk.exception()
        if e is None:
            return _status_class(tk.result())
        return "exception" if isinstance(e, asyncio.TimeoutError) else "exception:" + type(e).__name__
    for op in ops:
        ncp.writes = []
        if op[0] in ("SubBegin", "UnsubBegin"):
            _a, cid, g = op
            fn = mc.subscribe if op[0] == "SubBegin" else mc.unsubscribe
            n0 = len(ncp.pending)
            tasks[cid] = loop.create_task(fn(GROUPS[g]))
            settle()
            if len(ncp.pending) > n0:
                order.append(cid)
            ev = {"a": op[0], "id": cid, "g": g, "ret": outcome(tasks[cid]) if tasks[cid].done() else "pending"}
        elif op[0] == "StartupMembers":
            # the real Multicast.startup(coordinator): table scan, then the groups of the coordinator's endpoints (endpoint 0 skipped)
            import types
            coord = types.SimpleNamespace(endpoints={ep: types.SimpleNamespace(member_of={GROUPS[g]: None for g in gs}) for ep, gs in op[1]})
            ncp.manual = False
            _run(mc._initialize())             # (the scan itself: reads only)
            ncp.manual = True
            trace.append({"a": "Rescan", "tbl": ncp.view(), "ret": "none", "wrote": []})
            orig_init = mc._initialize

            async def no_scan():
                return None
            mc._initialize = no_scan           # already done above; what follows is the subscribe part of startup()
            tk = loop.create_task(mc.startup(coord))
            mc._initialize = orig_init
            k = 900
            seen = 0
            for _ in range(40):
                settle()
                while seen < len(ncp.writes):
                    w = ncp.writes[seen]
                    seen += 1
                    k += 1
                    order.append(k)
                    trace.append({"a": "SubBegin", "id": k, "g": w["grp"], "ret": "pending", "wrote": w, "tbl": ncp.view()})
                if not ncp.pending:
                    if tk.done():
                        break
                    continue
                cid = order.pop(0)
                ncp.answer_oldest("ok")
                settle()
                trace.append({"a": "End", "id": cid, "ans": "ok", "ret": "ok", "wrote": [], "tbl": ncp.view()})
            continue
        elif op[0] == "Cancel":
            # the caller gives up while its write has not reached the NCP yet: the write must never happen
            cid = op[1]
            if cid not in tasks or tasks[cid].done():
                continue
            tasks[cid].cancel()
            settle()
            gone = [p_ for p_ in ncp.pending if p_[0].cancelled()]
            ncp.pending = [p_ for p_ in ncp.pending if not p_[0].cancelled()]
            if gone and cid in order:
                order.remove(cid)
            ev = {"a": "Cancel", "id": cid, "ret": "cancelled" if tasks[cid].cancelled() else "exception:notcancelled", "wrote": [], "tbl": ncp.view()}
            trace.append(ev)
            continue
        elif op[0] == "End":
            if not ncp.pending:
                continue
            if not order:
                # a write nobody stands for any more (its caller was cancelled) reaches the NCP after all
                ncp.answer_oldest(op[1])
                settle()
                continue
            cid = order.pop(0)
            ncp.answer_oldest(op[1])
            settle()
            ev = {"a": "End", "id": cid, "ans": op[1], "ret": outcome(tasks[cid]) if tasks[cid].done() else "pending"}
        else:
            if ncp.pending:
                continue
            ncp.manual = False
            try:
                subs, free = probe(mc, universe)
            finally:
                ncp.manual = True
            trace.append({"a": "Probe", "subs": subs, "free": free, "tbl": ncp.view(), "ret": "none", "wrote": []})
            continue
        ev["wrote"] = (ncp.writes[0] if len(ncp.writes) == 1 else {"idx": -1, "grp": "multiple", "ep": len(ncp.writes)}) if ncp.writes else []
        ev["tbl"] = ncp.view()
        trace.append(ev)
    while ncp.pending:                 # never leave a coroutine suspended
        ncp.answer_oldest("ok")
        settle()
    return trace


def conc_schedules(quick):
    """two or three overlapping calls on different groups: every order of begins and answers, every answer"""
    out = []
    calls2 = [(("SubBegin", 1, "g1"), ("SubBegin", 2, "g2")), (("SubBegin", 1, "g1"), ("UnsubBegin", 2, "g2")),
              (("UnsubBegin", 1, "g1"), ("UnsubBegin", 2, "g2")), (("UnsubBegin", 1, "g1"), ("SubBegin", 2, "g3"))]
    for a, b in calls2:
        for a1 in ANSWERS:
            for a2 in ANSWERS:
                # both begun before either answer; and the second begun after the first's answer (sequential control)
                out.append([a, b, ("End", a1), ("Probe",), ("End", a2), ("Probe",), ("SubBegin", 3, "g3"), ("End", "ok"), ("Probe",)])
                out.append([a, ("End", a1), b, ("End", a2), ("Probe",)])
    # two overlapping unsubscribes of one group, a subscribe between their completions (the freed index must not be freed twice)
    for a1 in ANSWERS:
        for a2 in ANSWERS:
            out.append([("UnsubBegin", 1, "g1"), ("UnsubBegin", 2, "g1"), ("End", a1), ("SubBegin", 3, "g3"), ("End", a2), ("End", "ok"), ("Probe",),
                        ("SubBegin", 4, "g2"), ("End", "ok"), ("Probe",), ("SubBegin", 5, "g1"), ("End", "ok"), ("Probe",)])
            out.append([("UnsubBegin", 1, "g1"), ("UnsubBegin", 2, "g1"), ("End", a1), ("End", a2), ("Probe",), ("SubBegin", 3, "g3"), ("End", "ok"), ("Probe",)])
    # a caller cancelled while its write is still queued (not yet with the NCP): nothing of it may happen later
    for a, b in calls2:
        for who in (1, 2):
            for a1 in ANSWERS:
                out.append([a, b, ("Cancel", who), ("End", a1), ("End", "ok"), ("Probe",), ("SubBegin", 3, "g3"), ("End", "ok"), ("Probe",)])
    for a1 in ANSWERS:
        for a2 in (("ok", "timeout") if quick else ANSWERS):
            for a3 in (("ok", "reject") if quick else ANSWERS):
                out.append([("SubBegin", 1, "g1"), ("SubBegin", 2, "g2"), ("SubBegin", 3, "g3"), ("End", a1), ("End", a2), ("End", a3), ("Probe",),
                            ("UnsubBegin", 4, "g1"), ("SubBegin", 5, "g2"), ("End", "ok"), ("End", "ok"), ("Probe",)])
    return out


def init_tables(n, groups, stale=False):
    cells = list(groups) + ["free"]
    out = []
    for t in itertools.product(cells, repeat=n):
        used = [c for c in t if c != "free"]
        if len(used) == len(set(used)):
            out.append(list(t))
    return out


def abstract(ev):
    return (tuple(ev["tbl"]), tuple(ev["subs"]), ev["free"])


_RE_LABEL = re.compile(r"(\w+)(?:\((.*)\))?")


def spec_edges(dot):
    """(projected source state, label) pairs of the TLC graph."""
    nodes, inits, edges = T.parse_dot(dot)
    proj = {}
    for k, txt in nodes.items():
        s = T.parse_state(txt)
        tbl = s["tbl"]
        if isinstance(tbl, dict):
            tbl = [tbl[i] for i in sorted(tbl)]
        sub = s["sub"]
        subs = sorted(sub.keys()) if isinstance(sub, dict) else []
        proj[k] = (s["started"], tuple(tbl), tuple(subs), len(s["avail"]))
    out = set()
    for a, b, lab in edges:
        out.add((proj[a], lab.replace(" ", "")))
    return out, len(nodes), len(edges)


CONST = lambda groups, maxn: {"Groups": "{" + ", ".join(f'"{g}"' for g in groups) + "}", "MaxN": str(maxn)}
INVS = ("TypeOK", "Mirror", "FreeMirror")
PROPS = ("FullFails", "Idempotent", "FailedCallKeepsFree")


def sig(meta, v, tr):
    ev = tr[v.stuck_at - 1] if v.stuck_at and v.stuck_at <= len(tr) else {}
    prev = tr[v.stuck_at - 2] if v.stuck_at and v.stuck_at >= 2 else {}
    # the failing (operation, answer) and the step that preceded it identify the defect, not the table
    return "trace:Multicast:%s(%s)after:%s(%s)" % (ev.get("a"), ev.get("ans", ""), prev.get("a"), prev.get("ans", ""))


def run(ctx: Ctx):
    maxn = 3 if ctx.quick else 4
    groups = ("g1", "g2", "g3")
    dot = ctx.workdir / "multicast.dot"
    ctx.model_check("Multicast", "MC_Multicast", constants=CONST(groups, maxn), invariants=INVS,
                    properties=PROPS, dump_dot=dot, workers=1,
                    required_actions=("Startup", "Subscribe", "Unsubscribe", "NcpChange"))
    edges, nn, ne = spec_edges(dot)
    ctx.notes["spec_graph"] = {"nodes": nn, "edges": ne, "state_label_pairs": len(edges)}

    # ---- spec -> code: graph-guided exploration of the implementation, every (state, op, answer)
    traces, metas = [], []
    covered = set()
    for family in ("ember", "sl"):
        seen = set()
        for n in range(0, maxn + 1):
            for tab in init_tables(n, groups):
                frontier = [[("Startup",)]]
                depth = 0
                maxdepth = 3 if ctx.quick else 4
                while frontier and depth < maxdepth:
                    depth += 1
                    nxt = []
                    for path in frontier:
                        base = execute(tab, path, family) if depth == 1 else None
                        for op in [("Startup",)] + [(o, g, a) for o in ("Subscribe", "Unsubscribe")
                                                    for g in groups for a in ANSWERS]:
                            tr = execute(tab, path + [op], family)
                            src = abstract(tr[-2])
                            lab = op[0] if op[0] == "Startup" else f'{op[0]}("{op[1]}","{op[2]}")'
                            key = (src, lab)
                            if family == "ember":
                                covered.add(((True,) + (src[0], src[1], src[2]), lab))
                            if key in seen:
                                continue
                            seen.add(key)
                            traces.append(tr)
                            metas.append({"family": family, "init": tab, "ops": path + [op]})
                            dst = abstract(tr[-1])
                            if (dst, "expanded") not in seen:
                                seen.add((dst, "expanded"))
                                nxt.append(path + [op])
                    frontier = nxt
                # the unstarted state's only transition
                tr = execute(tab, [("Startup",)], family)
                traces.append(tr)
                metas.append({"family": family, "init": tab, "ops": [("Startup",)]})
    started_edges = {e for e in edges if e[0][0] and not e[1].startswith("NcpChange")}
    hit = {e for e in started_edges if e in covered}
    ctx.notes["spec_to_code"] = {"started_state_label_pairs": len(started_edges), "executed_on_impl": len(hit)}
    if len(hit) < len(started_edges):
        # the implementation never reached some spec (state, label): it diverged earlier; trace
        # validation below reports where.  Not itself a verdict.
        ctx.notes["spec_to_code"]["unreached_sample"] = [str(x) for x in sorted(started_edges - hit, key=str)[:5]]
    ctx.exhaustive = len(hit) == len(started_edges)
    # the wire layout of the table entry exchanged with the NCP, pinned from the EZSP reference (spec/WireLayout.tla)
    from . import wirelayout
    wirelayout.check(ctx, ["EmberMulticastTableEntry"])

    # ---- the same initial tables programmed with other non-zero endpoints (an entry is in use iff its endpoint is non-zero)
    for family in ("ember", "sl"):
        for n in range(1, maxn + 1):
            for tab in init_tables(n, groups):
                if all(c == "free" for c in tab):
                    continue
                for k, eps in enumerate(((2,), (255,), (1, 2, 255))):
                    vtab = [c if c == "free" else ["ep", c, eps[i % len(eps)]] for i, c in enumerate(tab)]
                    used = [c for c in tab if c != "free"]
                    for g in groups:
                        for a in ANSWERS:
                            for op in ("Subscribe", "Unsubscribe"):
                                if ctx.quick and (len(traces) + k) % 3:
                                    continue
                                ops = [("Startup",), (op, g, a), ("Subscribe", used[0], "ok"), ("Unsubscribe", used[-1], "ok")]
                                traces.append(execute(vtab, ops, family))
                                metas.append({"family": family, "init": vtab, "ops": ops})
    # ---- free entries that still carry a group id (what unsubscribe leaves behind: endpoint 0, id kept), including the id of a
    #      group that is live at another index; and restarts (a second start-up scan over the table the host itself produced)
    for family in ("ember", "sl"):
        for n in range(1, maxn + 1):
            cells = list(groups) + ["free"] + [["stale", g] for g in groups]
            for k, t in enumerate(itertools.product(cells, repeat=n)):
                live = [c for c in t if isinstance(c, str) and c != "free"]
                if len(live) != len(set(live)) or not any(isinstance(c, list) for c in t):
                    continue
                if family == "sl" and ctx.quick and k % 3:
                    continue
                for g in groups:
                    for op in ("Subscribe", "Unsubscribe"):
                        ops = [("Startup",), (op, g, "ok")]
                        traces.append(execute(list(t), ops, family))
                        metas.append({"family": family, "init": list(t), "ops": ops})
            for tab in init_tables(n, groups):
                for g in groups:
                    g2 = groups[(groups.index(g) + 1) % len(groups)]
                    ops = [("Startup",), ("Subscribe", g, "ok"), ("Unsubscribe", g, "ok"), ("Subscribe", g, "ok"), ("Startup",),
                           ("Subscribe", g, "ok"), ("Subscribe", g2, "ok"), ("Startup",), ("Unsubscribe", g, "ok"), ("Subscribe", g2, "ok")]
                    traces.append(execute(tab, ops, family))
                    metas.append({"family": family, "init": tab, "ops": ops})
    # ---- the NCP's table changing behind the host's back (NCP restart, foreign writer), then another start-up scan on the SAME object:
    #      the scan must rebuild the view from the table alone; every pair of tables, the view exercised before and after
    for family in ("ember", "sl"):
        for n in range(1, maxn + 1):
            tabs = init_tables(n, groups)
            k = 0
            for t1 in tabs:
                for t2 in tabs:
                    if t1 == t2:
                        continue
                    k += 1
                    if (ctx.quick and n == maxn and k % 7) or (family == "sl" and k % 3):
                        continue
                    g = groups[k % len(groups)]
                    g2 = groups[(k + 1) % len(groups)]
                    ops = [("Startup",), ("Subscribe", g, "ok"), ("NcpChange", t2), ("Startup",), ("Subscribe", g, "ok"), ("Subscribe", g2, "ok"),
                           ("Unsubscribe", g, "ok"), ("NcpChange", t1), ("Startup",), ("Unsubscribe", g2, "ok"), ("Subscribe", g, "ok")]
                    traces.append(execute(t1, ops, family))
                    metas.append({"family": family, "init": t1, "ops": ops})
    # ---- overlapping calls on different groups (MulticastConc.tla): begins and answers in every order, every answer
    ctx.model_check("MulticastConcMC", "MC_MulticastConc", constants={"Groups": '{"g1", "g2", "g3"}', "N": "2" if ctx.quick else "3", "MaxCalls": "3" if ctx.quick else "4"},
                    invariants=("Owned", "Mirror", "TableUnique"), required_actions=("BeginG", "Finish"), workers=4)
    cfg = T.write_cfg(ctx.workdir / "MC_MulticastConc_same.cfg", spec="SpecSame", constants={"Groups": '{"g1", "g2"}', "N": "2", "MaxCalls": "3"},
                      invariants=("Owned", "Mirror", "TableUnique"))
    res = T.run_tlc("MulticastConcMC", cfg, workdir=ctx.workdir, workers=2)
    ctx.model_runs.append({"module": "MulticastConcMC", "config": "overlapping calls for the same group (counter-example expected)", **res.summary()})
    ctx.notes["deviation_same_group_overlap"] = "TLC: " + (",".join(res.violated) or str(res.error_kind))
    if res.error_kind != "invariant":
        raise T.MachineryError(f"MulticastConcMC/SpecSame: expected a counter-example, got {res.error_kind}")
    ctraces, cmetas = [], []
    for family in ("ember", "sl"):
        for n in (2, 3):
            for tab in init_tables(n, groups):
                if family == "sl" and tab.count("free") != 1:
                    continue
                for sched in conc_schedules(ctx.quick):
                    ctraces.append(execute_conc(tab, sched, family))
                    cmetas.append({"family": family, "init": tab, "ops": sched, "conc": True})
    # the real startup(coordinator) with group memberships on several endpoints (also the same group on two endpoints, endpoint 0 skipped)
    for family in ("ember", "sl"):
        for tab in init_tables(3, groups):
            for eps in ([[1, ["g1", "g2"]]], [[1, ["g1"]], [2, ["g1", "g3"]]], [[0, ["g2"]], [1, ["g3"]], [242, ["g3", "g1"]]]):
                sched = [("StartupMembers", eps), ("Probe",), ("UnsubBegin", 5, "g1"), ("End", "ok"), ("Probe",)]
                ctraces.append(execute_conc(tab, sched, family))
                cmetas.append({"family": family, "init": tab, "ops": sched, "conc": True})
    ctx.validate_traces("Trace_MulticastConc", ctraces, invariants=("Owned", "Mirror", "Unique"), metas=cmetas, label="multicast overlapping",
                        sig=lambda m, v, tr: "trace:MulticastConc:%s" % ((tr[v.stuck_at - 1] if v.stuck_at and v.stuck_at <= len(tr) else {}).get("a"),))
    # ---- random long histories beyond the model's bounds (code -> spec)
    big = ("g1", "g2", "g3", "g4", "g5")
    nrand = 60 if ctx.quick else 600
    for k in range(nrand):
        n = ctx.rng.randint(0, 6)
        cells = list(big) + ["free"] * 3
        tab = []
        for _ in range(n):
            c = ctx.rng.choice(cells)
            while c != "free" and c in tab:
                c = ctx.rng.choice(cells)
            tab.append(c)
        if k % 3 == 0:
            tab = [c if c == "free" else ["ep", c, ctx.rng.choice((1, 2, 3, 255))] for c in tab]
        elif k % 3 == 1:
            tab = [["stale", ctx.rng.choice(big)] if (c == "free" and ctx.rng.random() < 0.6) else c for c in tab]
        ops = [("Startup",)]
        for _ in range(ctx.rng.randint(5, 25 if ctx.quick else 60)):
            r = ctx.rng.random()
            if r < 0.08:
                ops.append(("Startup",))
            else:
                ops.append((ctx.rng.choice(("Subscribe", "Unsubscribe")), ctx.rng.choice(big),
                            ctx.rng.choices(ANSWERS, (6, 2, 2))[0]))
        fam = ctx.rng.choice(("ember", "sl"))
        traces.append(execute(tab, ops, fam, big))
        metas.append({"family": fam, "init": tab, "ops": ops})

    ctx.evaluations = len(traces)
    ctx.distinct_nontrivial = len({str(m) for m in metas})
    ctx.rule = ("every (state, operation, answer) pair of the TLC state graph executed on the real Multicast "
                "from every initial table (each group at most once, N<=%d), both status families; tables whose free entries carry left-over group ids (also the id of a live group) and restart sequences; plus seeded "
                "random histories with 5 groups and N<=6; a case is a distinct (initial table, operation list)" % maxn)
    ctx.add_sample({"init": metas[len(metas) // 3]["init"], "ops": metas[len(metas) // 3]["ops"],
                    "trace": traces[len(traces) // 3]})
    ctx.validate_traces("Trace_Multicast", traces, constants=CONST(big, 8), invariants=INVS, metas=metas,
                        label="multicast", sig=sig)
    ctx.assumptions += [
        "the NCP does not apply a table write it rejects or that times out (property quantifier)",
        "command-level simulated NCP (FakeNcp) answers getConfigurationValue/get/setMulticastTableEntry in "
        "the result shape of the real EZSP layer (EmberStatus for v4..13, sl_Status for v14)",
        "host view is probed behaviourally on deep copies (subscribe no-op <=> subscribed; fresh subscribes until failure = free count)",
    ]


def replay(ctx: Ctx, data):
    m = data["replay"]["meta"]
    if m.get("conc"):
        tr = execute_conc(m["init"], [tuple(o) for o in m["ops"]], m["family"])
        ctx.validate_traces("Trace_MulticastConc", [tr], invariants=("Owned", "Mirror", "Unique"), metas=[m], label="multicast overlapping")
        ctx.add_sample(tr)
        return
    tr = execute(m["init"], [tuple(o) for o in m["ops"]], m["family"], ("g1", "g2", "g3", "g4", "g5"))
    ctx.validate_traces("Trace_Multicast", [tr], constants=CONST(("g1", "g2", "g3", "g4", "g5"), 8),
                        invariants=INVS, metas=[m], label="multicast", sig=sig)
    ctx.add_sample(tr)
