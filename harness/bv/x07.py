"""X07 (extension, not one of the listed properties) - the serial connection on its own thread: bellows.uart.connect(use_thread=True).

spec/ThreadedConnect.tla is an observer over two per-thread logs (as ThreadProxy.tla in C20): what connect() returns stands for the
gateway - every call made through it from the caller's loop M executes on the serial thread S, coroutine results are relayed; everything
the gateway tells the application executes on M in the order it happened on S; when the connection is gone the serial thread ends and later
calls are dropped without blocking; when the port cannot be opened connect() raises and no thread stays behind.  The real uart.connect runs
with real threads (the real Gateway and AshProtocol on the serial thread, a fake serial transport answering RST with RSTACK and DATA with ACK);
TLC searches for an interleaving of the two logs that the specification allows."""
from __future__ import annotations

import asyncio
import threading
import time

from . import ashref
from .core import Ctx
from .seams import FakeSerialTransport

LEVEL = "model_checking"
KINDS = ("session", "error", "lostnow", "eof", "openfail", "burst", "frames", "closefirst")


def scenario(kind):
    import bellows.uart as uart
    import bellows.thread as bthread
    import zigpy.serial
    main_log, serial_log = [], []
    idn = {"M": threading.get_ident(), "S": None}
    box = {"id": 0, "blocked": 0, "threads": [], "proto": None, "sloop": None, "down": False}

    def who():
        i = threading.get_ident()
        return "M" if i == idn["M"] else "S" if i == idn["S"] else "other"

    class App:
        def frame_received(self, data):
            main_log.append({"a": "up", "what": "frame", "thread": who()})

        def enter_failed_state(self, code):
            main_log.append({"a": "up", "what": "failed", "thread": who()})

        def connection_lost(self, exc):
            main_log.append({"a": "up", "what": "lost", "thread": who()})

    class LoggedGateway(uart.Gateway):
        async def send_data(self, data):
            serial_log.append({"a": "exec", "id": int(bytes(data)[0]), "thread": who()})
            return await super().send_data(data)

        async def reset(self):
            serial_log.append({"a": "exec", "id": box["id"], "thread": who()})
            return await super().reset()

        def close(self):
            serial_log.append({"a": "exec", "id": box["id"], "thread": who()})
            return super().close()

        def data_received(self, data):
            serial_log.append({"a": "notify", "what": "frame", "thread": who()})
            return super().data_received(data)

        def reset_received(self, code):
            if int(code) != 0x0B:
                serial_log.append({"a": "notify", "what": "failed", "thread": who()})
            return super().reset_received(code)

        def error_received(self, code):
            serial_log.append({"a": "notify", "what": "failed", "thread": who()})
            return super().error_received(code)

        def connection_lost(self, exc):
            if not box["down"]:
                box["down"] = True
                serial_log.append({"a": "down"})
            if exc is not None:
                serial_log.append({"a": "notify", "what": "lost", "thread": who()})
            return super().connection_lost(exc)

    class LoggedThread(bthread.EventLoopThread):
        def __init__(self):
            super().__init__()
            box["threads"].append(self)

    async def fake_create(loop, protocol_factory, url=None, baudrate=None, xonxoff=None, rtscts=None, **kw):
        idn["S"] = threading.get_ident()
        box["sloop"] = loop
        if kind == "openfail":
            raise OSError(19, "No such device")
        proto = protocol_factory()
        tr = FakeSerialTransport()
        ncp_tx = [0]

        def on_write(data):
            # the peer: RST -> RSTACK(software), DATA n -> ACK n+1 (fed back on the serial loop)
            for f in ashref.decode_write(bytes(data)):
                if f["type"] == "RST":
                    loop.call_soon(proto.data_received, ashref.wire({"type": "RSTACK", "ver": 2, "code": 0x0B}))
                elif f["type"] == "DATA":
                    loop.call_soon(proto.data_received, ashref.wire({"type": "ACK", "res": 0, "nrdy": 0, "ack": (f["frm"] + 1) % 8}))
        tr.on_write = on_write
        tr.on_close = lambda: loop.call_soon(proto.connection_lost, None)
        box["proto"], box["tr"], box["ncp_tx"] = proto, tr, ncp_tx
        proto.connection_made(tr)
        return tr, proto

    def feed(raw):
        box["sloop"].call_soon_threadsafe(box["proto"].data_received, raw)

    def ncp_data(pl):
        n = box["ncp_tx"][0]
        box["ncp_tx"][0] = (n + 1) % 8
        return ashref.wire({"type": "DATA", "frm": n, "retx": 0, "ack": 0, "pl": list(pl)})

    async def call(gw, id_, what, *args):
        box["id"] = id_
        t0 = time.monotonic()
        main_log.append({"a": "call", "id": id_})
        kind_ = "plain" if what == "close" else "coro"
        val = -1
        try:
            r = getattr(gw, what)(*args)
            if kind_ == "coro" and r is not None:
                await asyncio.wait_for(r, 10)
                val = id_
        except BaseException:  # noqa
            val = -1
        if time.monotonic() - t0 > 8:
            box["blocked"] = 1
        main_log.append({"a": "ret", "id": id_, "kind": kind_, "val": val})

    async def wait_dead(limit=5.0):
        t_end = time.monotonic() + limit
        while time.monotonic() < t_end:
            if all(th.loop is None for th in box["threads"]):
                return True
            await asyncio.sleep(0.005)
        return False

    async def quiet(n=0.03):
        await asyncio.sleep(n)

    async def main():
        o1, o2, o3 = zigpy.serial.create_serial_connection, uart.Gateway, uart.EventLoopThread
        zigpy.serial.create_serial_connection, uart.Gateway, uart.EventLoopThread = fake_create, LoggedGateway, LoggedThread
        try:
            try:
                gw = await asyncio.wait_for(uart.connect({"path": "/dev/ttyFAKE", "baudrate": 115200, "flow_control": None}, App(), use_thread=True), 10)
                main_log.append({"a": "connect", "raised": 0})
            except BaseException:  # noqa
                main_log.append({"a": "connectfail", "raised": 1})
                gw = None
            if gw is not None:
                if kind in ("session", "burst", "frames", "error"):
                    await call(gw, 101, "reset")
                if kind == "session":
                    await call(gw, 1, "send_data", bytes([1, 9]))
                    feed(ncp_data([7, 7]))
                    await call(gw, 2, "send_data", bytes([2, 9]))
                    await quiet()
                    await call(gw, 102, "close")
                elif kind == "burst":
                    await asyncio.gather(*[call(gw, 10 + k, "send_data", bytes([10 + k])) for k in range(5)])
                    await call(gw, 102, "close")
                elif kind == "frames":
                    for k in range(3):
                        feed(ncp_data([k]))
                    await quiet()
                    box["sloop"].call_soon_threadsafe(box["proto"].connection_lost, ConnectionResetError("gone"))
                elif kind == "error":
                    feed(ashref.wire({"type": "ERROR", "ver": 2, "code": 0x51}))
                    await quiet()
                    box["sloop"].call_soon_threadsafe(box["proto"].connection_lost, ConnectionResetError("gone"))
                elif kind == "lostnow":
                    box["sloop"].call_soon_threadsafe(box["proto"].connection_lost, ConnectionResetError("gone"))
                elif kind == "eof":
                    box["sloop"].call_soon_threadsafe(box["proto"].eof_received)
                elif kind == "closefirst":
                    await call(gw, 102, "close")
                dead = await wait_dead()
                await quiet()
                if dead:
                    # the connection is gone and the serial thread has ended: later calls are dropped, nothing blocks
                    await call(gw, 50, "send_data", bytes([50]))
                    await call(gw, 103, "close")
            else:
                await wait_dead()
            await quiet()
            alive = any(th.loop is not None for th in box["threads"])
            main_log.append({"a": "end", "salive": 1 if alive else 0, "blocked": box["blocked"]})
            for th in box["threads"]:
                th.force_stop()
        finally:
            zigpy.serial.create_serial_connection, uart.Gateway, uart.EventLoopThread = o1, o2, o3
    loop = asyncio.new_event_loop()
    try:
        loop.run_until_complete(main())
    finally:
        loop.close()
    return {"main": main_log, "serial": serial_log}


def length_of(t):
    return len(t["main"]) + len(t["serial"])


def run(ctx: Ctx):
    reps = 6 if ctx.quick else 120
    traces, metas = [], []
    for r in range(reps):
        for kind in KINDS:
            traces.append(scenario(kind))
            metas.append({"kind": kind, "rep": r})
    ctx.evaluations = len(traces)
    ctx.distinct_nontrivial = len(KINDS)
    ctx.rule = (f"scenarios {KINDS} (a session with reset / sends / a frame from the NCP / close; an ERROR frame then loss; immediate loss; EOF; a port that cannot be "
                f"opened; a burst of concurrent sends; three frames in a row then loss; close first), each {reps} times with real threads; after the serial thread ended "
                "further calls are made; distinct = scenario kinds")
    ctx.add_sample({"meta": metas[0], "trace": traces[0]})
    ctx.validate_traces("Trace_ThreadedConnect", traces, metas=metas, label="threaded connect", length_of=length_of, dfs=True,
                        sig=lambda m, v, tr: f"trace:ThreadedConnect:{m['kind']}")
    # binding self-test: an application method recorded on the wrong thread / a gateway method on the caller's thread must be rejected
    bad = []
    for tr in traces[:len(KINDS)]:
        for key, field in (("main", "up"), ("serial", "exec")):
            idx = [i for i, e in enumerate(tr[key]) if e["a"] == field]
            if idx:
                c = {"main": [dict(e) for e in tr["main"]], "serial": [dict(e) for e in tr["serial"]]}
                c[key][idx[0]]["thread"] = "S" if field == "up" else "M"
                bad.append(c)
    from . import trace as TR, tlc as T
    rej = len(TR.validate("Trace_ThreadedConnect", bad, workdir=ctx.workdir, length_of=length_of, dfs=True).rejected)
    ctx.notes["binding_selftest"] = {"corrupted_runs": len(bad), "rejected": rej}
    if rej != len(bad):
        raise T.MachineryError(f"binding self-test: only {rej} of {len(bad)} corrupted runs were rejected")
    ctx.exhaustive = False
    ctx.assumptions += ["extension beyond the listed properties", "real OS threads: schedules are sampled; verdicts depend only on per-thread order",
                        "bellows.uart.Gateway / EventLoopThread are subclassed (logging) through the module attributes for the duration of a scenario; fake serial "
                        "transport answering RST with RSTACK(software) and DATA n with ACK n+1"]


def replay(ctx: Ctx, data):
    m = data["replay"]["meta"]
    tr = scenario(m["kind"])
    ctx.validate_traces("Trace_ThreadedConnect", [tr], metas=[m], label="threaded connect", length_of=length_of, dfs=True)
    ctx.add_sample(tr)
