"""C14 - network settings survive a write / read round trip through the NCP.

spec/NetInfo.tla is the contract over one run (security state sent, NCP store after the write, settings read back,
restore order); NetInfoMC shows it satisfiable by the intended procedure for every version and that lost keys / late
counters are caught.  The real ControllerApplication.write_network_info then load_network_info(load_devices=True) run
for every protocol version 4..14 x NCP capability (rewritable EUI64 token or not) against the simulated NCP store with
generated settings; TLC judges each run (Trace_NetInfo)."""
from __future__ import annotations

import asyncio
import random

from . import apprig, ncp_netinfo, vloop
from .c04 import pmap
from .core import Ctx

INVS = ("CompletedOk", "SecurityStateExactOk", "StoreHoldsOk", "RoundTripOk", "OrderOkOk", "NodeAddressOk", "TcAddressOk", "ReadMatchesStoreOk", "OverlapReadsOk")
WELL_KNOWN = b"ZigBeeAlliance09"
# EmberInitialSecurityBitmask, pinned from the EmberZNet headers
F_PRECONFIGURED_KEY, F_NETWORK_KEY, F_TC_EUI64, F_HASHED = 0x0100, 0x0200, 0x0040, 0x0084


# (rewritable token, node address, trust-centre address, restored twice, burn permission)
SYSTEMATIC = [(True, "different", "self", True, False), (True, "different", "self", False, False), (False, "different", "self", False, False),
              (False, "different", "self", True, True), (True, "same", "self", True, False), (True, "unknown", "other", True, False),
              (False, "different", "other", False, True), (True, "different", "unknown", True, True)]


def gen_case(ver, rng: random.Random):
    rb = lambda n: [rng.randrange(256) for _ in range(n)]   # noqa
    nk = rng.choice((0, 0, 1, 2, 4))
    nc = rng.choice((0, 0, 1, 3, 4))
    partners = []
    while len(partners) < nk:
        p = rb(8)
        if p not in partners:
            partners.append(p)
    children = []
    while len(children) < nc:
        e = rb(8)
        if e not in [c[0] for c in children]:
            # the network address may also be one of the reserved values (discovery active / unknown): it is stored and read back like any other
            children.append((e, rng.choice((0xFFFC, 0xFFFD)) if rng.random() < 0.2 else rng.randrange(1, 0xFFF7), rng.random() < 0.85))
    tclk_ = list(WELL_KNOWN) if ver >= 5 else rng.choice((list(WELL_KNOWN), rb(16)))
    keys_ = [(rb(16), p) for p in partners]
    if keys_ and rng.random() < 0.4:
        keys_[rng.randrange(len(keys_))] = (list(tclk_), keys_[0][1] if len(keys_) == 1 else partners[-1])      # a partner provisioned with the trust-centre link key itself
        if len({tuple(p) for _k, p in keys_}) < len(keys_):
            keys_ = keys_[:1]
    return {
        "ver": ver, "rewritable": rng.random() < 0.5,
        "pan": rng.randrange(1, 0xFFFF), "epan": rb(8), "channel": rng.randrange(11, 27), "mask": rng.choice((0x07FFF800, 1 << 15, (1 << 20) | (1 << 25))),
        "updateId": rng.randrange(256), "netKey": rb(16), "netSeq": rng.randrange(256),
        "netFc": rng.choice((0, 1, 0x12345, 0x7FFFFFFF, 0x80000000, 0xFFFFFFFE, rng.randrange(2 ** 32))),
        "apsFc": rng.choice((0, 5, 0xFFFFFFF0, rng.randrange(2 ** 32))),
        "tclk": tclk_,
        "hashed": rng.choice((None, rb(16))),
        "tc": rng.choice(("unknown", "self", "other")),
        "ieee": rng.choice(("same", "different", "different", "unknown")),
        "burn": rng.random() < 0.3,            # permission to burn the address into the write-once manufacturing token
        "twice": rng.random() < 0.35,          # the same backup is restored a second time
        "keys": keys_,
        "children": children,
        "stale": rng.random() < 0.5,          # the NCP is off-network but still holds link keys of an earlier network / unfinished restore (the key table outlives a network; the child table does not)
        "dropChild": rng.random() < 0.6,      # afterwards the child in the lowest slot leaves and the settings are read once more
        "overlap": rng.choice((None, 0, 1, 2, 3, 4, 5, 6, 7, 8, 9, 10, 11, 12)),   # then two reads overlap, the second lagging by this many commands
    }


def run_case(case):
    ver = case["ver"]

    async def main(loop):
        import zigpy.state
        import zigpy.types as zt
        app, ezsp, gw, ncp = await apprig.make_app(loop, ver)
        store = ncp_netinfo.NetStore(ncp, rewritable_eui=case["rewritable"])
        ncp.reset_hooks = [store.on_reset]
        if case.get("stale"):
            # left over in the NCP's tokens (the stack itself is not running, no network stored): they must not come back with the restored network
            store.keys[-1] = (bytes([0x77] * 16), bytes([0x88] * 8))
            store.keys[-2] = (bytes([0x79] * 16), bytes([0x8A] * 8))
        cur = store.factory_eui
        if case["ieee"] == "same":
            node_ieee = zt.EUI64(cur)
        elif case["ieee"] == "unknown":
            node_ieee = zt.EUI64.UNKNOWN
        else:
            node_ieee = zt.EUI64(bytes([0xAA] * 7 + [ver]))
        if case["tc"] == "unknown":
            tc = zt.EUI64.UNKNOWN
        elif case["tc"] == "self":
            tc = node_ieee
        else:
            tc = zt.EUI64(bytes([0xBB] * 8))
        tc_self = int(case["tc"] == "self" and case["ieee"] != "unknown")

        def settings():
            stack_specific = {"ezsp": {"hashed_tclk": bytes(case["hashed"]).hex()}} if case["hashed"] is not None else {}
            if case.get("burn"):
                stack_specific.setdefault("ezsp", {})["i_understand_i_can_update_eui64_only_once_and_i_still_want_to_do_it"] = True
            ni = zigpy.state.NetworkInfo(
                extended_pan_id=zt.ExtendedPanId(bytes(case["epan"])), pan_id=zt.PanId(case["pan"]), nwk_update_id=case["updateId"],
                nwk_manager_id=zt.NWK(0), channel=case["channel"], channel_mask=zt.Channels(case["mask"]), security_level=5,
                network_key=zigpy.state.Key(key=zt.KeyData(bytes(case["netKey"])), seq=case["netSeq"], tx_counter=case["netFc"]),
                tc_link_key=zigpy.state.Key(key=zt.KeyData(bytes(case["tclk"])), partner_ieee=zt.EUI64(tc), tx_counter=case["apsFc"]),
                key_table=[zigpy.state.Key(key=zt.KeyData(bytes(k)), partner_ieee=zt.EUI64(bytes(p))) for k, p in case["keys"]],
                children=[zt.EUI64(bytes(e)) for e, _n, _h in case["children"]],
                nwk_addresses={zt.EUI64(bytes(e)): zt.NWK(n) for e, n, has in case["children"] if has},
                stack_specific=stack_specific)
            node = zigpy.state.NodeInfo(nwk=zt.NWK(0), ieee=zt.EUI64(node_ieee), logical_type=0)
            return ni, node
        completed, exc = 1, ""
        can_burn0 = store.mfg_custom_eui == ncp_netinfo.FF8
        hashed_first = None
        for rnd in range(2 if case.get("twice") else 1):
            ni, node = settings()                 # write_network_info adjusts the objects it is given: fresh ones per restore
            if rnd == 1 and hashed_first is not None and case["hashed"] is None:
                ni.stack_specific.setdefault("ezsp", {})["hashed_tclk"] = hashed_first
            store.cmd_order.clear()
            t1 = asyncio.ensure_future(app.write_network_info(network_info=ni, node_info=node))
            ok = await apprig.run_until_done(loop, [t1], limit_s=600)
            if not ok or t1.exception() is not None:
                completed, exc = 0, ("hang" if not t1.done() else "write:" + type(t1.exception()).__name__)
                break
            hashed_first = ni.stack_specific.get("ezsp", {}).get("hashed_tclk")
        st_params = store.params
        st = {"pan": int(st_params.panId) if st_params is not None else -1,
              "epan": list(st_params.extendedPanId.serialize()) if st_params is not None else [],
              "channel": int(st_params.radioChannel) if st_params is not None else -1,
              "mask": str(int(st_params.channels)) if st_params is not None else "",
              "updateId": int(st_params.nwkUpdateId) if st_params is not None else -1,
              "netKey": list(store.netkey), "netSeq": store.netseq, "netFc": str(store.netfc),
              "linkKeys": [{"key": list(k), "partner": list(p)} for (k, p) in [e for e in store.keys if e is not None]],
              "children": [{"eui": list(e), "nwk": n} for (e, n, _t) in store.children.values()],
              "running": 1 if store.running else 0, "eui": list(store.eui64)}
        s = store.sec_state_args
        sec = {"netKey": [], "netSeq": -1, "preKey": [], "tcEui": [], "flagNetKey": 0, "flagPreKey": 0, "flagTcEui": 0, "flagHashed": 0}
        if s is not None:
            bm = int(s.bitmask)
            sec = {"netKey": list(s.networkKey.serialize()), "netSeq": int(s.networkKeySequenceNumber),
                   "preKey": list(s.preconfiguredKey.serialize()), "tcEui": list(s.preconfiguredTrustCenterEui64.serialize()),
                   "flagNetKey": int(bm & F_NETWORK_KEY == F_NETWORK_KEY), "flagPreKey": int(bm & F_PRECONFIGURED_KEY == F_PRECONFIGURED_KEY),
                   "flagTcEui": int(bm & F_TC_EUI64 == F_TC_EUI64), "flagHashed": int(bm & F_HASHED == F_HASHED)}
        order = list(store.cmd_order)
        r = {"pan": -1, "epan": [], "channel": -1, "mask": "", "updateId": -1, "netKey": [], "netSeq": -1, "netFc": "", "tclk": [],
             "hashedTclk": [], "linkKeys": [], "children": [], "ieee": [], "tcPartner": []}
        if completed:
            t2 = asyncio.ensure_future(app.load_network_info(load_devices=True))
            ok = await apprig.run_until_done(loop, [t2], limit_s=600)
            if not ok or t2.exception() is not None:
                completed, exc = 0, ("hang" if not t2.done() else "load:" + type(t2.exception()).__name__)
            else:
                x = app.state.network_info
                hs = x.stack_specific.get("ezsp", {}).get("hashed_tclk")
                r = {"pan": int(x.pan_id), "epan": list(x.extended_pan_id.serialize()), "channel": int(x.channel), "mask": str(int(x.channel_mask)),
                     "updateId": int(x.nwk_update_id), "netKey": list(x.network_key.key.serialize()), "netSeq": int(x.network_key.seq),
                     "netFc": str(int(x.network_key.tx_counter)), "tclk": list(x.tc_link_key.key.serialize()),
                     "hashedTclk": list(bytes.fromhex(hs)) if hs else [],
                     "linkKeys": [{"key": list(k.key.serialize()), "partner": list(k.partner_ieee.serialize())} for k in x.key_table],
                     "children": [{"eui": list(e.serialize()), "nwk": int(x.nwk_addresses.get(e, 0xFFFF))} for e in x.children],
                     "ieee": list(app.state.node_info.ieee.serialize()), "tcPartner": list(x.tc_link_key.partner_ieee.serialize())}
        second, r2c, st2c = 0, [], []
        if completed and case.get("dropChild") and len(store.children) >= 2:
            del store.children[min(store.children)]          # a hole below occupied slots
            t3 = asyncio.ensure_future(app.load_network_info(load_devices=True))
            ok = await apprig.run_until_done(loop, [t3], limit_s=600)
            if not ok or t3.exception() is not None:
                completed, exc = 0, ("hang" if not t3.done() else "load2:" + type(t3.exception()).__name__)
            else:
                x = app.state.network_info
                second = 1
                r2c = [{"eui": list(e.serialize()), "nwk": int(x.nwk_addresses.get(e, 0xFFFF))} for e in x.children]
                st2c = [{"eui": list(e), "nwk": n} for (e, n, _t) in store.children.values()]
        # two reads that overlap: the second starts after the first has issued `lag` commands; each is recorded when it ends
        overlap, ro = 0, []
        if completed and case.get("overlap") is not None:
            overlap = 1

            def snap(_f):
                x = app.state.network_info
                ro.append({"pan": int(x.pan_id), "epan": list(x.extended_pan_id.serialize()), "channel": int(x.channel), "updateId": int(x.nwk_update_id),
                           "netKey": list(x.network_key.key.serialize()), "netSeq": int(x.network_key.seq), "netFc": str(int(x.network_key.tx_counter)),
                           "tclk": list(x.tc_link_key.key.serialize()), "tcPartner": list(x.tc_link_key.partner_ieee.serialize()),
                           "ieee": list(app.state.node_info.ieee.serialize())})
            base = len(ncp.log)
            ta = asyncio.ensure_future(app.load_network_info(load_devices=False))
            ta.add_done_callback(snap)
            for _ in range(400):
                if len(ncp.log) - base >= case["overlap"] or ta.done():
                    break
                await asyncio.sleep(0)
            tb = asyncio.ensure_future(app.load_network_info(load_devices=False))
            tb.add_done_callback(snap)
            ok = await apprig.run_until_done(loop, [ta, tb], limit_s=600)
            if not ok or ta.exception() is not None or tb.exception() is not None:
                completed, exc = 0, "overlap:" + ("hang" if not ok else type(ta.exception() or tb.exception()).__name__)
                ro.clear()
        # the settings as effectively supplied (write_network_info adjusts addresses it cannot write and fills in a hashed key)
        hs_w = ni.stack_specific.get("ezsp", {}).get("hashed_tclk")
        w = {"pan": case["pan"], "epan": case["epan"], "channel": case["channel"], "mask": str(case["mask"]), "updateId": case["updateId"],
             "netKey": case["netKey"], "netSeq": case["netSeq"], "netFc": str(case["netFc"]), "tclk": case["tclk"],
             "hashedTclk": list(bytes.fromhex(hs_w)) if hs_w else [],
             "tcKnown": int(ni.tc_link_key.partner_ieee != zt.EUI64.UNKNOWN), "tcEui": list(ni.tc_link_key.partner_ieee.serialize()),
             "linkKeys": [{"key": k, "partner": p} for k, p in case["keys"]],
             "children": [{"eui": e, "nwk": n} for e, n, has in case["children"] if has],
             # the node address as SUPPLIED (before write_network_info adjusts anything) and what the NCP is able to take
             "ieeeKnown": int(case["ieee"] != "unknown"), "ieee": list(node_ieee.serialize()), "tcSelf": tc_self,
             "canSet": int((bool(case["rewritable"]) and "getTokenData" in ncp.cmds and "setTokenData" in ncp.cmds)     # token commands exist from version 9 on
                           or (bool(case.get("burn")) and can_burn0))}
        # when the node address is actually written, the trust-centre partner is the one SUPPLIED (write_network_info replaces it by the NCP's own
        # address only when the address could not be written); judged from the case, not from the object write_network_info was free to adjust
        if case["ieee"] == "different" and w["canSet"] and not case.get("twice"):
            w["tcKnown"] = int(case["tc"] != "unknown")
            w["tcEui"] = list(zt.EUI64(tc).serialize())
        return [{"a": "run", "ver": ver, "rewritable": int(case["rewritable"]), "twice": int(bool(case.get("twice"))), "w": w, "sec": sec, "st": st, "r": r, "order": order,
                 "completed": completed, "exc": exc, "second": second, "r2children": r2c, "st2children": st2c,
                 "overlap": overlap, "ro": ro}]
    return vloop.run(main)


def sig(meta, v, tr):
    e = tr[0]
    fam = "v14" if e["ver"] >= 14 else ("v13" if e["ver"] == 13 else "v9to12" if e["ver"] >= 9 else "v5to8" if e["ver"] >= 5 else "v4")
    detail = ""
    if (v.invariant or "").startswith("RoundTrip"):
        bad = [k for k in ("pan", "epan", "channel", "mask", "updateId", "netKey", "netSeq", "tclk") if e["r"].get(k) != e["w"].get(k)]
        if sorted(map(str, e["r"]["linkKeys"])) != sorted(map(str, e["w"]["linkKeys"])):
            bad.append("linkKeys")
        detail = ",".join(bad)
    return f"trace:NetInfo:{v.invariant or 'unexplained'}:{fam}:{detail}:{e.get('exc', '')}"


def run(ctx: Ctx):
    ctx.model_check("NetInfoMC", "MC_NetInfo", invariants=("Satisfiable", "LostKeysCaught", "LateCountersCaught", "StaleAddressCaught"), coverage=False, workers=4)
    rng = ctx.rng
    n = 12 if ctx.quick else 2000
    cases = []
    for ver in range(4, 15):
        for k in range(n):
            c = gen_case(ver, rng)
            if k < len(SYSTEMATIC):          # the address / capability dimensions are covered systematically first
                c.update(dict(zip(("rewritable", "ieee", "tc", "twice", "burn"), SYSTEMATIC[k])))
            cases.append(c)
        # overlapping reads: every lag of the second read behind the first, per version
        for lag in range(0, 16):
            for _ in range(1 if ctx.quick else 4):
                c = gen_case(ver, rng)
                c.update({"overlap": lag, "twice": False, "dropChild": False})
                cases.append(c)
    traces = pmap(run_case, cases, chunksize=4)
    ctx.evaluations = len(traces)
    ctx.distinct_nontrivial = len({str(c) for c in cases})
    ctx.rule = (f"per protocol version 4..14: {n} generated settings (0..4 link keys, 0..4 children some without network address, trust-centre address unknown / "
                "own / other, hashed link key supplied or absent, node address equal to / different from the NCP's / unknown, counters incl. values above 2^31, NCP with or "
                "without a rewritable EUI64 token, permission to burn the write-once address token or not, the backup restored once or twice in a row); each run = "
                "write_network_info (x1 or x2) + load_network_info(load_devices=True) [+ two overlapping load_network_info(load_devices=False), the second "
                "lagging 0..15 commands behind the first]; distinct = distinct case")
    ctx.add_sample(traces[0][0])
    ctx.validate_traces("Trace_NetInfo", traces, invariants=INVS, metas=cases, label="network info", sig=sig)
    # the wire layouts of the structures this procedure exchanges with the NCP, pinned from the EZSP reference (spec/WireLayout.tla)
    from . import wirelayout
    wirelayout.check(ctx, ['EmberNetworkParameters', 'EmberInitialSecurityState', 'EmberCurrentSecurityState', 'EmberKeyStruct', 'SecurityManagerContextV13', 'SecurityManagerNetworkKeyInfo', 'SecurityManagerAPSKeyMetadata', 'EmberChildDataV7'])
    ctx.exhaustive = False
    ctx.assumptions += ["zigpy.util.Requests shim; simulated NCP store (harness/bv/ncp_netinfo.py) answering the restore / read-back commands in every version's result shapes",
                        "from version 5 on only the well-known trust-centre link key round-trips (stated limitation of bellows; the generator uses it there)",
                        "initial-security-bitmask flag values pinned from the EmberZNet headers in the harness"]


def replay(ctx: Ctx, data):
    m = data["replay"]["meta"]
    m["keys"] = [tuple(k) for k in m["keys"]]
    m["children"] = [tuple(c) for c in m["children"]]
    tr = run_case(m)
    ctx.validate_traces("Trace_NetInfo", [tr], invariants=INVS, metas=[m], label="network info", sig=sig)
    ctx.add_sample(tr[0])
