"""C07 - EZSP frame headers and command schemas form a consistent codec in every version.

spec/EzspCodec.tla pins the three header layouts per version and the structural rules (unique frame IDs,
header then arguments in declared order, positional = keyword, received values = encoded values with nothing
left over).  Every command of every version is exercised through the real call path (EZSP._command ->
ProtocolHandler.command -> gateway.send_data) and the real receive path (EZSP.frame_received), with values
generated from the schema types; TLC judges each recorded event (Trace_EzspCodec)."""
from __future__ import annotations

import asyncio
import random

from . import ncp_ezsp, vloop
from .c04 import pmap
from .core import Ctx
from .ezsprig import GwRig


def gen(ty, rng: random.Random, depth=0):
    import zigpy.types as zt
    if isinstance(ty, type) and issubclass(ty, zt.Struct):
        st = ty()
        for f in ty.fields:                      # conditional fields exist only when their condition holds
            if getattr(f, "optional", False) and rng.random() < 0.4:
                break                            # optional (trailing) fields may be absent from a value: "any value tuple" includes those
            if f.requires is None or f.requires(st):
                setattr(st, f.name, gen(f.type, rng, depth + 1))
        return st
    if isinstance(ty, type) and issubclass(ty, int):
        bits, signed = ty._bits, ty._signed
        lo, hi = (-(1 << (bits - 1)), (1 << (bits - 1)) - 1) if signed else (0, (1 << bits) - 1)
        r = rng.random()
        if r < 0.3:
            v = rng.choice((lo, hi, 0, 1 if hi >= 1 else 0, hi - 1 if hi > 1 else hi))
        elif r < 0.5 and hasattr(ty, "__members__") and len(ty.__members__):
            v = int(rng.choice(list(ty.__members__.values())))
        else:
            v = rng.randint(lo, hi)
        return ty(v)
    if isinstance(ty, type) and issubclass(ty, bytes):          # LVBytes / LVBytes32
        n = rng.choice((0, 1, 2, rng.randint(0, 30), rng.randint(0, 30), 120 if depth == 0 else 3))
        return ty(bytes(rng.randrange(256) for _ in range(n)))
    if isinstance(ty, type) and issubclass(ty, zt.FixedList):
        return ty([gen(ty._item_type, rng, depth + 1) for _ in range(ty._length)])
    if isinstance(ty, type) and issubclass(ty, (zt.LVList, zt.List)):
        n = rng.choice((0, 1, 2, rng.randint(0, 5)))
        return ty([gen(ty._item_type, rng, depth + 1) for _ in range(n)])
    raise TypeError(f"no generator for {ty!r}")


def canon(v):
    import zigpy.types as zt
    if isinstance(v, zt.Struct):
        return {"s": {f.name: canon(getattr(v, f.name)) for f in v.fields if getattr(v, f.name) is not None}}
    if isinstance(v, bool):
        return str(int(v))
    if isinstance(v, int):
        return str(int(v))
    if isinstance(v, (bytes, bytearray)):
        return {"b": list(v)}
    if isinstance(v, (list, tuple)):
        return [canon(x) for x in v]
    if v is None:
        return "None"
    return {"repr": repr(v)}


def cstr(v) -> str:
    """canonical text of a value (TLC compares these strings; mixed shapes cannot trip its typed equality)"""
    import json
    return json.dumps(canon(v), sort_keys=True, separators=(",", ":"))


def schema_items(schema):
    """-> list of (name, type) or None if the schema is not a usable description"""
    import zigpy.types as zt
    if isinstance(schema, dict):
        return list(schema.items())
    if isinstance(schema, type) and issubclass(schema, zt.Struct):
        return [("<struct>", schema)]
    return None


def run_version(args):
    ver, samples, seed = args

    async def main(loop):
        import bellows.ezsp
        import bellows.uart
        rng = random.Random(seed * 1000 + ver)
        sent = []

        class Rig:
            def on_sent(self, data, mode):
                sent.append(bytes(data))
        gw = GwRig(Rig())

        async def fake_connect(config, application, use_thread=True):
            return gw
        orig = bellows.uart.connect
        bellows.uart.connect = fake_connect
        try:
            ezsp = bellows.ezsp.EZSP({"path": "/dev/null", "baudrate": 115200, "flow_control": None})
            await ezsp.connect(use_thread=False)
        finally:
            bellows.uart.connect = orig
        ezsp._switch_protocol_version(ver)
        ezsp.start_ezsp()
        proto = ezsp._protocol
        cmds = proto.COMMANDS
        layout = ncp_ezsp.layout_of(ver)
        cbs = []
        ezsp.add_callback(lambda name, args: cbs.append((name, args)))
        events = [{"a": "table", "ver": ver, "tbl": [{"name": n, "id": int(c[0])} for n, c in cmds.items()]}]
        seq = [0]

        async def settle():
            for _ in range(6):
                await asyncio.sleep(0)

        async def start_call(name, args, kwargs):
            """-> (task, bytes handed to the link or None, exception text)"""
            n0 = len(sent)
            try:
                task = asyncio.Task(ezsp._command(name, *args, **kwargs), loop=loop, eager_start=True)
            except Exception as e:  # noqa
                return None, None, type(e).__name__
            await settle()
            if task.done() and not task.cancelled() and task.exception() is not None:
                return task, None, type(task.exception()).__name__
            data = sent[n0] if len(sent) > n0 else None
            return task, data, "" if data is not None else "nothing sent"

        async def drop(task):
            if task is not None and not task.done():
                task.cancel()
            await settle()

        def call_args(tx_schema, txi, vals, keyword):
            """keyword: False = positional; True = keywords in declared order; 'rev' = keywords in reverse order;
            'mixed' = a positional prefix, the remaining arguments as keywords in a shuffled order"""
            if txi is None:
                return [], {}
            if isinstance(tx_schema, dict):
                names, values = [n for (n, _ty) in txi], list(vals)
            else:
                st = vals[0]
                names, values = [f.name for f in st.fields], [getattr(st, f.name) for f in st.fields]
            if not keyword:
                return values, {}
            if keyword == "alt":
                # the same argument values in another Python representation the declared type accepts: a plain int / bytes / list, or an
                # instance of a SUBCLASS of the declared type (e.g. a 4-byte-length byte string where a 1-byte-length one is declared):
                # the frame carries the encoding of the DECLARED type either way
                import bellows.types as bt
                import zigpy.types as zt
                out = []
                for v in values:
                    ty = type(v)
                    subs = [c for c in vars(bt).values() if isinstance(c, type) and c is not ty and issubclass(c, ty)]
                    if isinstance(v, bytes) and not isinstance(v, zt.Struct):
                        out.append(subs[0](bytes(v)) if subs and rng.random() < 0.7 else bytes(v))
                    elif isinstance(v, int) and not isinstance(v, bool):
                        out.append(int(v))
                    elif isinstance(v, (list, tuple)) and not isinstance(v, zt.Struct):
                        out.append(list(v))
                    else:
                        out.append(v)
                return out, {}
            pairs = list(zip(names, values))
            if keyword == "rev":
                return [], dict(reversed(pairs))
            if keyword == "mixed":
                k = rng.randrange(0, max(1, len(pairs) - 1))
                rest = pairs[k:]
                rng.shuffle(rest)
                if len(rest) >= 2 and rest == pairs[k:]:
                    rest.reverse()
                return values[:k], dict(rest)
            return [], dict(pairs)

        async def feed(rv, task, rxi, pending, rseq, cid):
            """encode a generated value tuple, feed it through the receive path, record what came out"""
            vals = [gen(ty, rng) for _n, ty in rxi]
            rv["chunks"] = [list(v.serialize()) for v in vals]
            rv["values"] = [cstr(v) for v in vals]
            rv["seq"] = rseq
            frame = ncp_ezsp.make_header(layout, rseq, int(cid), response=True, callback=not pending) + b"".join(bytes(c) for c in rv["chunks"])
            rv["frame"] = list(frame)
            n_cb = len(cbs)
            try:
                ezsp.frame_received(frame)
            except BaseException as e:  # noqa
                rv["raised"] = "frame_received raised " + type(e).__name__
            await settle()
            got = None
            if pending and task.done() and not task.cancelled() and task.exception() is None:
                rv["deliveries"] += 1
                rv["kind"] = "result"
                got = task.result()
            elif pending and task.done() and not task.cancelled():
                rv["raised"] = rv["raised"] or ("call raised " + type(task.exception()).__name__)
            for (cn, cargs) in cbs[n_cb:]:
                rv["deliveries"] += 1
                rv["kind"] = rv["kind"] or "callback"
                rv["gotname"] = cn
                got = cargs
            if got is not None:
                glist = list(got) if isinstance(got, (list, tuple)) else [got]
                rv["got"] = [cstr(v) for v in glist]
                try:
                    rv["relen"] = sum(len(v.serialize()) for v in glist)
                except Exception:
                    rv["relen"] = -1

        for name, (cid, tx_schema, rx_schema) in cmds.items():
            txi = schema_items(tx_schema)
            rxi = schema_items(rx_schema)
            for _k in range(samples):
                ev = {"a": "tx", "ver": ver, "name": name, "id": int(cid), "seq": proto._seq, "raised": "", "chunks": [], "pos": [], "kw": []}
                vals = []
                if txi is None:
                    ev["raised"] = "schema is not a dict or struct: " + type(tx_schema).__name__
                else:
                    vals = [gen(ty, rng) for _n, ty in txi]
                    ev["chunks"] = [list(v.serialize()) for v in vals]
                rxevs = []
                nargs = (len(txi) if isinstance(tx_schema, dict) else len(vals[0].fields)) if txi is not None and vals else 0
                forms = (False, True) + (("rev", "mixed") if nargs >= 2 else ()) + (("alt",) if nargs >= 1 and isinstance(tx_schema, dict) else ())
                ev["forms"] = []
                for keyword in forms:
                    s0 = proto._seq
                    a, kw = call_args(tx_schema, txi, vals, keyword)
                    task, d, x = await start_call(name, a, kw)
                    if keyword in (False, True):
                        ev["kw" if keyword else "pos"] = list(d or b"")
                    else:
                        ev["forms"].append(list(d or b""))
                    ev["raised"] = ev["raised"] or x
                    # complete the call with a generated response (also the receive-path test for a pending call)
                    rv = {"a": "rx", "ver": ver, "name": name, "id": int(cid), "pending": 1, "raised": "", "fc": 0x80,
                          "chunks": [], "values": [], "frame": [], "deliveries": 0, "kind": "", "gotname": name, "got": [], "relen": 0, "seq": s0}
                    if name == "invalidCommand":
                        # by design the frame named invalidCommand reports an error for the pending call
                        if d is not None:
                            await feed(rv, task, rxi, 1, s0, cid)
                        rv = None
                    elif rxi is None:
                        rv["raised"] = "schema is not a dict or struct: " + type(rx_schema).__name__
                    elif d is None:
                        rv["raised"] = "cannot issue the command: " + x
                    else:
                        await feed(rv, task, rxi, 1, s0, cid)
                    await drop(task)
                    if not keyword and rv is not None:
                        rxevs.append(rv)
                events.append(ev)
                events.extend(rxevs)
                # the same schema as an unsolicited frame (no pending call): goes to the callbacks
                rv = {"a": "rx", "ver": ver, "name": name, "id": int(cid), "pending": 0, "raised": "", "fc": 0x90,
                      "chunks": [], "values": [], "frame": [], "deliveries": 0, "kind": "", "gotname": name, "got": [], "relen": 0, "seq": 0}
                if rxi is None:
                    rv["raised"] = "schema is not a dict or struct: " + type(rx_schema).__name__
                else:
                    await feed(rv, None, rxi, 0, (proto._seq + 100) % 256, cid)
                events.append(rv)
        return events
    return vloop.run(main)


def sig(meta, v, tr):
    e = tr[v.stuck_at - 1] if v.stuck_at and v.stuck_at <= len(tr) else {}
    return f"trace:EzspCodec:{e.get('a')}:{e.get('name', '')}:{(e.get('raised') or '')[:40]}"


def run(ctx: Ctx):
    ctx.model_check("EzspCodecMC", "MC_EzspCodec", constants={"Ids": "{0, 1, 85, 255, 256, 291, 65535}"},
                    invariants=("RoundTrip", "TxShape", "VersionClasses"), coverage=False, workers=4)
    samples = 1 if ctx.quick else 40
    per_version = pmap(run_version, [(v, samples, ctx.seed) for v in range(4, 15)], procs=11, chunksize=1) \
        if not ctx.quick else pmap(_rv, [(v, samples, ctx.seed) for v in range(4, 15)], procs=11, chunksize=1)
    traces, metas = [], []
    nev = 0
    for ver, evs in zip(range(4, 15), per_version):
        nev += len(evs)
        # one event per trace chunk of 40, so that one rejection does not hide the rest of a version
        for i in range(0, len(evs), 40):
            traces.append(evs[i:i + 40])
            metas.append({"ver": ver, "chunk": i // 40})
    ctx.evaluations = nev
    ctx.distinct_nontrivial = len({(e.get("ver"), e.get("name"), e["a"], e.get("pending")) for t in traces for e in t})
    ctx.rule = (f"per protocol version 4..14: the command table (ID uniqueness), and for every command {samples} sample(s) of: a positional and a keyword "
                "call (keywords in declared order, in reverse order, and a positional prefix followed by shuffled keywords) through the real call path, and a generated response value tuple through the receive path once as result of a pending call and once "
                "as callback; values generated from the schema types (boundaries, undefined enum values, empty and long variable-length fields); "
                "distinct = distinct (version, command, direction)")
    ctx.add_sample(next(e for e in traces[3] if e["a"] == "tx"))
    ctx.add_sample(next(e for e in traces[3] if e["a"] == "rx"))
    ctx.validate_traces("Trace_EzspCodec", traces, metas=metas, label="codec", sig=sig)
    ctx.events_validated = nev
    ctx.exhaustive = False
    ctx.assumptions += ["field values are encoded by the field types themselves (the property is the consistency of the codec pair, order, framing and identity); "
                        "TLC compares canonical forms of sent and received values",
                        "header layouts per version pinned in spec/EzspCodec.tla"]


def _rv(a):
    return run_version(a)


def replay(ctx: Ctx, data):
    m = data["replay"]["meta"]
    evs = run_version((m["ver"], 1, data.get("seed", 0)))
    e0 = data["replay"].get("unexplained_event") or {}
    evs = [e for e in evs if e.get("name") == e0.get("name") and e["a"] == e0.get("a")] or evs[:1]
    ctx.validate_traces("Trace_EzspCodec", [evs], metas=[m], label="codec", sig=sig)
    ctx.add_sample(evs[0])
