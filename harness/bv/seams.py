"""Test seams: fake serial transport, recording upper layer.  No repository hooks."""
from __future__ import annotations


class FakeSerialTransport:
    """What zigpy.serial.create_serial_connection would return: write/close/is_closing."""

    def __init__(self):
        self.writes: list[bytes] = []
        self.closed = False
        self.on_write = None
        self.on_close = None

    def write(self, data):
        data = bytes(data)
        self.writes.append(data)
        if self.on_write is not None:
            self.on_write(data)

    def close(self):
        if not self.closed:
            self.closed = True
            if self.on_close is not None:
                self.on_close()

    def is_closing(self):
        return self.closed

    def get_extra_info(self, *a, **k):
        return None


class UpperRecorder:
    """The object AshProtocol calls upward (normally bellows.uart.Gateway)."""

    def __init__(self, log):
        self.log = log

    def connection_made(self, transport):
        self.log(("up_conn",))

    def data_received(self, data):
        self.log(("up_data", bytes(data)))

    def reset_received(self, code):
        self.log(("up_reset", int(code)))

    def error_received(self, code):
        self.log(("up_error", int(code)))

    def connection_lost(self, exc):
        self.log(("up_lost", repr(exc)))

    def eof_received(self):
        self.log(("up_eof",))
