"""C06 - each EZSP command gets its own response; one in flight; keep-alives go first.

spec/EzspCmd.tla is model-checked (EzspCmdMC: concurrent callers of mixed priority, NCP behaviours, link failures,
cancellation, wrapping sequence numbers); the real EZSP + per-version ProtocolHandler run on a fake gateway in
virtual time along enumerated and random scripts; TLC validates every recorded run against Trace_EzspCmd."""
from __future__ import annotations

import itertools

from . import ezsprig
from .c04 import pmap
from .core import Ctx

CLASS_CMDS = ("readCounters", "getNodeId", "sendUnicast")
REACTIONS = ("reply", "tick", "dupreply", "cb", "cancelholder", "cancelqueued", "failnext", "hangnext",
             "sendres_ok", "sendres_fail", "wrongseq", "invalid", "wrongid")
VERSIONS = (4, 5, 6, 7, 8, 9, 10, 11, 12, 13, 14)
INVS = ("OneInFlight", "QueueSorted")


class Driver:
    def __init__(self, rig):
        self.rig = rig
        self.sent = []          # [seq, cmd, c, answered]
        self.done = set()
        self.nc = 0
        self.last_answered = 255

    def absorb(self, ev):
        if ev is None:
            return
        for o in ev["out"]:
            if o["o"] == "sent":
                self.sent.append([o["seq"], o["cmd"], o["c"], 0])
            elif o["o"] == "done":
                self.done.add(o["c"])

    def holder(self):
        for s in reversed(self.sent):
            if s[2] not in self.done:
                return s
        return None

    async def call(self, cmd, modes=()):
        self.nc += 1
        self.absorb(await self.rig.call(self.nc, cmd, modes))

    async def react(self, kind, val=None):
        rig = self.rig
        h = self.holder()
        if kind in ("reply", "failnext", "hangnext"):
            if h is None or h[1] not in rig.cmds:
                return          # nothing to answer, or a frame the NCP cannot make sense of (wrong layout / unknown ID): it stays unanswered
            modes = {"reply": (), "failnext": ("fail",), "hangnext": ("hang",)}[kind]
            h[3] += 1
            self.last_answered = h[0]
            self.absorb(await rig.frame(h[0], h[1], 10 + h[2] % 200 if val is None else val, modes))
        elif kind == "dupreply":
            prev = [s for s in self.sent if s[3] > 0]
            if not prev:
                return
            s = prev[-1]
            self.absorb(await rig.frame(s[0], s[1], 10 + s[2] % 200))
        elif kind == "latereply":
            old = [s for s in self.sent if s[3] == 0 and s[2] in self.done]
            if not old:
                return
            s = old[-1]
            s[3] += 1
            self.absorb(await rig.frame(s[0], s[1], 10 + s[2] % 200))
        elif kind == "wrongseq":
            if h is None:
                return
            tgt = (h[0] + 1) % 256
            self.absorb(await rig.frame(tgt, h[1], 10 + h[2] % 200))
        elif kind == "wrongid":          # a known frame of ANOTHER command under the pending sequence number
            if h is None:
                return
            other = "getNodeId" if h[1] != "getNodeId" else "readCounters"
            self.absorb(await rig.frame(h[0], other, 77))
        elif kind == "invalid":
            if h is None:
                return
            h[3] += 1
            self.absorb(await rig.frame(h[0], "invalidCommand", 0))
        elif kind == "cb":
            self.absorb(await rig.frame(self.last_answered, "stackStatusHandler", 0x90))
        elif kind == "tick":
            self.absorb(await rig.tick())
        elif kind == "cancelholder":
            if h is not None:
                self.absorb(await rig.cancel(h[2]))
        elif kind == "cancelqueued":
            started = {s[2] for s in self.sent}
            q = [c for c in range(1, self.nc + 1) if c not in started and c not in self.done]
            if q:
                self.absorb(await rig.cancel(q[len(q) // 2]))
        elif kind == "sendres_ok":
            self.absorb(await rig.sendres(True))
        elif kind == "sendres_fail":
            self.absorb(await rig.sendres(False))
        else:
            raise ValueError(kind)


def run_job(job):
    version, calls, reactions, extra = job

    async def script(rig):
        d = Driver(rig)
        await d.call("getNodeId")               # blocker: everybody else queues behind it
        for cmd in calls:
            await d.call(cmd)
        for i, r in enumerate(reactions):
            await d.react(r)
            if extra and i == extra[0]:
                await d.call(extra[1])
        # then answer everything still outstanding, in order
        for _ in range(len(calls) + 4):
            if d.holder() is None:
                break
            if rig.gw.pending is not None:
                d.absorb(await rig.sendres(True))
            await d.react("reply")
    return ezsprig.run_script(version, script)


def run_swap(job):
    """composite methods of the version's handler reached through the EZSP object, before and after the handler is replaced (EZSP.reset()):
    every call goes through the handler in force - its slot, its sequence numbers, its registrations"""
    version, pre, post = job

    async def script(rig):
        d = Driver(rig)
        for _ in range(pre):
            await d.call("readCounters:helper")
            await d.react("reply")
        await d.call("nop")
        await d.react("reply")
        d.absorb(await rig.swap())
        d.sent.clear()
        for k in range(post):
            await d.call("readCounters:helper" if k % 2 == 0 else "readAndClearCounters:helper")
            await d.react("reply")
        await d.call("nop")
        await d.react("reply")
    return ezsprig.run_script(version, script)


def run_wrap(job):
    """a call times out; 255 further commands complete, so the next call reuses its sequence number; that call's reply comes late
    but within its own timeout"""
    version, gap_ms, delay_ms = job

    async def script(rig):
        d = Driver(rig)
        await d.call("getNodeId")
        await d.react("tick")                       # the command timeout
        for _ in range(255):
            await d.call("nop")
            await d.react("reply")
        for ev in await rig.advance(gap_ms):
            d.absorb(ev)
        await d.call("getNodeId")                   # same sequence number as the timed-out call
        for ev in await rig.advance(delay_ms):
            d.absorb(ev)
        await d.react("reply")
        await d.call("readCounters")
        await d.react("reply")
    return ezsprig.run_script(version, script)


def run_random(job):
    version, seed, ncmds = job
    import random
    rng = random.Random(seed)

    async def script(rig):
        d = Driver(rig)
        allcmds = ("readCounters", "nop", "getNodeId", "getNodeId", "sendUnicast", "readAndClearCounters", "sendMulticast", "sendBroadcast", "getValue")
        while d.nc < ncmds:
            outstanding = d.nc - len(d.done)
            r = rng.random()
            if outstanding < 3 and r < 0.45:
                await d.call(rng.choice(allcmds), rng.choices(((), ("fail",), ("hang",)), (90, 5, 5))[0])
            elif r < 0.88:
                await d.react(rng.choices(("reply", "dupreply", "latereply", "cb", "wrongseq", "invalid", "failnext", "hangnext",
                                           "sendres_ok", "sendres_fail", "wrongid"), (60, 5, 5, 8, 4, 3, 3, 4, 6, 2, 2))[0])
            elif r < 0.93:
                await d.react("tick")
            else:
                await d.react(rng.choice(("cancelholder", "cancelqueued")))
        for _ in range(10):
            if d.holder() is None:
                break
            if rig.gw.pending is not None:
                d.absorb(await rig.sendres(True))
            await d.react("reply")
    return ezsprig.run_script(version, script)


def sig(meta, v, tr):
    e = tr[v.stuck_at - 1] if v.stuck_at and v.stuck_at <= len(tr) else {}
    outs = ",".join(o["o"] + ":" + str(o.get("res", o.get("cmd", ""))) for o in e.get("out", [])[:3])
    return f"trace:EzspCmd:{v.invariant or 'unexplained'}:{e.get('a')}:{e.get('cmd', '')}:{outs}"


def consts():
    import bellows.ezsp.protocol as p
    return {"SeqM": "256", "CmdTimeout": str(int(p.EZSP_CMD_TIMEOUT * 1000))}


def run(ctx: Ctx):
    c = consts()
    mc = {"SeqM": "4", "CmdTimeout": c["CmdTimeout"], "Cmds": '{"nop", "getNodeId", "sendUnicast"}',
          "NCalls": "3", "MaxCancel": "0" if ctx.quick else "1", "MaxReplies": "1" if ctx.quick else "2"}
    ctx.model_check("EzspCmdMC", "MC_EzspCmd", constants=mc,
                    invariants=("OwnResponse", "OneInFlight", "SeqByOne", "QueueSorted", "NoIdleWithQueue", "SlotHeld", "NoGhost"),
                    required_actions=("DoCall", "DoSendRes", "DoTimeout", "DoReply", "Callback") + (() if ctx.quick else ("DoCancel",)),
                    timeout=3000)
    if ctx.quick:
        mc1 = dict(mc, NCalls="2", MaxCancel="1", MaxReplies="2")
        ctx.model_check("EzspCmdMC", "MC_EzspCmd_2calls_cancel_dup", constants=mc1,
                        invariants=("OwnResponse", "OneInFlight", "SeqByOne", "QueueSorted", "NoIdleWithQueue", "SlotHeld", "NoGhost"),
                        required_actions=("DoCancel",), timeout=3000)
    if not ctx.quick:
        mc2 = dict(mc, NCalls="4", MaxCancel="0", MaxReplies="1", Cmds='{"nop", "sendUnicast"}')
        ctx.model_check("EzspCmdMC", "MC_EzspCmd_4calls", constants=mc2,
                        invariants=("OwnResponse", "OneInFlight", "SeqByOne", "QueueSorted", "NoIdleWithQueue", "SlotHeld", "NoGhost"),
                        timeout=3000)
    jobs, metas = [], []
    R = 2 if ctx.quick else 3
    k = 0
    # every member of each priority class stands for its class in rotation
    MEMBERS = {"readCounters": ("readCounters", "nop", "readAndClearCounters", "getValue"), "getNodeId": ("getNodeId",),
               "sendUnicast": ("sendUnicast", "sendMulticast", "sendBroadcast", "setSourceRoute", "setExtendedTimeout")}
    for calls in itertools.product(CLASS_CMDS, repeat=3):
        for reacts in itertools.product(REACTIONS, repeat=R):
            k += 1
            extra = (0, CLASS_CMDS[k % 3]) if k % 4 == 0 else None
            real = [MEMBERS[c][(k + i) % len(MEMBERS[c])] for i, c in enumerate(calls)]
            jobs.append(("e", (VERSIONS[k % len(VERSIONS)], real, list(reacts), extra)))
    # the order in which queued calls start, for every pair of members of different classes and of the same class
    allm = [m for ms in MEMBERS.values() for m in ms]
    for a in allm:
        for b in allm:
            for third in ("getNodeId", "sendBroadcast", "nop"):
                k += 1
                jobs.append(("e", (VERSIONS[k % len(VERSIONS)], [a, b, third], ["reply", "reply", "reply", "reply"], None)))
    if ctx.quick:
        for calls in (("sendUnicast", "getNodeId", "readCounters"), ("getNodeId", "sendUnicast", "readCounters")):
            for reacts in itertools.product(REACTIONS, repeat=3):
                k += 1
                jobs.append(("e", (VERSIONS[k % len(VERSIONS)], list(calls), list(reacts), None)))
    rng = ctx.rng
    for i in range(16 if ctx.quick else 160):
        jobs.append(("r", (VERSIONS[i % len(VERSIONS)], rng.randrange(1 << 30), 600)))
    # sequence-number reuse after a timed-out call: the later call's reply arrives late, but in time
    tmo = int(c["CmdTimeout"])
    for i, (gap, delay) in enumerate(itertools.product((0, tmo // 2, tmo - 100, tmo + 100), (100, tmo // 2 + 1000, tmo - 100))):
        jobs.append(("w", (VERSIONS[i % len(VERSIONS)], gap, delay)))
    # helpers of the version's handler used before and after the handler is replaced
    for ver in VERSIONS:
        for pre, post in ((1, 2), (0, 1), (3, 3)):
            jobs.append(("s", (ver, pre, post)))
    metas = [{"kind": j[0], "args": j[1]} for j in jobs]
    traces = pmap(_run, jobs, chunksize=16)
    ctx.evaluations = len(traces)
    ctx.distinct_nontrivial = len({str(j) for j in jobs})
    ctx.rule = (f"a blocker call plus every triple of callers from the three priority classes (27) x every sequence of {R} environment reactions "
                "(reply, command timeout, duplicate reply, callback, cancel the holder / a queued caller, link failure or delay of the next send, "
                "misnumbered reply, invalidCommand) on protocol versions 4..14 in rotation; random runs of 600 commands that wrap the sequence "
                "number twice with late/duplicate/misnumbered replies, link failures and cancellations; a timed-out call, 255 further commands, then a call under "
                "the same sequence number whose reply comes late but in time (12 timings); distinct = distinct script")
    ctx.add_sample({"meta": metas[7], "trace": [{k: v for k, v in e.items() if k != "raw"} for e in traces[7]]})
    for t in traces:
        for e in t:
            e.pop("raw", None)
    ctx.validate_traces("Trace_EzspCmd", traces, constants=c, invariants=INVS, metas=metas, label="commands", sig=sig)
    # the same statements end to end: the composed host stack (Stack.tla) against a faulty line and a conforming NCP
    from . import stackx
    stackx.model_check(ctx, "commands")
    stackx.run_traces(ctx, "commands")
    ctx.exhaustive = False
    ctx.assumptions += ["fake gateway (send_data completes, fails or stays pending as scripted); the harness plays a conforming NCP at frame level",
                        "response payloads are encoded with the version's own schema (codec fidelity is C07)",
                        "priority classes of the property: {nop, readCounters, readAndClearCounters, getValue(free buffers): the watchdog's keep-alive} > ordinary > {sendUnicast, sendMulticast, sendBroadcast and the set-up commands of a send: setSourceRoute, setExtendedTimeout}",
                        "a misnumbered reply never names the pending request of the same command; a reply hitting a stale registration may be dropped or handed to the callbacks once"]


def _run(job):
    return run_job(job[1]) if job[0] == "e" else run_wrap(job[1]) if job[0] == "w" else run_swap(job[1]) if job[0] == "s" else run_random(job[1])


def replay(ctx: Ctx, data):
    if data["replay"].get("module") == "Trace_Stack":
        from . import stackx
        return stackx.replay(ctx, data)
    m = data["replay"]["meta"]
    a = m["args"]
    tr = _run((m["kind"], (a[0], a[1], a[2], tuple(a[3]) if len(a) > 3 and a[3] else None) if m["kind"] == "e" else tuple(a)))
    for e in tr:
        e.pop("raw", None)
    ctx.validate_traces("Trace_EzspCmd", [tr], constants=consts(), invariants=INVS, metas=[m], label="commands", sig=sig)
    ctx.add_sample(tr[:15])
