"""C20 - the cross-thread proxy runs calls on the owner's loop and relays results.

spec/ThreadProxy.tla is model-checked (ThreadProxyMC: every method kind from either loop, the owner's loop closing at
any moment).  The real bellows.thread.ThreadsafeProxy and EventLoopThread are exercised with REAL threads: every
method kind x caller loop x owner-loop state x bursts of concurrent calls; each thread writes its own log and TLC
searches for an interleaving of the two logs that the specification allows (Trace_ThreadProxy)."""
from __future__ import annotations

import asyncio
import functools
import threading
import time

from .core import Ctx

KINDS = ("coroVal", "coroRaise", "plainNone", "plainVal", "plainRaise", "notCallable", "plainZero", "plainFalse", "plainEmpty", "plainWraps", "shadowPlain", "shadowCoro", "coroForget")


class Wrapped:
    """the object behind the proxy; its methods record the thread they run on"""
    not_callable = 5

    def __init__(self):
        self.owner_ident = None
        self.log = []          # owner log (written by whichever thread runs the body)
        # instance attributes shadowing class-defined methods of the other kind: what counts is the attribute actually fetched

        def shadow_plain(i):
            self._rec(i)

        async def shadow_coro(i):
            self._rec(i)
            await asyncio.sleep(0)
            return i
        self.shadowPlain = shadow_plain
        self.shadowCoro = shadow_coro

    async def shadowPlain(self, i):       # (class level: a coroutine method; shadowed per instance by a plain function)
        raise AssertionError("class-level shadowPlain must not run")

    def shadowCoro(self, i):              # (class level: a plain method; shadowed per instance by a coroutine function)
        raise AssertionError("class-level shadowCoro must not run")

    def _rec(self, i):
        self.log.append({"a": "exec", "i": i, "thread": "owner" if threading.get_ident() == self.owner_ident else "caller"})

    async def coroVal(self, i):
        self._rec(i)
        await asyncio.sleep(0)
        return i

    async def coroForget(self, i):
        self._rec(i)
        await asyncio.sleep(0)
        return i

    async def coroRaise(self, i):
        self._rec(i)
        await asyncio.sleep(0)
        raise ValueError(i)

    async def coroWait(self, i):
        self._rec(i)
        await asyncio.sleep(30)
        return i

    async def coroSlow(self, i):
        self._rec(i)
        try:
            await asyncio.sleep(30)
            return i
        finally:
            for _ in range(6):              # clean-up that needs several loop iterations while the task is being cancelled
                await asyncio.sleep(0)

    def plainNone(self, i):
        self._rec(i)

    def plainVal(self, i):
        self._rec(i)
        return i

    def plainRaise(self, i):
        self._rec(i)
        raise ValueError(i)

    # values all the same: a plain method called through the proxy "must return nothing"
    def plainZero(self, i):
        self._rec(i)
        return 0

    def plainFalse(self, i):
        self._rec(i)
        return False

    def plainEmpty(self, i):
        self._rec(i)
        return b""

    async def _inner_coro(self, i):
        return i

    def plainWraps(self, i):
        """a plain function carrying the metadata of a coroutine function (functools.wraps): still a plain method - queued, runs on the owner"""
        self._rec(i)
    plainWraps = functools.wraps(_inner_coro)(plainWraps)

    def report(self, loop, context):
        """exception handler of the owner's loop: what the loop reports for a callback it ran (per-thread log, owner side)"""
        exc = context.get("exception")
        if context.get("handle") is None or exc is None:
            return                      # not a callback's exception (e.g. a task destroyed at shutdown)
        self.log.append({"a": "report", "what": "typeerror" if isinstance(exc, TypeError) else "exc"})


def scenario(calls, close_before=False, via_eventloopthread=False, burst=1, hold=False, stopping=False, notstarted=False):
    """calls: list of (kind, src) or (kind, src, look).  look = the loop on which the proxy attribute is looked up
    (default: the calling loop); a bound wrapper fetched on one loop and invoked from the other must behave like a
    call made from the invoking loop.  Returns {'caller': [...], 'owner': [...]}"""
    from bellows.thread import EventLoopThread, ThreadsafeProxy
    obj = Wrapped()
    caller_log = []
    ready = threading.Event()
    go = threading.Event()
    holder = {}

    def owner_main():
        loop = asyncio.new_event_loop()
        asyncio.set_event_loop(loop)
        loop.set_exception_handler(obj.report)     # plain calls that raise (or hand back a value) are reported by the loop, not relayed
        obj.owner_ident = threading.get_ident()
        holder["loop"] = loop
        if notstarted:
            # the owner's loop exists (open, not closed) but starts running only after the calls were made: they are queued and run then
            ready.set()
            go.wait(30)
        else:
            loop.call_soon(ready.set)
        try:
            loop.run_forever()
        finally:
            loop.close()
    caller_loop = asyncio.new_event_loop()
    if via_eventloopthread:
        # the owner's loop and thread are bellows' own EventLoopThread (start / force_stop), as uart.connect(use_thread=True) uses it
        elt = EventLoopThread()
        caller_loop.run_until_complete(elt.start())
        owner_loop = elt.loop

        async def _ident():
            return threading.get_ident()
        obj.owner_ident = asyncio.run_coroutine_threadsafe(_ident(), owner_loop).result(30)
        owner_loop.call_soon_threadsafe(owner_loop.set_exception_handler, obj.report)

        def stop_owner():
            elt.force_stop()

        def join_owner():
            t_end = time.monotonic() + 5
            while not owner_loop.is_closed() and time.monotonic() < t_end:
                caller_loop.run_until_complete(asyncio.sleep(0.005))
    else:
        th = threading.Thread(target=owner_main, daemon=True)
        th.start()
        ready.wait(30)
        owner_loop = holder["loop"]

        def stop_owner():
            owner_loop.call_soon_threadsafe(owner_loop.stop)

        def join_owner():
            th.join(30)
    proxy = ThreadsafeProxy(obj, owner_loop)
    blocked = [0]
    stop_requested = [0]

    def classify(exc):
        return "typeerror" if isinstance(exc, TypeError) else "exc"

    async def one(i, kind, closed_flag, log, pre=None):
        t0 = time.monotonic()
        src = "other" if threading.get_ident() != obj.owner_ident else "owner"
        ev = {"a": "invoke", "i": i, "kind": kind, "src": src,
              "look": src if pre is None else ("owner" if src == "other" else "other"),
              "closed": closed_flag, "ret": "", "execthread": ""}
        n0 = len(obj.log)
        try:
            if kind == "notCallable":
                r = proxy.not_callable
                ev["ret"] = "val"
            else:
                # (arguments by keyword in every other call)
                r = pre(i) if pre is not None else (getattr(proxy, kind)(i=i) if i % 2 else getattr(proxy, kind)(i))
                if asyncio.isfuture(r) or asyncio.iscoroutine(r):
                    ev["ret"] = "pending"
                elif r is None:
                    ev["ret"] = "none"
                else:
                    ev["ret"] = "val"
        except BaseException as e:  # noqa
            r = None
            ev["ret"] = classify(e)
        if ev["src"] == "owner":
            ev["execthread"] = obj.log[n0]["thread"] if len(obj.log) > n0 else ("owner" if kind == "notCallable" or ev["ret"] == "pending" else "")
            if ev["ret"] == "pending":
                ev["execthread"] = "owner"
        if time.monotonic() - t0 > 10.0:
            blocked[0] = 1
        log.append(ev)
        if ev["ret"] == "pending" and kind == "coroForget" and ev["src"] == "other":
            return            # the caller never awaits what the call returned: the call was made all the same
        if ev["ret"] == "pending":
            fin = {"a": "final", "i": i, "ret": "", "val": -1, "stopped": 0}
            try:
                v = await asyncio.wait_for(asyncio.shield(r), 8 if stopping else 30)
                fin["ret"], fin["val"] = "val", int(v)
            except asyncio.TimeoutError:
                fin["ret"] = "hang"
                blocked[0] = 1
            except asyncio.CancelledError:
                fin["ret"] = "cancelled"
                fin["stopped"] = 1 if stop_requested[0] else 0
            except BaseException as e:  # noqa
                fin["ret"] = classify(e)
                fin["val"] = int(e.args[0]) if e.args and isinstance(e.args[0], int) else -1
            log.append(fin)

    async def lookup(kind):
        return getattr(proxy, kind)

    async def from_other():
        # wrappers looked up on the loop that will NOT make the call (fetched while the owner's loop still runs)
        pres = {}
        for k, c in enumerate(calls):
            if len(c) > 2 and c[2] != c[1] and c[0] != "notCallable":
                if c[2] == "owner":
                    pres[k + 1] = await asyncio.wrap_future(asyncio.run_coroutine_threadsafe(lookup(c[0]), owner_loop))
                else:
                    pres[k + 1] = await lookup(c[0])
        if close_before:
            stop_owner()
            if via_eventloopthread:
                t_end = time.monotonic() + 5
                while not owner_loop.is_closed() and time.monotonic() < t_end:
                    await asyncio.sleep(0.005)
            else:
                join_owner()
        idx = 0
        groups = [calls[k:k + burst] for k in range(0, len(calls), burst)]
        for g in groups:
            tasks = []
            for c in g:
                kind, src = c[0], c[1]
                idx += 1
                if src == "other":
                    tasks.append(one(idx, kind, 1 if owner_loop.is_closed() else 0, caller_log, pres.get(idx)))
                else:
                    if close_before:
                        continue
                    # a call made from the owner's own loop
                    fut = asyncio.run_coroutine_threadsafe(one(idx, kind, 0, caller_log, pres.get(idx)), owner_loop)
                    tasks.append(asyncio.wrap_future(fut))
            if tasks and stopping:
                # the calls are in flight on the owner's loop when it is force-stopped: every caller must still get an answer
                futs = [asyncio.ensure_future(t) for t in tasks]
                t_end = time.monotonic() + 5
                while len(obj.log) < len(futs) and time.monotonic() < t_end:
                    await asyncio.sleep(0.002)
                stop_requested[0] = 1
                stop_owner()
                await asyncio.gather(*futs)
            elif tasks and hold and not close_before:
                # the owner's loop is kept busy while the whole burst is issued: every call of the burst is queued behind the blocker
                started, release = threading.Event(), threading.Event()

                def blocker():
                    started.set()
                    release.wait(10)
                owner_loop.call_soon_threadsafe(blocker)
                started.wait(10)
                futs = [asyncio.ensure_future(t) for t in tasks]
                for _ in range(3):
                    await asyncio.sleep(0)
                release.set()
                await asyncio.gather(*futs)
            elif tasks and notstarted:
                futs = [asyncio.ensure_future(t) for t in tasks]
                for _ in range(3):
                    await asyncio.sleep(0)          # every call of the group has been made
                go.set()
                await asyncio.gather(*futs)
            elif tasks:
                await asyncio.gather(*tasks)
        await asyncio.sleep(0.02)
    try:
        caller_loop.run_until_complete(from_other())
        if stopping:
            join_owner()
        elif not close_before:
            # let queued plain calls run, then stop the owner
            done = threading.Event()
            owner_loop.call_soon_threadsafe(lambda: owner_loop.call_later(0.01, done.set))
            done.wait(30)
            stop_owner()
            join_owner()
    finally:
        caller_loop.close()
    caller_log.append({"a": "end", "blocked": blocked[0]})
    return {"caller": caller_log, "owner": list(obj.log)}


def length_of(t):
    return len(t["caller"]) + len(t["owner"])


def run(ctx: Ctx):
    ctx.model_check("ThreadProxyMC", "MC_ThreadProxy", constants={"NCalls": "3"},
                    invariants=("ExecOnOwner", "NeverOnCaller", "RelayedExactly", "PlainReturnsNothing", "ValueReported", "DroppedNeverRuns", "NotCallableRefused"),
                    required_actions=("Invoke", "OwnerStep", "DirectCoroDone", "Close"))
    import logging
    scen = []
    for kind in KINDS:
        for src in ("other", "owner"):
            scen.append(([(kind, src)], False, 1))
        scen.append(([(kind, "other")], True, 1))
        if kind != "notCallable":
            # the bound wrapper is fetched on one loop and invoked from the other
            scen.append(([(kind, "other", "owner")], False, 1))
            scen.append(([(kind, "owner", "other")], False, 1))
            scen.append(([(kind, "other", "owner")], True, 1))
    rng = ctx.rng
    for burst in (10, 100) if not ctx.quick else (10, 40):
        for _ in range(3 if ctx.quick else 10):
            calls = [(rng.choice(KINDS), rng.choice(("other", "other", "owner")), rng.choice(("other", "owner"))) for _ in range(burst)]
            scen.append((calls, False, burst))
        scen.append(([(rng.choice(KINDS), "other") for _ in range(burst)], True, burst))
    reps = 3 if ctx.quick else 80
    traces, metas = [], []
    # bursts issued while the owner's loop is busy (all calls of the burst queued before any runs), failing kinds in every position
    held = []
    for bad in ("plainVal", "plainRaise", "coroRaise", "plainZero", "plainFalse", "plainEmpty"):
        for pos in range(4):
            calls = [("plainNone", "other")] * 4
            calls[pos] = (bad, "other")
            held.append((calls + [("coroVal", "other"), ("plainNone", "other")], False, 6))
    for _ in range(4 if ctx.quick else 30):
        held.append(([(rng.choice(KINDS), rng.choice(("other", "other", "owner")), rng.choice(("other", "owner"))) for _ in range(12)], False, 12))
    for r in range(reps):
        for calls, closed, burst in scen:
            traces.append(scenario(calls, close_before=closed, burst=burst))
            metas.append({"calls": calls, "closed": closed, "burst": burst, "rep": r})
        # bursts of coroutine calls in flight when EventLoopThread.force_stop() is called: quick and slow unwinders in every order
        for pat in (("coroWait", "coroSlow"), ("coroSlow", "coroWait"), ("coroWait", "coroSlow", "coroSlow", "coroWait"), ("coroSlow",) * 3, ("coroWait",) * 3,
                    ("coroSlow", "coroWait", "coroWait", "coroSlow", "coroWait")):
            calls = [(k, "other") for k in pat]
            traces.append(scenario(calls, burst=len(calls), via_eventloopthread=True, stopping=True))
            metas.append({"calls": calls, "closed": False, "burst": len(calls), "rep": r, "elt": True, "stopping": True})
        # the same with bellows' own EventLoopThread as owner (running, and stopped with force_stop so that its loop is closed)
        for calls, closed, burst in scen:
            if (len(calls) > 1 or closed or r == 0) and all(c[1] == "other" or not closed for c in calls):
                traces.append(scenario(calls, close_before=closed, burst=burst, via_eventloopthread=True))
                metas.append({"calls": calls, "closed": closed, "burst": burst, "rep": r, "elt": True})
        # calls made while the owner's loop is open but has not started running yet: queued, executed once it runs
        for kind in KINDS:
            traces.append(scenario([(kind, "other")], notstarted=True))
            metas.append({"calls": [(kind, "other")], "closed": False, "burst": 1, "rep": r, "notstarted": True})
        calls = [(k, "other") for k in KINDS if k not in ("coroWait", "coroSlow")] * 2
        traces.append(scenario(calls, burst=len(calls), notstarted=True))
        metas.append({"calls": calls, "closed": False, "burst": len(calls), "rep": r, "notstarted": True})
        for calls, closed, burst in held:
            traces.append(scenario(calls, close_before=closed, burst=burst, hold=True))
            metas.append({"calls": calls, "closed": closed, "burst": burst, "rep": r, "hold": True})
    ctx.evaluations = len(traces)
    ctx.distinct_nontrivial = len({str((m["calls"], m["closed"], m["burst"])) for m in metas})
    ctx.rule = ("every method kind (coroutine returning / raising, plain returning nothing / a value / raising, non-callable attribute) x caller loop "
                "{owner's own loop, another thread's loop} (also as bursts queued while the owner's loop is busy, with failing kinds in every position) x loop on which the proxy attribute was looked up {same, the other one} x owner-loop state {running, open but not started yet, closed} x owner {a plain thread with its own loop, bellows' EventLoopThread started with start() and closed with force_stop()} as single calls, and bursts of 10 and 40/100 concurrent mixed calls; "
                f"each scenario repeated {reps} times with real threads; distinct = distinct (calls, owner state, burst)")
    ctx.add_sample({"meta": metas[0], "trace": traces[0]})

    def sig(meta, v, tr):
        return f"trace:ThreadProxy:closed={meta['closed']}:burst={meta['burst']}:kinds={','.join(sorted({c[0] for c in meta['calls']}))[:60]}"
    ctx.validate_traces("Trace_ThreadProxy", traces, metas=metas, label="thread proxy", sig=sig, length_of=length_of, dfs=True)
    ctx.exhaustive = False
    ctx.assumptions += ["real OS threads: schedules are sampled, not enumerated; verdicts depend only on per-thread order (TLC searches for an explaining interleaving)",
                        "thread identity is recorded inside the wrapped methods; 'blocked' = a call took more than 10 s of wall time to return or a coroutine caller waited more than 30 s",
                        "a stopped-but-not-closed owner loop is outside the property (nothing is promised for it)"]


def replay(ctx: Ctx, data):
    m = data["replay"]["meta"]
    tr = scenario([tuple(c) for c in m["calls"]], close_before=m["closed"], burst=m["burst"], hold=bool(m.get("hold")),
                  via_eventloopthread=bool(m.get("elt")), stopping=bool(m.get("stopping")), notstarted=bool(m.get("notstarted")))
    ctx.validate_traces("Trace_ThreadProxy", [tr], metas=[m], label="thread proxy", length_of=length_of, dfs=True)
    ctx.add_sample(tr)
