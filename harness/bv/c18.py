"""C18 - status normalisation is total and reports success only for success.

spec/StatusMap.tla is the (relational) reference with numeric codes pinned from the EmberZNet headers;
TLC checks it is total and allows OK only for success, then judges the real
sl_Status.from_ember_status on every value of both 8-bit families, every defined unified status and
undefined 32-bit samples."""
from __future__ import annotations

from .core import Ctx


def evaluate(fam, code):
    import bellows.types as t
    cls = {"ember": t.EmberStatus, "ezsp": t.EzspStatus, "unified": t.sl_Status}[fam]
    ev = {"fam": fam, "code": code, "raised": 0, "res": -1, "typ": "none"}
    try:
        r = t.sl_Status.from_ember_status(cls(code))
        ev["res"] = int(r)
        ev["typ"] = "unified" if isinstance(r, t.sl_Status) else type(r).__name__
    except Exception as e:  # noqa
        ev["raised"] = 1
        ev["exc"] = type(e).__name__
    return ev


def domain(rng):
    import bellows.types as t
    dom = [("ember", c) for c in range(256)] + [("ezsp", c) for c in range(256)]
    uni = sorted({int(s) for s in t.sl_Status})
    samples = sorted({rng.randrange(1, 2 ** 31 - 1) for _ in range(64)} | {2 ** 31 - 1, 0x7F000000, 0xFFFF, 0x10000})
    dom += [("unified", c) for c in uni if c < 2 ** 31] + [("unified", c) for c in samples]
    return dom, uni, samples


def sig(meta, v, tr):
    e = tr[v.stuck_at - 1] if v.stuck_at and v.stuck_at <= len(tr) else {}
    return f"trace:StatusMap:{e.get('fam')}:{e.get('code')}"


def run(ctx: Ctx):
    dom, uni, samples = domain(ctx.rng)
    us = "{" + ", ".join(str(c) for c in sorted(set(uni + samples)) if c < 2 ** 31) + "}"
    ctx.model_check("StatusMapMC", "MC_StatusMap", constants={"UnifiedSamples": us},
                    invariants=("Total", "OkOnlyForSuccess", "PassThrough"), coverage=False, workers=4)
    # the conversion is a pure function: the whole domain is swept several times in ONE process, in different orders (family order
    # reversed, codes descending, shuffled), so that an answer that depends on what was converted before is exposed
    orders = [list(dom), list(reversed(dom)), sorted(dom, key=lambda x: (x[1], x[0])), sorted(dom, key=lambda x: (-x[1], x[0] != "ezsp"))]
    shuffled = list(dom)
    ctx.rng.shuffle(shuffled)
    orders.append(shuffled)
    evs = [evaluate(f, c) for order in orders for f, c in order]
    traces = [evs[i:i + 64] for i in range(0, len(evs), 64)]
    ctx.evaluations = len(evs)
    ctx.distinct_nontrivial = len(dom)
    ctx.rule = ("all 256 values of the legacy stack status family, all 256 of the serial-protocol status family, every defined unified "
                "status and 68 undefined 32-bit samples (< 2^31, TLC integers); each (family, code) is a distinct case; the domain is swept five times in "
                "one process in different orders (history independence)")
    ctx.exhaustive = True
    ctx.add_sample(evs[0x93])
    ctx.add_sample(evs[256 + 0x35])
    ctx.validate_traces("Trace_StatusMap", traces, metas=[{"chunk": i} for i in range(len(traces))], label="status", sig=sig)
    ctx.events_validated = len(evs)
    ctx.assumptions += ["numeric status codes pinned from the EmberZNet headers in spec/StatusMap.tla",
                        "undefined unified samples are below 2^31 (TLC integers are 32 bit)"]


def replay(ctx: Ctx, data):
    tr = data["replay"]["trace"]
    e = tr[(data["replay"].get("stuck_at") or 1) - 1]
    ev = evaluate(e["fam"], e["code"])
    ctx.validate_traces("Trace_StatusMap", [[ev]], metas=[{"chunk": 0}], label="status", sig=sig)
    ctx.add_sample(ev)
