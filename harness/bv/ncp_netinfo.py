"""Network-information store of the simulated EZSP NCP (C14): keys, security state, counters, link-key table,
child table, network parameters, tokens - and the EZSP commands of the restore / read-back sequences in the
argument and result shapes of every protocol version 4..14.  Installed as handlers on ncp_ezsp.NcpEzsp."""
from __future__ import annotations

FF8 = b"\xff" * 8
Z8 = b"\x00" * 8
Z16 = b"\x00" * 16


class NetStore:
    def __init__(self, ncp, key_table_size=6, rewritable_eui=True, eui64=bytes(range(0x10, 0x18))):
        self.ncp = ncp
        self.t = ncp.t
        self.ver = ncp.version
        self.rewritable = rewritable_eui
        self.factory_eui = bytes(eui64)
        self.custom_eui = None
        self.mfg_custom_eui = FF8
        self.active_eui = bytes(eui64)   # the address the stack runs with: tokens are read when the NCP (re)starts
        # persistent (NV) network state
        self.stored = False          # a network is stored (formed and not left)
        self.running = False         # the stack is up (after form / networkInit)
        self.params = None
        # an NCP that has been used before: counters (and a key) of its previous network are still in its tokens
        self.netkey, self.netseq, self.netfc = bytes(range(0x60, 0x70)), 9, 0x00ABCDEF
        self.apsfc = 0x00012345
        self.prekey, self.tc_eui, self.init_bitmask = Z16, Z8, 0
        self.keys = [None] * key_table_size          # (key bytes, partner bytes)
        self.children = {}                           # index -> (eui bytes, nwk, type)
        self.sec_state_args = None
        self.cmd_order = []
        self.tc_token = "ok"          # NV3 trust-centre token interface: "ok" | "bad" (error status) | "absent" (no special handling)
        self.tc_token_write = "ok"
        self.tc_token_pending = None  # address written to the token: the stack runs with it after its next reset
        self.install()

    # ---- helpers
    @property
    def eui64(self):
        return self.active_eui

    def token_eui(self):
        """address selected by the tokens: NV3 restored EUI64, else the MFG custom EUI64, else the factory one"""
        if self.custom_eui is not None:
            return self.custom_eui
        if self.mfg_custom_eui != FF8:
            return self.mfg_custom_eui
        return self.factory_eui

    def st(self, name, ok, bad="ERR_FATAL"):
        """status value of the right family for command `name` (first result field)"""
        rx = self.ncp.cmds[name][2]
        ty = (list(rx.values())[0] if isinstance(rx, dict) else None)
        t = self.t
        if ty is t.sl_Status:
            return t.sl_Status.OK if ok else {"NOT_JOINED": t.sl_Status.NOT_JOINED, "INDEX_OUT_OF_RANGE": t.sl_Status.INVALID_INDEX,
                                              "TABLE_ENTRY_ERASED": t.sl_Status.NOT_FOUND}.get(bad, t.sl_Status.FAIL)
        return t.EmberStatus.SUCCESS if ok else t.EmberStatus[bad]

    def note(self, name):
        self.cmd_order.append(name)

    def install(self):
        h = self.ncp.handlers
        for name in ("clearKeyTable", "tokenFactoryReset", "getTokenData", "setTokenData", "getMfgToken", "setMfgToken", "getEui64", "networkState",
                     "networkInit", "networkInitExtended", "setInitialSecurityState", "addOrUpdateKeyTableEntry", "importLinkKey",
                     "setChildData", "formNetwork", "leaveNetwork", "getNetworkParameters", "getNodeId", "getKey", "exportKey",
                     "getNetworkKeyInfo", "getCurrentSecurityState", "getKeyTableEntry", "exportLinkKeyByIndex", "getChildData",
                     "getAddressTableRemoteNodeId", "getAddressTableRemoteEui64", "getAddressTableInfo"):
            if name in self.ncp.cmds:
                h[name] = (lambda n, a, _f=getattr(self, "c_" + name): _f(a))
        self._orig_setValue = self.ncp.cmd_setValue
        h["setValue"] = lambda n, a: self.c_setValue(a)
        t = self.t
        self.ncp.config[int(t.EzspConfigId.CONFIG_SECURITY_LEVEL)] = 5
        self.ncp.config[int(t.EzspConfigId.CONFIG_KEY_TABLE_SIZE)] = len(self.keys)
        self.ncp.config[int(t.EzspConfigId.CONFIG_ADDRESS_TABLE_SIZE)] = 3

    def on_reset(self):
        self.running = False
        self.active_eui = self.token_eui()
        if self.tc_token_pending is not None:
            self.tc_eui, self.tc_token_pending = self.tc_token_pending, None

    def status_event(self, up):
        t = self.t
        rx = self.ncp.cmds["stackStatusHandler"][2]
        ty = list(rx.values())[0]
        v = (t.sl_Status.NETWORK_UP if up else t.sl_Status.NETWORK_DOWN) if ty is t.sl_Status else \
            (t.EmberStatus.NETWORK_UP if up else t.EmberStatus.NETWORK_DOWN)
        self.ncp.loop.call_soon(lambda: self.ncp.callback("stackStatusHandler", [v]))

    # ---- commands
    def c_clearKeyTable(self, a):
        self.note("clearKeyTable")
        self.keys = [None] * len(self.keys)
        return [self.st("clearKeyTable", True)]

    def c_tokenFactoryReset(self, a):
        self.note("tokenFactoryReset")
        self.stored = self.running = False
        self.netfc = self.apsfc = 0
        self.children = {}
        return []

    def c_getTokenData(self, a):
        t = self.t
        rsp = self.ncp.cmds["getTokenData"][2]
        sty = rsp.fields[0].type                       # EmberStatus up to version 13, sl_Status in version 14
        always_value = rsp.fields[1].requires is None  # version 14 always carries the value field
        tok = int(a["token"])
        if tok == int(t.NV3KeyId.NVM3KEY_STACK_TRUST_CENTER) and self.tc_token == "ok" and self.stored:
            val = t.NV3StackTrustCenterToken(mode=0x0001, eui64=t.EUI64(self.tc_eui), key=t.KeyData(self.prekey)).serialize()
            return [rsp(status=sty(0), value=t.LVBytes32(val))]
        if self.rewritable and tok == int(t.NV3KeyId.CREATOR_STACK_RESTORED_EUI64):
            return [rsp(status=sty(0), value=t.LVBytes32(self.custom_eui if self.custom_eui is not None else FF8))]
        bad = t.sl_Status.NOT_FOUND if sty is t.sl_Status else t.EmberStatus.ERR_FATAL
        return [rsp(status=bad, value=t.LVBytes32(b""))] if always_value else [rsp(status=bad)]

    def c_setTokenData(self, a):
        self.note("setTokenData")
        data = bytes(a["token_data"])
        if int(a["token"]) == int(self.t.NV3KeyId.NVM3KEY_STACK_TRUST_CENTER):
            if self.tc_token_write == "bad":
                return [self.st("setTokenData", False)]
            tok, _ = self.t.NV3StackTrustCenterToken.deserialize(data)
            self.tc_token_pending = bytes(tok.eui64.serialize())
            return [self.st("setTokenData", True)]
        self.custom_eui = None if data == FF8 else data
        return [self.st("setTokenData", True)]

    def c_getMfgToken(self, a):
        t = self.t
        tid = int(a["tokenId"])
        if tid == int(t.EzspMfgTokenId.MFG_CUSTOM_EUI_64):
            return [self.mfg_custom_eui]
        if tid == int(t.EzspMfgTokenId.MFG_STRING):
            return [b"SimVendor\xff\xff\xff"]
        if tid == int(t.EzspMfgTokenId.MFG_BOARD_NAME):
            return [b"simboard\x00\xff"]
        return [b""]

    def c_setMfgToken(self, a):
        self.note("setMfgToken")
        self.mfg_custom_eui = bytes(a["tokenData"])
        return [self.st("setMfgToken", True)]

    def c_getEui64(self, a):
        return [self.t.EUI64(self.eui64)]

    def c_networkState(self, a):
        t = self.t
        return [t.EmberNetworkStatus.JOINED_NETWORK if self.running else t.EmberNetworkStatus.NO_NETWORK]

    def c_networkInit(self, a):
        self.note("networkInit")
        name = "networkInit" if "networkInit" in self.ncp.cmds else "networkInitExtended"
        if not self.stored:
            return [self.st(name, False, "NOT_JOINED")]
        self.running = True
        self.status_event(True)
        return [self.st(name, True)]

    c_networkInitExtended = c_networkInit

    def c_setValue(self, a):
        t = self.t
        vid = int(a["valueId"])
        if vid in (int(t.EzspValueId.VALUE_NWK_FRAME_COUNTER), int(t.EzspValueId.VALUE_APS_FRAME_COUNTER)):
            self.note("setValue:" + t.EzspValueId(vid).name)
            if self.running:
                return [t.EzspStatus.ERROR_INVALID_CALL]
            v = int.from_bytes(bytes(a["value"]), "little")
            if vid == int(t.EzspValueId.VALUE_NWK_FRAME_COUNTER):
                self.netfc = v
            else:
                self.apsfc = v
            return [t.EzspStatus.SUCCESS]
        return self._orig_setValue(a)

    def c_setInitialSecurityState(self, a):
        self.note("setInitialSecurityState")
        s = a["state"]
        self.sec_state_args = s
        self.init_bitmask = int(s.bitmask)
        self.prekey = bytes(s.preconfiguredKey.serialize())
        self.netkey = bytes(s.networkKey.serialize())
        self.netseq = int(s.networkKeySequenceNumber)
        self.tc_eui = bytes(s.preconfiguredTrustCenterEui64.serialize())
        return [self.st("setInitialSecurityState", True)]

    def c_addOrUpdateKeyTableEntry(self, a):
        self.note("addOrUpdateKeyTableEntry")
        partner = bytes(a["address"].serialize())
        key = bytes(a["keyData"].serialize())
        for i, e in enumerate(self.keys):
            if e is not None and e[1] == partner:
                self.keys[i] = (key, partner)
                return [self.st("addOrUpdateKeyTableEntry", True)]
        for i, e in enumerate(self.keys):
            if e is None:
                self.keys[i] = (key, partner)
                return [self.st("addOrUpdateKeyTableEntry", True)]
        return [self.st("addOrUpdateKeyTableEntry", False, "TABLE_FULL")]

    def c_importLinkKey(self, a):
        self.note("importLinkKey")
        i = int(a["index"])
        if not 0 <= i < len(self.keys):
            return [self.t.sl_Status.INVALID_INDEX]
        self.keys[i] = (bytes(a["key"].serialize()), bytes(a["address"].serialize()))
        return [self.t.sl_Status.OK]

    def c_setChildData(self, a):
        self.note("setChildData")
        cd = a["child_data"]
        self.children[int(a["index"])] = (bytes(cd.eui64.serialize()), int(cd.id), int(cd.type))
        return [self.st("setChildData", True)]

    def c_formNetwork(self, a):
        self.note("formNetwork")
        if self.running:
            return [self.st("formNetwork", False, "INVALID_CALL")]
        self.params = a["parameters"]
        self.stored = self.running = True
        self.status_event(True)
        return [self.st("formNetwork", True)]

    def c_leaveNetwork(self, a):
        self.note("leaveNetwork")
        if not self.running:
            return [self.st("leaveNetwork", False, "INVALID_CALL")]
        self.stored = self.running = False
        self.status_event(False)
        return [self.st("leaveNetwork", True)]

    def c_getNetworkParameters(self, a):
        t = self.t
        if not self.running:
            return [self.st("getNetworkParameters", False, "NOT_JOINED"), t.EmberNodeType.UNKNOWN_DEVICE, t.EmberNetworkParameters(
                extendedPanId=t.ExtendedPanId(Z8), panId=0, radioTxPower=0, radioChannel=0, joinMethod=t.EmberJoinMethod(0),
                nwkManagerId=0, nwkUpdateId=0, channels=t.Channels(0))]
        return [self.st("getNetworkParameters", True), t.EmberNodeType.COORDINATOR, self.params]

    def c_getNodeId(self, a):
        return [0x0000]

    def _keystruct(self, key, ktype, partner=None, outfc=None, seq=None):
        t = self.t
        bm = t.EmberKeyStructBitmask(0)
        if outfc is not None:
            bm |= t.EmberKeyStructBitmask.KEY_HAS_OUTGOING_FRAME_COUNTER
        if seq is not None:
            bm |= t.EmberKeyStructBitmask.KEY_HAS_SEQUENCE_NUMBER
        if partner is not None:
            bm |= t.EmberKeyStructBitmask.KEY_HAS_PARTNER_EUI64
        return t.EmberKeyStruct(bitmask=bm, type=ktype, key=t.KeyData(key), outgoingFrameCounter=outfc or 0, incomingFrameCounter=0,
                                sequenceNumber=seq or 0, partnerEUI64=t.EUI64(partner or Z8))

    def c_getKey(self, a):
        t = self.t
        kt = int(a["keyType"])
        if kt == int(t.EmberKeyType.CURRENT_NETWORK_KEY):
            return [t.EmberStatus.SUCCESS, self._keystruct(self.netkey, t.EmberKeyType.CURRENT_NETWORK_KEY, outfc=self.netfc, seq=self.netseq)]
        if kt == int(t.EmberKeyType.TRUST_CENTER_LINK_KEY):
            return [t.EmberStatus.SUCCESS, self._keystruct(self.prekey, t.EmberKeyType.TRUST_CENTER_LINK_KEY, outfc=self.apsfc, partner=FF8)]
        return [t.EmberStatus.ERR_FATAL, self._keystruct(Z16, t.EmberKeyType(kt))]

    def c_exportKey(self, a):
        t = self.t
        ctx = a["context"]
        kt = int(ctx.core_key_type)
        # the security-manager context selects the key as in EmberZNet: network key index 0 = current key, 1 = alternate key (none set);
        # only network 0 exists; a derived key type or a flag asks for something else than the stored key
        plain = (int(ctx.multi_network_index) == 0 and int(ctx.derived_type) == 0 and int(ctx.flags) == 0)
        if kt == int(t.SecurityManagerKeyType.NETWORK):
            key = self.netkey if (plain and int(ctx.key_index) == 0) else Z16
        elif kt == int(t.SecurityManagerKeyType.TC_LINK):
            key = self.prekey if plain else Z16
        else:
            key = Z16
        rx = self.ncp.cmds["exportKey"][2]
        if list(rx.keys())[0] == "status":
            return [t.sl_Status.OK, t.KeyData(key), ctx]
        return [t.KeyData(key), t.sl_Status.OK]

    def c_getNetworkKeyInfo(self, a):
        t = self.t
        return [t.sl_Status.OK, t.SecurityManagerNetworkKeyInfo(network_key_set=self.stored, alternate_network_key_set=False,
                                                                network_key_sequence_number=self.netseq, alt_network_key_sequence_number=0,
                                                                network_key_frame_counter=self.netfc)]

    def c_getCurrentSecurityState(self, a):
        t = self.t
        bm = t.EmberCurrentSecurityBitmask(0)
        hashed = int(t.EmberInitialSecurityBitmask.TRUST_CENTER_USES_HASHED_LINK_KEY)
        if self.init_bitmask & hashed == hashed:
            bm |= t.EmberCurrentSecurityBitmask.TRUST_CENTER_USES_HASHED_LINK_KEY
        bm |= t.EmberCurrentSecurityBitmask.HAVE_TRUST_CENTER_LINK_KEY | t.EmberCurrentSecurityBitmask.GLOBAL_LINK_KEY
        return [self.st("getCurrentSecurityState", True),
                t.EmberCurrentSecurityState(bitmask=bm, trustCenterLongAddress=t.EUI64(self.tc_eui))]

    def c_getKeyTableEntry(self, a):
        t = self.t
        i = int(a["index"])
        if not 0 <= i < len(self.keys):
            return [t.EmberStatus.INDEX_OUT_OF_RANGE, self._keystruct(Z16, t.EmberKeyType.APPLICATION_LINK_KEY)]
        e = self.keys[i]
        if e is None:
            return [t.EmberStatus.TABLE_ENTRY_ERASED, self._keystruct(Z16, t.EmberKeyType.APPLICATION_LINK_KEY)]
        return [t.EmberStatus.SUCCESS, self._keystruct(e[0], t.EmberKeyType.APPLICATION_LINK_KEY, partner=e[1], outfc=0)]

    def c_exportLinkKeyByIndex(self, a):
        t = self.t
        i = int(a["index"])
        e = self.keys[i] if 0 <= i < len(self.keys) else None
        meta = t.SecurityManagerAPSKeyMetadata(bitmask=t.EmberKeyStructBitmask.KEY_HAS_PARTNER_EUI64, outgoing_frame_counter=0,
                                               incoming_frame_counter=0, ttl_in_seconds=0)
        ok = t.sl_Status.OK if e is not None else t.sl_Status.NOT_FOUND
        key = t.KeyData(e[0] if e else Z16)
        eui = t.EUI64(e[1] if e else Z8)
        rx = self.ncp.cmds["exportLinkKeyByIndex"][2]
        if list(rx.keys())[0] == "status":          # v14: status, context, plaintext_key, key_data
            ctx = t.SecurityManagerContextV13(core_key_type=t.SecurityManagerKeyType.APP_LINK, key_index=i,
                                              derived_type=t.SecurityManagerDerivedKeyTypeV13.NONE, eui64=eui, multi_network_index=0,
                                              flags=t.SecurityManagerContextFlags.EUI_IS_VALID, psa_key_alg_permission=0)
            return [ok, ctx, key, meta]
        return [eui, key, meta, ok]

    def c_getChildData(self, a):
        t = self.t
        i = int(a["index"])
        rx = self.ncp.cmds["getChildData"][2]
        e = self.children.get(i)
        ok = self.st("getChildData", e is not None, "NOT_JOINED")
        eui, nwk, typ = e if e else (Z8, 0xFFFF, 0)
        if len(rx) == 4:            # v4..v6
            return [ok, nwk, t.EUI64(eui), t.EmberNodeType(typ)]
        cls = list(rx.values())[1]
        kw = dict(eui64=t.EUI64(eui), type=t.EmberNodeType(typ), id=nwk, phy=0, power=0, timeout=0)
        if "timeout_remaining" in [f.name for f in cls.fields]:
            kw["timeout_remaining"] = 0
        return [ok, cls(**kw)]

    def c_getAddressTableRemoteNodeId(self, a):
        return [0xFFFF]

    def c_getAddressTableRemoteEui64(self, a):
        return [self.t.EUI64(FF8)]

    def c_getAddressTableInfo(self, a):
        return [self.t.sl_Status.NOT_FOUND, 0xFFFF, self.t.EUI64(FF8)]
