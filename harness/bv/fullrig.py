"""Full-stack rig for Trace_Stack: the real bellows.ezsp.EZSP -> real bellows.uart.connect/_connect -> real Gateway ->
real AshProtocol on a fake serial transport.  The peer is the simulated conforming ASH NCP (linkrig.NcpSim) carrying
the simulated EZSP NCP (ncp_ezsp.NcpEzsp); the line between them is two FIFO queues that only the driving script
moves (deliver / drop / corrupt / duplicate per frame), so every read from the port is one input of the trace.

Recorded per input (after the loop has run until nothing is runnable at that instant): bytes written to the port
(decoded by ashref and the harness's own EZSP header parser), outcomes of command calls / version() / reset(),
frames handed to the callbacks, controller-reset requests."""
from __future__ import annotations

import asyncio
import zlib
from collections import deque

from . import ashref, ncp_ezsp, vloop
from .linkrig import NcpSim
from .seams import FakeSerialTransport

SOFTWARE_RESET = 0x0B


def vhash(data: bytes) -> int:
    return zlib.crc32(bytes(data)) & 0xFFFFF


class FullRig:
    def __init__(self, loop, version, win=1, path="/dev/ttyFAKE0"):
        self.loop = loop
        self.version = version
        self.path = path
        self.out: list[dict] = []
        self.trace: list[dict] = []
        self.h2n: deque = deque()         # decoded frames written by the host (with raw payload bytes)
        self.n2h: deque = deque()         # frames the NCP wants to send: dict with payload key into self.payloads
        self.ash = NcpSim(win)
        self.ncp = ncp_ezsp.NcpEzsp(version, loop, deliver=self._ncp_ezsp_send, negotiated=False)
        # the layout the NCP frames each response / callback in is noted when it encodes it (a legacy frame whose ID byte
        # happens to look like an extended frame-control byte cannot be told apart by its bytes alone)
        self._enc_fmt = None
        _orig_encode = self.ncp.encode

        self._fmt_of_bytes: dict[bytes, str] = {}

        def _encode(fmt, *a, **k):
            data = _orig_encode(fmt, *a, **k)
            self._fmt_of_bytes[bytes(data)] = fmt        # a callback may be handed over later than it was encoded
            return data
        self.ncp.encode = _encode
        self.payload_fmt: dict[int, str] = {}
        self.payloads: dict[int, bytes] = {}
        self.npl = 1000
        self.tasks: dict[str, asyncio.Task] = {}
        self.lost = False
        self.tr = None
        self.protocol = None
        self.cmd_by_id = {}
        self.rst_reply = SOFTWARE_RESET

    # ------------------------------------------------------------------ construction
    async def connect(self):
        import bellows.ezsp
        import zigpy.serial
        rig = self

        async def fake_create(loop, protocol_factory, url=None, baudrate=None, xonxoff=None, rtscts=None, **kw):
            protocol = protocol_factory()
            tr = FakeSerialTransport()
            tr.on_write = rig._on_write
            tr.on_close = lambda: loop.call_soon(rig._closed)
            rig.tr = tr
            rig.protocol = protocol
            protocol.connection_made(tr)
            return tr, protocol
        orig = zigpy.serial.create_serial_connection
        zigpy.serial.create_serial_connection = fake_create
        try:
            self.ezsp = bellows.ezsp.EZSP({"path": self.path, "baudrate": 115200, "flow_control": None})
            # every frame handed to the callbacks passes through EZSP.handle_callback: observe it on the instance
            orig_hc = self.ezsp.handle_callback

            def handle_callback(*args):
                self._on_callback(*args)
                return orig_hc(*args)
            self.ezsp.handle_callback = handle_callback
            await self.ezsp.connect(use_thread=False)
        finally:
            zigpy.serial.create_serial_connection = orig
        for v in (4, version_tables(self.version)):
            cmds = ncp_ezsp.commands_of(v)
            self.cmd_by_id[ncp_ezsp.layout_of(v)] = {cid: n for n, (cid, _a, _b) in cmds.items()}
        return self.ezsp

    # ------------------------------------------------------------------ observation
    def _on_callback(self, name, args):
        if name == "_reset_controller_application":
            self.out.append({"o": "request"})
            return
        try:
            data = b"".join(a.serialize() for a in args)
            val = int(args[0]) if name == "version" else vhash(data)
        except Exception:
            val = -1
        self.out.append({"o": "cb", "cmd": name, "val": val})

    def _classify_host_payload(self, data: bytes):
        """EZSP header of a frame the host sends, by the harness's own three-layout parser"""
        data = bytes(data)
        for lay in ("legacy5", "ext", "legacy3"):
            h = ncp_ezsp.parse_header(lay, data)
            if h is None:
                continue
            if lay == "ext" and not (len(data) >= 5 and data[2] == 0x01):
                continue
            if lay == "legacy3" and len(data) >= 5 and (data[2] == 0xFF or (data[2] == 0x01 and self.version >= 8 and len(data) != 4)):
                continue
            names = self.cmd_by_id.get(lay) or {}
            return {"seq": h[0], "cmd": names.get(h[1], f"id{h[1]}"), "lay": lay}
        return {"seq": -1, "cmd": "<misframed>", "lay": "none"}

    def _on_write(self, data: bytes):
        for f in ashref.decode_write(data):
            if f["type"] == "RST" and f.get("cancel"):
                self.out.append({"o": "rst"})
                self.h2n.append({"type": "RST"})
                continue
            g = {k: v for k, v in f.items() if k not in ("cancel", "residue")}
            if g["type"] == "DATA":
                raw = bytes(g["pl"])
                g["pl"] = self._classify_host_payload(raw)
                self.h2n.append(dict(g, raw=raw))
            else:
                self.h2n.append(dict(g))
            self.out.append({"o": "write", "f": g})

    def _closed(self):
        if not self.lost:
            self.lost = True
            if self.protocol is not None:
                try:
                    self.protocol.connection_lost(None)
                except BaseException as e:  # noqa
                    self.out.append({"o": "raised", "exc": type(e).__name__})

    # ------------------------------------------------------------------ loop control
    async def settle(self):
        for _ in range(500):
            await asyncio.sleep(0)
            if not self.loop._ready:
                return
        raise RuntimeError("loop does not become idle")

    def next_timer(self):
        ws = [h._when for h in self.loop._scheduled if not h._cancelled]
        return min(ws) if ws else None

    def _event(self, ev):
        ev["out"] = self.out
        ev["t"] = self.loop.ms
        self.out = []
        self.trace.append(ev)
        return ev

    # ------------------------------------------------------------------ NCP side
    def _ncp_ezsp_send(self, data: bytes):
        """the NCP's EZSP layer hands a response / callback to its ASH layer"""
        key = self.npl = self.npl + 1
        self.payloads[key] = bytes(data)
        self.payload_fmt[key] = self._fmt_of_bytes.get(bytes(data))
        self._ncp_outs(self.ash.submit(key))

    def _ncp_outs(self, outs):
        for o in outs:
            if o["o"] == "write":
                self.n2h.append(o["f"])
            elif o["o"] == "up_data":
                self.ncp.receive(self.payloads[o["pl"]])

    def _token_of_ncp_payload(self, data: bytes, lay: str):
        """EZSP header of a frame the NCP sends, in the layout the NCP framed it with"""
        h = ncp_ezsp.parse_header(lay, data)
        names = self.cmd_by_id.get(lay) or {}
        name = names.get(h[1], f"id{h[1]}")
        val = h[2][0] if name == "version" and h[2] else vhash(h[2])
        return {"seq": h[0], "cmd": name, "val": val}

    async def toncp(self, fault="deliver"):
        """the head of the host->NCP queue reaches the NCP (not an event of the host trace)"""
        if not self.h2n:
            return False
        f = self.h2n[0]
        if fault != "dup":
            self.h2n.popleft()
        if fault == "drop":
            return True
        if f["type"] == "RST":
            self.ash = NcpSim(self.ash.W)
            self.ncp.on_reset()
            self.n2h.clear()
            if self.rst_reply is not None:
                self.n2h.append({"type": "RSTACK", "ver": 2, "code": self.rst_reply})
            return True
        if fault == "corrupt":
            g = {"type": "GARBAGE"}
        else:
            g = {k: v for k, v in f.items() if k != "raw"}
            if g["type"] == "DATA":
                key = self.npl = self.npl + 1
                self.payloads[key] = f["raw"]
                g["pl"] = key
        self._ncp_outs(self.ash.recv(g))
        await self.settle()              # the NCP's EZSP layer answers in its own callback
        return True

    def ntick(self):
        if not self.ash.win:
            return False
        self._ncp_outs(self.ash.timer())
        return True

    def ncp_callback(self, name, values):
        self.ncp.callback(name, values)

    def ncp_frame(self, f):
        """an ASH control frame from the NCP (ERROR, unsolicited RSTACK) joins the queue"""
        self.n2h.append(dict(f))

    # ------------------------------------------------------------------ inputs of the host trace
    def _feed(self, raw):
        if self.lost or self.protocol is None or (self.tr is not None and self.tr.closed):
            return
        try:
            self.protocol.data_received(raw)
        except BaseException as e:  # noqa
            self.out.append({"o": "raised", "exc": type(e).__name__})

    async def tohost(self, fault="deliver", count=1):
        """`count` frames from the head of the NCP->host queue are read by the host, each as its own loop callback
        queued back to back (count > 1: they are all runnable in the same loop iteration)"""
        fs = []
        if self.lost or (self.tr is not None and self.tr.closed):
            self.n2h.clear()             # a closed port delivers nothing more
            return False
        for _ in range(count):
            if not self.n2h:
                break
            f = self.n2h[0]
            if fault != "dup":
                self.n2h.popleft()
            if fault == "drop":
                return True
            g = dict(f)
            tok = dict(f)
            if g["type"] == "DATA":
                data = self.payloads[f["pl"]]
                g["pl"] = list(data)
                tok["pl"] = self._token_of_ncp_payload(data, self.payload_fmt.get(f["pl"]) or self.ncp.native)
            raw = bytearray(ashref.wire(g))
            if fault == "corrupt":
                k = len(raw) // 2 - (1 if len(raw) > 3 else 0)
                raw[k] ^= 0x04
                if raw[k] in ashref.RESERVED:
                    raw[0] ^= 0x01
                tok = {"type": "GARBAGE"}
            fs.append(tok)
            self.loop.call_soon(self._feed, bytes(raw))
        if not fs:
            return False
        await self.settle()
        self._event({"a": "recv", "fs": fs, "fault": fault})
        return True

    async def timer(self):
        when = self.next_timer()
        if when is None:
            return False
        self.loop._vnow = max(self.loop._vnow, when)
        await self.settle()
        self._event({"a": "timer"})
        return True

    def _res(self, e):
        import bellows.ash as ash
        from bellows.exception import EzspError, InvalidCommandError
        if isinstance(e, asyncio.CancelledError):
            return "cancelled"
        if isinstance(e, asyncio.TimeoutError):
            return "timeout"
        if isinstance(e, InvalidCommandError):
            return "invalid"
        if isinstance(e, EzspError):
            return "notrunning"
        if isinstance(e, (ash.NcpFailure, ash.NotAcked)):
            return "linkfail"
        if isinstance(e, RuntimeError) and "closed" in str(e):
            return "linkfail"
        return "exc:" + type(e).__name__

    async def call(self, c, cmd, args=(), kwargs=None):
        async def run():
            try:
                r = await getattr(self.ezsp, cmd)(*args, **(kwargs or {}))
                rl = list(r) if isinstance(r, (list, tuple)) else [r]
                try:
                    val = vhash(b"".join(x.serialize() for x in rl))
                except Exception:
                    val = -1
                self.out.append({"o": "cdone", "c": c, "res": "ok", "val": val})
            except BaseException as e:  # noqa
                res = self._res(e)
                if res != "cancelled" or True:
                    self.out.append({"o": "cdone", "c": c, "res": res, "val": 0})
        self.tasks[f"c{c}"] = asyncio.Task(run(), loop=self.loop, eager_start=True)
        await self.settle()
        self._event({"a": "call", "c": c, "cmd": cmd})

    async def do_version(self, c):
        async def run():
            try:
                await self.ezsp.version()
                self.out.append({"o": "vdone", "c": c, "res": "ok", "val": int(self.ezsp.ezsp_version)})
            except BaseException as e:  # noqa
                self.out.append({"o": "vdone", "c": c, "res": self._res(e), "val": 0})
        self.tasks[f"v{c}"] = asyncio.Task(run(), loop=self.loop, eager_start=True)
        await self.settle()
        self._event({"a": "version", "c": c})

    async def reset(self, k):
        async def run():
            try:
                await self.ezsp.reset()
                res = "ok"
            except BaseException as e:  # noqa
                res = self._res(e)
                if isinstance(e, (ConnectionError, OSError)) and not isinstance(e, asyncio.TimeoutError):
                    res = "connerr"
            self.out.append({"o": "edone", "k": k, "res": res})
        self.tasks[f"r{k}"] = asyncio.Task(run(), loop=self.loop, eager_start=True)
        await self.settle()
        self._event({"a": "reset", "k": k})

    async def cancel(self, c):
        t = self.tasks.get(f"c{c}")
        if t is None or t.done():
            return False
        t.cancel()
        await self.settle()
        self._event({"a": "cancel", "c": c})
        return True

    async def register(self):
        self.ezsp.add_callback(lambda *a: None)
        self._event({"a": "register"})

    async def lose(self, how="exc"):
        def do():
            self.lost = True
            try:
                if how == "eof":
                    keep = self.protocol.eof_received()
                    if not keep:
                        self.loop.call_soon(self.protocol.connection_lost, None)
                else:
                    self.protocol.connection_lost(ConnectionResetError("gone"))
            except BaseException as e:  # noqa
                self.out.append({"o": "raised", "exc": type(e).__name__})
        self.loop.call_soon(do)
        await self.settle()
        self._event({"a": "lost", "how": how})

    async def close(self):
        self.ezsp.close()
        await self.settle()
        self._event({"a": "close"})

    def busy(self):
        return bool(self.h2n or self.n2h or any(not t.done() for t in self.tasks.values()))

    async def drain(self, limit=600):
        """fault-free service until everything has ended"""
        for _ in range(limit):
            if self.h2n:
                await self.toncp()
            elif self.n2h and not self.lost and not (self.tr is not None and self.tr.closed):
                await self.tohost()
            elif any(not t.done() for t in self.tasks.values()) and self.next_timer() is not None:
                await self.timer()
            elif self.ash.win and not self.lost and not (self.tr is not None and self.tr.closed):
                self.ntick()
            else:
                break
        await self.settle()
        pending = sorted(k for k, t in self.tasks.items() if not t.done())
        self._event({"a": "end", "pending": pending})


def version_tables(v):
    return max(4, min(v, 14))


def run(script, version, win=1):
    async def main(loop):
        rig = FullRig(loop, version, win)
        await rig.connect()
        await script(rig)
        if not rig.trace or rig.trace[-1]["a"] != "end":
            await rig.drain()
        return rig.trace
    return vloop.run(main)
