"""C08 - malformed or unexpected EZSP frames are contained.

For every protocol version, with and without a pending command, the real EZSP.frame_received is fed frames
obtained from valid responses and callbacks by truncation at every length, byte flips at every position,
frame-ID and sequence substitution, and random byte strings.  After each frame a probe command is issued and
answered.  TLC validates each run against Trace_EzspCmd: the `mal` event allows a frame to do nothing, drop a
registration, reach the callbacks only if it carries a known ID and its payload starts with the encoding of
the values handed over, and complete the pending call only under that call's own sequence number and frame ID;
nothing may raise; the probe must complete (EzspCmd.tla)."""
from __future__ import annotations

import random

from . import ezsprig, ncp_ezsp
from .c04 import pmap
from .c06 import consts, INVS
from .core import Ctx

VERSIONS = tuple(range(4, 15))


def base_frames(rig, rng):
    """valid response / callback frames of the version to mutate: (name, values)"""
    t = rig.t
    out = []
    for name in ("getNodeId", "readCounters", "stackStatusHandler", "nop", "getEui64", "incomingMessageHandler",
                 "messageSentHandler", "trustCenterJoinHandler", "getNetworkParameters", "sendUnicast", "getValue", "invalidCommand"):
        if name not in rig.cmds:
            continue
        rx = rig.cmds[name][2]
        if not isinstance(rx, dict):
            continue
        from .c07 import gen
        out.append((name, [gen(ty, rng) for ty in rx.values()]))
    return out


def run_version(args):
    ver, n_random, seed, quick = args
    rng = random.Random(seed * 7919 + ver)
    traces, metas = [], []

    async def one(rig, pend_cmd, raw, label, swap=False):
        """[pending call] ; malformed frame ; answer the pending call if it is still there ; probe"""
        t = rig.t
        c = 1
        pend = None
        stale = None
        if pend_cmd and pend_cmd.startswith("stale-"):
            # a registration left behind by a call that timed out / whose caller was cancelled: frames carrying its number arrive late
            stale, pend_cmd = pend_cmd.split(":")[0], pend_cmd.split(":")[1]
        if pend_cmd:
            ev = await rig.call(c, pend_cmd)
            pend = next((o for o in ev["out"] if o["o"] == "sent"), None)
            if stale == "stale-timeout":
                await rig.tick()
            elif stale == "stale-cancel":
                await rig.cancel(c)
        if swap:
            # the protocol handler is replaced while the call is still waiting (EZSP.reset() -> legacy handler): whatever arrives
            # afterwards must not complete the orphaned call - frame IDs mean other commands in the other version
            await rig.swap()
        n_cb = len(rig.out)
        rig._last_cb_args = None
        ev = await rig.frame(0, "", 0, raw=bytes(raw), kind="mal")
        ev["ver"] = rig.version
        ev["ids"] = sorted(int(cid) for cid, _a, _b in rig.cmds.values())
        ev["icid"] = int(rig.cmds["invalidCommand"][0])
        ev["pid"] = int(rig.cmds[pend_cmd][0]) if pend_cmd and not swap else -1
        cbs = [o for o in ev["out"] if o["o"] == "cb"]
        ev["cbid"] = int(rig.cmds[cbs[0]["cmd"]][0]) if cbs and cbs[0]["cmd"] in rig.cmds else -1
        ev["reenc"] = list(rig.last_cb_reenc) if cbs else []
        ev["nvals"] = rig.last_cb_n if cbs else 0
        ev["nfields"] = len(rig.cmds[cbs[0]["cmd"]][2]) if cbs and cbs[0]["cmd"] in rig.cmds and isinstance(rig.cmds[cbs[0]["cmd"]][2], dict) else 0
        ev["raw"] = list(raw)
        done = {o["c"] for e in rig.trace for o in e["out"] if o["o"] == "done"}
        if swap:
            await rig.tick()               # the orphaned call ends with its own command timeout
        elif pend is not None and c not in done:
            # the registration may have been dropped by the frame: then this reply goes to the callbacks and the call times out
            await rig.frame(pend["seq"], pend_cmd, 21)
        await rig.call(2, "getNodeId")
        sent2 = [o for e in rig.trace for o in e["out"] if o["o"] == "sent" and o["c"] == 2]
        if not sent2:                      # still queued behind the first call: let that one time out
            await rig.tick()
            sent2 = [o for e in rig.trace for o in e["out"] if o["o"] == "sent" and o["c"] == 2]
        if sent2:
            await rig.frame(sent2[-1]["seq"], "getNodeId", 22)

    def job(pend_cmd, raw, label, swap=False):
        async def script(rig):
            rig.last_cb_reenc = b""
            orig = rig._cb

            def cb(name, args):
                rig.last_cb_n = len(args) if isinstance(args, (list, tuple)) else 1
                try:
                    rig.last_cb_reenc = b"".join(a.serialize() for a in args)
                except BaseException:
                    rig.last_cb_reenc = b"\xff" * 300
                orig(name, args)
            rig.ezsp._callbacks = {k: (cb if v == orig else v) for k, v in rig.ezsp._callbacks.items()}
            await one(rig, pend_cmd, raw, label, swap)
        tr = ezsprig.run_script(ver, script)
        for e in tr:
            if e["a"] != "mal":
                e.pop("raw", None)
        traces.append(tr)
        metas.append({"ver": ver, "pend": pend_cmd, "raw": bytes(raw).hex(), "label": label, "swap": swap})

    # a throw-away rig to build base frames
    async def build(rig):
        rig.base = []
        helper = rig.helper
        for name, vals in base_frames(rig, rng):
            for seq in (0, 5):
                rig.base.append((name, helper.encode(rig.layout, seq, name, vals)))
    holder = {}

    async def build_script(rig):
        await build(rig)
        holder["base"] = rig.base
        holder["cmds"] = rig.cmds
    ezsprig.run_script(ver, build_script)
    base = holder["base"]
    for name, fr in base:
        muts = []
        for n in range(len(fr)):                                   # truncation at every length
            muts.append((fr[:n], "trunc"))
        step = 1 if (len(fr) <= 16 or not quick) else max(1, len(fr) // 12)
        for i in range(0, len(fr), step):                          # a byte flip at every position
            b = bytearray(fr)
            b[i] ^= rng.choice((0x01, 0x80, 0xFF, 0x10))
            muts.append((bytes(b), "flip"))
        hl = 3 if ver <= 4 else 5
        for idv in (0x00, 0x58, 0x19, 0xFE, 0x45):                 # frame-ID substitution
            b = bytearray(fr)
            if ver <= 4:
                b[2] = idv
            elif ver <= 7:
                b[4] = idv
            else:
                b[3] = idv
                b[4] = 0 if idv != 0xFE else 0x7F
            muts.append((bytes(b), "idsub"))
        for sv in (0, 1, 0xFF):                                    # sequence substitution
            b = bytearray(fr)
            b[0] = sv
            muts.append((bytes(b), "seqsub"))
        muts.append((fr, "valid"))
        muts.append((fr + b"\x00\x01", "surplus"))
        for raw, label in muts:
            for pend_cmd in (None, "getNodeId") if not quick or rng.random() < 0.5 else ((None,) if rng.random() < 0.5 else ("getNodeId",)):
                job(pend_cmd, raw, label + ":" + name)
            if label in ("valid", "surplus", "idsub", "seqsub") or not quick or rng.random() < 0.15:
                job(rng.choice(("stale-timeout:getNodeId", "stale-cancel:getNodeId")) if quick else "stale-timeout:getNodeId", raw, label + ":" + name)
                if not quick:
                    job("stale-cancel:getNodeId", raw, label + ":" + name)
    # a fully valid frame of ANOTHER command under the pending command's sequence number
    from .c07 import gen
    cmds = holder["cmds"]
    # `version` owns frame ID 0 in every protocol version (and is what is pending during every negotiation)
    pend_cmds = [c for c in ("version", "getNodeId", "setPolicy", "getConfigurationValue", "setConfigurationValue", "sendUnicast", "nop", "getEui64",
                             "networkState", "setValue") if c in cmds and isinstance(cmds[c][1], dict)]
    names = [n for n in cmds if isinstance(cmds[n][2], dict)]
    k = 0
    for pend_cmd in pend_cmds:
        for name in names:
            k += 1
            if name == pend_cmd or (quick and (k + ver) % 4 and pend_cmd != "version"):
                continue
            vals = [gen(ty, rng) for ty in cmds[name][2].values()]
            payload = b"".join(v.serialize() for v in vals)
            raw = ncp_ezsp.make_header(ncp_ezsp.layout_of(ver), 0, int(cmds[name][0]), response=True) + payload
            job(pend_cmd, raw, "foreign:" + name)
    # the late genuine reply, the same reply twice, and invalidCommand under the number of a call that timed out / was cancelled
    for st in ("stale-timeout", "stale-cancel"):
        for pc in [c for c in ("getNodeId", "nop", "getEui64", "networkState") if c in cmds]:
            for name in (pc, "invalidCommand"):
                vals = [gen(ty, rng) for ty in cmds[name][2].values()]
                raw = ncp_ezsp.make_header(ncp_ezsp.layout_of(ver), 0, int(cmds[name][0]), response=True) + b"".join(v.serialize() for v in vals)
                job(f"{st}:{pc}", raw, "late:" + name)
    # a handler swap (reset -> legacy handler) with a call still waiting, then legacy frames under the orphan's sequence number: above all
    # the version-4 command that owns the same numeric frame ID as the orphaned command
    cmds4 = ncp_ezsp.commands_of(4)
    by_id4 = {int(c[0]): n for n, c in cmds4.items()}
    for pc in [c for c in ("getNodeId", "setSourceRouteDiscoveryMode", "nop", "getEui64", "setPolicy", "getValue", "networkState", "sendUnicast",
                           "setConfigurationValue", "getTokenData", "setConcentrator") if c in cmds and isinstance(cmds[c][1], dict)]:
        same = by_id4.get(int(cmds[pc][0]))
        for name4 in {n for n in (same, "getNodeId", "stackStatusHandler", "invalidCommand", "nop") if n is not None and isinstance(cmds4[n][2], dict)}:
            for sq in (0, 1):
                vals = [gen(ty, rng) for ty in cmds4[name4][2].values()]
                raw = ncp_ezsp.make_header("legacy3", sq, int(cmds4[name4][0]), response=True) + b"".join(v.serialize() for v in vals)
                job(pc, raw, "swap:" + name4, swap=True)
    for _ in range(n_random):                                      # uniformly random byte strings
        raw = bytes(rng.randrange(256) for _ in range(rng.choice((0, 1, 2, 3, 4, 5, 6, 8, 12, 30))))
        job(rng.choice((None, "getNodeId", "sendUnicast", "readCounters")), raw, "random")
    return traces, metas


def sig(meta, v, tr):
    e = tr[v.stuck_at - 1] if v.stuck_at and v.stuck_at <= len(tr) else {}
    outs = ",".join(o["o"] + ":" + str(o.get("res", o.get("cmd", ""))) for o in e.get("out", [])[:3])
    return f"trace:EzspMal:{v.invariant or 'unexplained'}:{e.get('a')}:{meta['label'].split(':')[0]}:pend={meta['pend']}:{outs}:raised={e.get('raised')}"


def run(ctx: Ctx):
    nrand = 120 if ctx.quick else 3000
    res = pmap(_rv, [(v, nrand, ctx.seed, ctx.quick) for v in VERSIONS], procs=11, chunksize=1)
    traces = [t for tr, _m in res for t in tr]
    metas = [m for _tr, ms in res for m in ms]
    ctx.evaluations = len(traces)
    ctx.distinct_nontrivial = len({(m["ver"], m["pend"], m["raw"]) for m in metas})
    ctx.rule = ("per protocol version 4..14: valid responses and callbacks of up to 12 commands (two sequence numbers each) mutated by truncation at "
                "every length, a byte flip at every position, frame-ID and sequence substitution, surplus bytes, plus uniformly random byte strings; "
                "each with and without a pending command and with the registration of a timed-out / cancelled call still present (late genuine replies included), each followed by the pending call's real reply and a probe command; distinct = distinct (version, pending, bytes)")
    ctx.add_sample({"meta": metas[11], "trace": traces[11]})
    ctx.validate_traces("Trace_EzspCmd", traces, constants=consts(), invariants=INVS, metas=metas, label="malformed frames", sig=sig)
    ctx.exhaustive = False
    ctx.assumptions += ["a frame 'decodes fully' if its payload starts with the encoding of the values handed to the callbacks (surplus bytes are tolerated, "
                        "as real firmware appends fields); the re-encoding uses the schema types' own serialisers",
                        "the pending call itself may time out after a known frame with a foreign ID dropped its registration (the property only requires later commands to work)"]


def _rv(a):
    return run_version(a)


def replay(ctx: Ctx, data):
    m = data["replay"]["meta"]
    # regenerate exactly this case
    ver = m["ver"]
    raw = bytes.fromhex(m["raw"])
    holder = {}

    async def script(rig):
        rig.last_cb_reenc = b""
        orig = rig._cb

        def cb(name, args):
            rig.last_cb_n = len(args) if isinstance(args, (list, tuple)) else 1
            try:
                rig.last_cb_reenc = b"".join(a.serialize() for a in args)
            except BaseException:
                rig.last_cb_reenc = b"\xff" * 300
            orig(name, args)
        rig.ezsp._callbacks = {k: (cb if v == orig else v) for k, v in rig.ezsp._callbacks.items()}
        pend_cmd = m["pend"]
        pend = None
        stale = None
        if pend_cmd and pend_cmd.startswith("stale-"):
            stale, pend_cmd = pend_cmd.split(":")[0], pend_cmd.split(":")[1]
        if pend_cmd:
            ev = await rig.call(1, pend_cmd)
            pend = next((o for o in ev["out"] if o["o"] == "sent"), None)
            if stale == "stale-timeout":
                await rig.tick()
            elif stale == "stale-cancel":
                await rig.cancel(1)
        swap = bool(m.get("swap"))
        if swap:
            await rig.swap()
        ev = await rig.frame(0, "", 0, raw=raw, kind="mal")
        ev["ver"] = rig.version
        ev["ids"] = sorted(int(cid) for cid, _a, _b in rig.cmds.values())
        ev["icid"] = int(rig.cmds["invalidCommand"][0])
        ev["pid"] = int(rig.cmds[pend_cmd][0]) if pend_cmd and not swap else -1
        cbs = [o for o in ev["out"] if o["o"] == "cb"]
        ev["cbid"] = int(rig.cmds[cbs[0]["cmd"]][0]) if cbs and cbs[0]["cmd"] in rig.cmds else -1
        ev["reenc"] = list(rig.last_cb_reenc) if cbs else []
        ev["nvals"] = rig.last_cb_n if cbs else 0
        ev["nfields"] = len(rig.cmds[cbs[0]["cmd"]][2]) if cbs and cbs[0]["cmd"] in rig.cmds and isinstance(rig.cmds[cbs[0]["cmd"]][2], dict) else 0
        ev["raw"] = list(raw)
        if swap:
            await rig.tick()
    tr = ezsprig.run_script(ver, script)
    for e in tr:
        if e["a"] != "mal":
            e.pop("raw", None)
    ctx.validate_traces("Trace_EzspCmd", [tr], constants=consts(), invariants=INVS, metas=[m], label="malformed frames", sig=sig)
    ctx.add_sample(tr)
