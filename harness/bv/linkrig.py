"""C01 rig: the real AshProtocol  <->  faulty FIFO line  <->  simulated conforming NCP (AshNcp.tla).

NcpSim is a line-by-line transcription of the step functions of spec/AshNcp.tla; every step it takes
is logged and validated against that specification by Trace_AshLink, so the peer is checked against
the same text as the host."""
from __future__ import annotations

from collections import deque

from . import ashref, vloop
from .hostrig import HostRig, clean, ncp_payload


def ack(n):
    return {"type": "ACK", "res": 0, "nrdy": 0, "ack": n}


def nak(n):
    return {"type": "NAK", "res": 0, "nrdy": 0, "ack": n}


class NcpSim:
    def __init__(self, win: int):
        self.W = win
        self.tx = 0
        self.rx = 0
        self.win: list[dict] = []
        self.q: list[int] = []
        self.rej = False

    def _slide(self, a):
        w = self.win
        while w:
            if any(x["num"] == a for x in w):
                if w[0]["num"] == a:
                    return
                w.pop(0)
                continue
            if (w[-1]["num"] + 1) % 8 == a:
                w.clear()
            return

    def _fill(self, out):
        while self.q and len(self.win) < self.W:
            pl = self.q.pop(0)
            self.win.append({"num": self.tx, "pl": pl})
            out.append({"o": "write", "f": {"type": "DATA", "frm": self.tx, "retx": 0, "ack": self.rx, "pl": pl}})
            self.tx = (self.tx + 1) % 8
        return out

    def _retx(self):
        return [{"o": "write", "f": {"type": "DATA", "frm": x["num"], "retx": 1, "ack": self.rx, "pl": x["pl"]}}
                for x in self.win]

    def submit(self, pl):
        self.q.append(pl)
        return self._fill([])

    def recv(self, f):
        ty = f["type"]
        if ty == "GARBAGE":
            if self.rej:
                return []
            self.rej = True
            return [{"o": "write", "f": nak(self.rx)}]
        if ty == "DATA":
            self._slide(f["ack"])
            if f["frm"] == self.rx:
                self.rx = (self.rx + 1) % 8
                self.rej = False
                return self._fill([{"o": "write", "f": ack(self.rx)}, {"o": "up_data", "pl": f["pl"]}])
            if f["retx"] == 1:
                return self._fill([{"o": "write", "f": ack(self.rx)}])
            if self.rej:
                return self._fill([])
            self.rej = True
            return self._fill([{"o": "write", "f": nak(self.rx)}])
        if ty == "ACK":
            self._slide(f["ack"])
            return self._fill([])
        if ty == "NAK":
            self._slide(f["ack"])
            r = self._retx()
            return r + self._fill([])
        return []

    def timer(self):
        return self._retx()


class LinkRig:
    """events are appended to self.trace in the format of Trace_AshLink"""

    def __init__(self, loop, win):
        self.loop = loop
        self.host = HostRig(loop)
        self.ncp = NcpSim(win)
        self.h2n: deque = deque()    # frame records written by the host (cleaned)
        self.n2h: deque = deque()
        self.trace: list[dict] = []
        self.nid = 0
        self.npl = 100
        self.held_h = None           # stalled copy of a duplicated frame on its way to the host / to the NCP
        self.held_n = None
        self.age_h = self.age_n = 0  # frames that overtook the copy

    def _host_event(self, hev, ev):
        # hev: event recorded by HostRig (out, t); move host writes to the line
        out = hev["out"]
        for o in out:
            if o["o"] == "write":
                self.h2n.append(o["f"])
        ev["out"] = out
        ev["t"] = hev["t"]
        self.trace.append(ev)

    def _ncp_event(self, out, ev):
        for o in out:
            if o["o"] == "write":
                self.n2h.append(o["f"])
        ev["out"] = out
        ev["t"] = self.loop.ms
        self.trace.append(ev)

    async def hsubmit(self):
        self.nid += 1
        hev = await self.host.submit(self.nid)
        self._host_event(hev, {"a": "hsubmit", "id": self.nid})

    def nsubmit(self):
        self.npl += 1
        self._ncp_event(self.ncp.submit(self.npl), {"a": "nsubmit", "pl": self.npl})

    HOLD_SPAN = 2

    async def _deliver_raw_to_host(self, f, fault, late, ev):
        g = dict(f)
        if g["type"] == "DATA":
            g["pl"] = list(ncp_payload(f["pl"]))
        raw = bytearray(ashref.wire(g))
        if fault == "corrupt":
            raw[len(raw) // 2 - (1 if len(raw) > 3 else 0)] ^= 0x04     # real corruption: the host's own CRC check rejects it
            if raw[len(raw) // 2 - (1 if len(raw) > 3 else 0)] in ashref.RESERVED:
                raw[0] ^= 0x01
        late = bool(late and self.host.next_timer() is not None)
        hev = await self.host.recv([], late=late, raw=bytes(raw))
        ev["late"] = 1 if late else 0
        self._host_event(hev, ev)

    async def hrelease(self):
        if self.held_h is None:
            return False
        f, self.held_h, self.age_h = self.held_h, None, 0
        await self._deliver_raw_to_host(f, "deliver", False, {"a": "hrelease"})
        return True

    def nrelease(self):
        if self.held_n is None:
            return False
        f, self.held_n, self.age_n = self.held_n, None, 0
        self._ncp_event(self.ncp.recv(f), {"a": "nrelease"})
        return True

    async def tohost(self, fault, late=False):
        if not self.n2h:
            return False
        if self.held_h is not None and self.age_h >= self.HOLD_SPAN:
            await self.hrelease()            # a stalled copy is overtaken by at most HOLD_SPAN frames
        if fault == "hold" and self.held_h is not None:
            fault = "deliver"
        f = self.n2h[0]
        if fault != "dup":
            self.n2h.popleft()
        if self.held_h is not None and fault != "dup":
            self.age_h += 1
        if fault == "drop":
            self.trace.append({"a": "tohost", "fault": "drop", "late": 0, "out": [], "t": self.loop.ms})
            return True
        if fault == "hold":
            self.held_h, self.age_h = dict(f), 0
        await self._deliver_raw_to_host(f, fault, late, {"a": "tohost", "fault": fault})
        return True

    def toncp(self, fault):
        if not self.h2n:
            return False
        if self.held_n is not None and self.age_n >= self.HOLD_SPAN:
            self.nrelease()
        if fault == "hold" and self.held_n is not None:
            fault = "deliver"
        f = self.h2n[0]
        if fault != "dup":
            self.h2n.popleft()
        if self.held_n is not None and fault != "dup":
            self.age_n += 1
        if fault == "hold":
            self.held_n, self.age_n = dict(f), 0
        if fault == "drop":
            self.trace.append({"a": "toncp", "fault": "drop", "out": [], "t": self.loop.ms})
            return True
        out = self.ncp.recv({"type": "GARBAGE"} if fault == "corrupt" else f)
        self._ncp_event(out, {"a": "toncp", "fault": fault})
        return True

    async def htick(self):
        if self.host.next_timer() is None:
            return False
        hev = await self.host.tick()
        self._host_event(hev, {"a": "htick"})
        return True

    def ntick(self):
        if not self.ncp.win:
            return False
        self._ncp_event(self.ncp.timer(), {"a": "ntick"})
        return True

    MAX_HARMS = 3      # C01's line drops, corrupts, duplicates and stalls frames; a transport whose write() raises is a transient extra, kept
    harms = 0          # well below the 7 spent frame numbers after which a NAK for an out-of-sequence frame reads as its acknowledgement (DESIGN 6)

    def harm(self):
        if self.host.write_fail_next or self.harms >= self.MAX_HARMS:
            return False
        self.harms += 1
        self.host.write_fail_next = True
        self.trace.append({"a": "harm", "out": [], "t": self.loop.ms})
        return True

    async def hcancel(self, i):
        t = self.host.tasks.get(i)
        if t is None or t.done():
            return False
        hev = await self.host.cancel(i)
        self._host_event(hev, {"a": "hcancel", "id": i})
        return True

    def busy(self):
        return bool(self.h2n or self.n2h or self.ncp.win or self.ncp.q or self.host.next_timer() is not None
                    or any(not t.done() for t in self.host.tasks.values()))

    async def drain(self, limit=400):
        """fault-free service until everything ended"""
        for _ in range(limit):
            if self.held_n is not None:
                self.nrelease()
            elif self.held_h is not None:
                await self.hrelease()
            elif self.h2n:
                self.toncp("deliver")
            elif self.n2h:
                await self.tohost("deliver")
            elif self.host.next_timer() is not None:
                await self.htick()
            elif self.ncp.win:
                self.ntick()
            else:
                break
        await self.host.settle()
        pending = sorted(i for i, t in self.host.tasks.items() if not t.done())
        self.trace.append({"a": "end", "pending": pending, "out": [], "t": self.loop.ms})


def run_link(args):
    """args = (win, schedule) ; schedule: list of steps
         ("hsubmit",) ("nsubmit",) ("tohost", fault[, late]) ("toncp", fault) ("htick",) ("ntick",) ("hcancel", id) ("harm",)
       inapplicable steps are skipped.  Ends with a fault-free drain."""
    win, schedule = args

    async def main(loop):
        rig = LinkRig(loop, win)
        for st in schedule:
            k = st[0]
            if k == "hsubmit":
                await rig.hsubmit()
            elif k == "nsubmit":
                rig.nsubmit()
            elif k == "tohost":
                await rig.tohost(st[1], late=len(st) > 2 and st[2])
            elif k == "toncp":
                rig.toncp(st[1])
            elif k == "htick":
                await rig.htick()
            elif k == "ntick":
                rig.ntick()
            elif k == "hcancel":
                await rig.hcancel(st[1])
            elif k == "hrelease":
                await rig.hrelease()
            elif k == "nrelease":
                rig.nrelease()
            elif k == "harm":
                rig.harm()
        await rig.drain()
        return rig.trace
    return vloop.run(main)


def run_links(batch):
    return [run_link(a) for a in batch]


def policy_schedule(win, nh, nn, faults, cancel_at=None):
    """Workload: nh host sends and nn NCP payloads submitted up front; the k-th frame serviced (either direction,
    directions alternate) gets faults[k] ('stall' = the sender's timer fires before the frame is delivered);
    later frames are delivered.  Returned as a function driving a LinkRig (needs queue feedback)."""
    async def main(loop):
        rig = LinkRig(loop, win)
        for _ in range(nh):
            await rig.hsubmit()
        for _ in range(nn):
            rig.nsubmit()
        k = 0
        steps = 0
        while steps < 300 and (rig.h2n or rig.n2h):
            steps += 1
            if cancel_at is not None and steps == cancel_at[0]:
                await rig.hcancel(cancel_at[1])
            # alternate directions, host->NCP first
            if rig.h2n and (steps % 2 == 1 or not rig.n2h):
                f = faults[k] if k < len(faults) else "deliver"
                k += 1
                if f == "stall":
                    await rig.htick()
                    rig.toncp("deliver")
                else:
                    rig.toncp(f)
            elif rig.n2h:
                f = faults[k] if k < len(faults) else "deliver"
                k += 1
                if f == "stall":
                    rig.ntick()
                    await rig.tohost("deliver")
                else:
                    await rig.tohost(f)
        await rig.drain()
        return rig.trace
    return vloop.run(main)


def run_policy(args):
    return policy_schedule(*args)


def run_policies(batch):
    return [policy_schedule(*a) for a in batch]
