"""Wire layouts of the EZSP structures exchanged with the NCP (spec/WireLayout.tla), checked against the host's types.

For each pinned structure the host's type is given a distinct byte string per field; what its serialiser emits and what
it decodes from the reference encoding are handed to TLC (Trace_WireLayout).  Used by C12, C13 (EmberApsFrame), C14 (network
parameters, security states, key structures, security-manager structures, child data) and C15 (multicast table entry)."""
from __future__ import annotations

from .core import Ctx

LAYOUTS = {   # name -> [(field, width)] ; mirrors spec/WireLayout.tla (the harness needs the widths to cut byte strings; TLC judges)
    "EmberNetworkParameters": [("extendedPanId", 8), ("panId", 2), ("radioTxPower", 1), ("radioChannel", 1), ("joinMethod", 1), ("nwkManagerId", 2),
                               ("nwkUpdateId", 1), ("channels", 4)],
    "EmberInitialSecurityState": [("bitmask", 2), ("preconfiguredKey", 16), ("networkKey", 16), ("networkKeySequenceNumber", 1),
                                  ("preconfiguredTrustCenterEui64", 8)],
    "EmberCurrentSecurityState": [("bitmask", 2), ("trustCenterLongAddress", 8)],
    "EmberKeyStruct": [("bitmask", 2), ("type", 1), ("key", 16), ("outgoingFrameCounter", 4), ("incomingFrameCounter", 4), ("sequenceNumber", 1),
                       ("partnerEUI64", 8)],
    "SecurityManagerContextV13": [("core_key_type", 1), ("key_index", 1), ("derived_type", 2), ("eui64", 8), ("multi_network_index", 1), ("flags", 1),
                                  ("psa_key_alg_permission", 4)],
    "SecurityManagerNetworkKeyInfo": [("network_key_set", 1), ("alternate_network_key_set", 1), ("network_key_sequence_number", 1),
                                      ("alt_network_key_sequence_number", 1), ("network_key_frame_counter", 4)],
    "SecurityManagerAPSKeyMetadata": [("bitmask", 2), ("outgoing_frame_counter", 4), ("incoming_frame_counter", 4), ("ttl_in_seconds", 2)],
    "EmberMulticastTableEntry": [("multicastId", 2), ("endpoint", 1), ("networkIndex", 1)],
    "EmberApsFrame": [("profileId", 2), ("clusterId", 2), ("sourceEndpoint", 1), ("destinationEndpoint", 1), ("options", 2), ("groupId", 2), ("sequence", 1)],
    "EmberChildDataV7": [("eui64", 8), ("type", 1), ("id", 2), ("phy", 1), ("power", 1), ("timeout", 1)],
}
# fields whose host type is an enumeration / flag set / boolean: byte patterns must stay inside what the type can hold losslessly
SMALL = {"radioTxPower": [8], "joinMethod": [0], "type": [1], "core_key_type": [1], "derived_type": [0, 0], "flags": [0], "network_key_set": [1],
         "alternate_network_key_set": [0], "bitmask": None, "options": None}


def events(names, variants=3):
    import bellows.types as t
    out = []
    for name in names:
        cls = getattr(t, name, None)
        lay = LAYOUTS[name]
        for v in range(variants):
            vals = {}
            for k, (fn, w) in enumerate(lay):
                if SMALL.get(fn) is not None and fn in SMALL and not (name == "EmberKeyStruct" and fn == "type" and False):
                    b = list(SMALL[fn])[:w] + [0] * (w - len(SMALL[fn]))
                    if fn in ("network_key_set", "alternate_network_key_set"):
                        b = [(v + (fn == "network_key_set")) % 2]
                else:
                    b = [((k + 1) * 16 + j + 1 + v * 7) % 256 for j in range(w)]
                    if fn in ("bitmask", "options"):
                        b = [b[0] & 0x7F, b[1] & 0x03] if w == 2 else b
                vals[fn] = b
            ev = {"name": name, "vals": vals, "enc": [], "dec": {}, "rest": 0, "raised": ""}
            if cls is None:
                ev["raised"] = "no such type"
                out.append(ev)
                continue
            try:
                kw = {}
                for f in cls.fields:
                    if f.name in vals:
                        kw[f.name] = f.type.deserialize(bytes(vals[f.name]))[0]
                obj = cls(**kw)
                ev["enc"] = list(obj.serialize())
                ref = b"".join(bytes(vals[fn]) for fn, _w in lay)
                dec, rest = cls.deserialize(ref)
                ev["rest"] = len(rest)
                ev["dec"] = {fn: list(getattr(dec, fn).serialize()) for fn, _w in lay}
            except BaseException as e:  # noqa
                ev["raised"] = type(e).__name__ + ": " + str(e)[:80]
            out.append(ev)
    return out


def check(ctx: Ctx, names):
    evs = events(names)
    ctx.validate_traces("Trace_WireLayout", [[e] for e in evs], metas=[{"struct": e["name"], "k": i} for i, e in enumerate(evs)],
                        label="wire layout", sig=lambda m, v, tr: f"trace:WireLayout:{m['struct']}")
    ctx.notes["wire_layouts_checked"] = sorted(set(names))
