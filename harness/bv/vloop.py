"""Deterministic virtual-time asyncio loop.

`select(timeout)` advances a virtual clock instead of sleeping, so every timer in the
real code fires at its exact virtual instant and a run of many virtual seconds costs
microseconds.  `bellows.ash` and `bellows.ezsp.protocol` read `time.monotonic()`
directly; `patch_time()` rebinds the `time` name in those module namespaces to an
object whose `monotonic` is the loop clock (harness-side, no repository change)."""
from __future__ import annotations

import asyncio
import selectors
import types


class _VSelector(selectors.SelectSelector):
    def __init__(self, loop):
        super().__init__()
        self._vloop = loop

    def select(self, timeout=None):
        # no real file descriptors are ever used; only the self-pipe exists
        if timeout is None:
            # nothing scheduled: the run would block forever
            raise VDeadlock("event loop idle with nothing scheduled (a task is waiting for something that never comes)")
        if timeout > 0:
            self._vloop._vnow += timeout
        return super().select(0)


class VDeadlock(Exception):
    pass


class VLoop(asyncio.SelectorEventLoop):
    def __init__(self):
        self._vnow = 0.0
        super().__init__(_VSelector(self))
        self._clock_resolution = 1e-9

    def time(self):
        return self._vnow

    @property
    def ms(self) -> int:
        return int(round(self._vnow * 1000))


class _Time(types.SimpleNamespace):
    pass


def patch_time(loop: VLoop):
    import time as _real
    import bellows.ash
    import bellows.ezsp.protocol
    fake = _Time(**{k: getattr(_real, k) for k in dir(_real) if not k.startswith("__")})
    fake.monotonic = loop.time
    fake.time = loop.time
    bellows.ash.time = fake
    bellows.ezsp.protocol.time = fake
    return fake


def run(coro_fn, *args, **kw):
    """Run coroutine function on a fresh virtual loop; returns its result."""
    loop = VLoop()
    asyncio.set_event_loop(loop)
    patch_time(loop)
    try:
        return loop.run_until_complete(coro_fn(loop, *args, **kw))
    finally:
        try:
            pending = [t for t in asyncio.all_tasks(loop) if not t.done()]
            for t in pending:
                t.cancel()
            if pending:
                try:
                    loop.run_until_complete(asyncio.gather(*pending, return_exceptions=True))
                except VDeadlock:
                    pass
        finally:
            asyncio.set_event_loop(None)
            loop.close()


async def settle(n: int = 20):
    """Let ready callbacks run without advancing time."""
    for _ in range(n):
        await asyncio.sleep(0)
