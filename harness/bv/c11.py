"""C11 - the reset handshake completes only on the NCP's software-reset acknowledgement.

spec/Gateway.tla (reset slice on top of AshHost.tla) is model-checked; the real bellows.uart.Gateway on the real
AshProtocol is driven in virtual time through RSTACK / ERROR frames with every code, arriving before the request,
in time, after the timeout or twice, after prior traffic leaving the frame counters anywhere in 0..7, with the
connection lost at every step (as its own callback, or queued right behind the read that resolved a waiter);
TLC validates each run against Trace_Gateway."""
from __future__ import annotations

import itertools

from . import gwrig
from .c04 import host_consts, pmap
from .core import Ctx


def rstack(c):
    return {"type": "RSTACK", "ver": 2, "code": c}


def error(c):
    return {"type": "ERROR", "ver": 2, "code": c}


def ack(n):
    return {"type": "ACK", "res": 0, "nrdy": 0, "ack": n}


def base_script(kind, code, arrival, a, b):
    """list of steps (without losses).  kind: 'rstack' | 'error'"""
    fr = rstack(code) if kind == "rstack" else error(code)
    steps = []
    for i in range(a):                         # prior traffic: a acknowledged sends, b accepted DATA frames
        steps.append(("submit",))
        steps.append(("recv", [ack((i + 1) % 8)]))
    if b:
        steps.append(("recv", [{"type": "DATA", "frm": i, "retx": 0, "ack": a % 8, "pl": 300 + i} for i in range(b)]))
    if arrival == "before":
        steps.append(("recv", [fr]))
        steps.append(("reset", 1))
        steps.append(("timer",))
    elif arrival == "intime":
        steps.append(("reset", 1))
        steps.append(("recv", [fr]))
    elif arrival == "after":
        steps.append(("reset", 1))
        steps.append(("timer",))
        steps.append(("recv", [fr]))
    elif arrival == "twice":
        steps.append(("reset", 1))
        steps.append(("recv", [fr]))
        steps.append(("recv", [fr]))
    elif arrival == "joined":
        steps.append(("reset", 1))
        steps.append(("reset", 2))
        steps.append(("recv", [fr]))
    elif arrival == "again":                 # a request that timed out, then a fresh one answered in time
        steps.append(("reset", 1))
        steps.append(("timer",))
        steps.append(("reset", 2))
        steps.append(("recv", [fr]))
        steps.append(("timer",))
    elif arrival == "quick-again":
        # a request answered in time, a second request shortly before the first one's timeout would have expired, its answer shortly after
        # that instant (well within its own timeout)
        steps.append(("reset", 1))
        steps.append(("recv", [rstack(11)]))
        steps.append(("advance", 4800))
        steps.append(("reset", 2))
        steps.append(("advance", 700))
        steps.append(("recv", [fr]))
        steps.append(("timer",))
    elif arrival in ("inflight", "inflight-sep"):
        # a DATA frame is in flight (unacknowledged) when the reset is requested; its acknowledgement and the RSTACK arrive in one read /
        # in two reads (an in-flight frame that is never acknowledged keeps its number across the RSTACK - a named deviation, not exercised here)
        steps.append(("submit",))
        steps.append(("reset", 1))
        if arrival == "inflight":
            steps.append(("recv", [ack((a + 1) % 8), fr]))
        elif arrival == "inflight-sep":
            steps.append(("recv", [ack((a + 1) % 8)]))
            steps.append(("recv", [fr]))
        else:
            steps.append(("recv", [fr]))
    elif arrival == "startup":
        steps.append(("startup", 9))
        steps.append(("recv", [fr]))
        steps.append(("reset", 1))
        steps.append(("recv", [rstack(11)]))
    elif arrival == "startup+reset":
        steps.append(("startup", 9))
        steps.append(("reset", 1))
        steps.append(("recv", [fr]))
        steps.append(("recv", [fr]))
    # numbering after the handshake, observed on the wire
    steps.append(("submit",))
    steps.append(("recv", [{"type": "DATA", "frm": 0, "retx": 0, "ack": 1, "pl": 400}]))
    return steps


def with_loss(steps, pos, how, exc):
    """how: 'own' (separate callback before step pos) | 'same' (queued right behind the read at pos-1)"""
    s = list(steps)
    if how == "own":
        s.insert(pos, ("lost", exc))
        return s
    if pos == 0 or s[pos - 1][0] != "recv":
        return None
    s[pos - 1] = ("recv", s[pos - 1][1], "exc" if exc else "close")
    return s


def run_steps(steps):
    async def script(rig):
        nid = 0
        gone = False
        for st in steps:
            if gone and st[0] == "recv":
                continue                      # nothing arrives on a connection that is gone
            if st[0] == "lost" or (st[0] == "recv" and len(st) > 2 and st[2] != "no"):
                gone = True
            if st[0] == "submit":
                nid += 1
                await rig.submit(nid)
            elif st[0] == "recv":
                await rig.recv(st[1], st[2] if len(st) > 2 else "no")
            elif st[0] == "reset":
                await rig.reset(st[1])
            elif st[0] == "startup":
                await rig.startup(st[1])
            elif st[0] == "timer":
                await rig.timer()
            elif st[0] == "advance":
                await rig.advance(st[1])
            elif st[0] == "lost":
                await rig.lose(st[1])
    return gwrig.run_script(script)


def sig(meta, v, tr):
    e = tr[v.stuck_at - 1] if v.stuck_at and v.stuck_at <= len(tr) else {}
    outs = ",".join(o["o"] + ":" + str(o.get("res", o.get("code", ""))) for o in e.get("out", [])[:4])
    fs = ",".join(f["type"] for f in e.get("fs", []))
    return f"trace:Gateway:{e.get('a')}:{fs}:lost={e.get('lost', e.get('exc', ''))}:{outs}"


def consts():
    import bellows.uart as u
    return {**host_consts(), "ResetTimeout": str(int(u.RESET_TIMEOUT * 1000))}


def run(ctx: Ctx):
    c = consts()
    ctx.model_check("GatewayMC", "MC_Gateway", constants={"MaxAtt": c["MaxAtt"], "ResetTimeout": c["ResetTimeout"], "Codes": "{11, 2, 0, 81}",
                                                           "ErrCodes": "{81, 128}", "NResets": "2" if ctx.quick else "3"},
                    invariants=("CompletesOnlyOnSoftware", "OtherCodesAreFailure", "WaitersReleased", "SecondResetJoins"),
                    required_actions=("Reset", "Startup", "DoRstack", "DoRstackLost", "DoError", "Timeout", "DoLost"))
    rng = ctx.rng
    arrivals = ("before", "intime", "after", "twice", "joined", "again", "startup", "startup+reset", "inflight", "inflight-sep", "quick-again")
    codes = list(range(256)) if not ctx.quick else [11, 0, 1, 2, 3, 6, 9, 0x51, 0x80, 0xFF] + [rng.randrange(256) for _ in range(6)]
    ecodes = [c_ for c_ in range(0x50, 256)] if not ctx.quick else [0x51, 0x52, 0x80, 0xFF]
    pairs = [(a, b) for a in range(8) for b in range(8)] if not ctx.quick else [(0, 0), (3, 5), (7, 7), (1, 0), (0, 6)]
    jobs = []
    k = 0
    for kind, cs in (("rstack", codes), ("error", ecodes)):
        for code in cs:
            for arr in arrivals:
                k += 1
                a, b = pairs[k % len(pairs)] if ctx.quick or code not in (11, 2, 0x51) else (0, 0)
                base = base_script(kind, code, arr, a, b)
                jobs.append((base, {"kind": kind, "code": code, "arrival": arr, "a": a, "b": b, "loss": None}))
                # connection loss at each step
                if code in (11, 2, 0x51, 0x80) or not ctx.quick and code % 16 == 0:
                    first = 2 * a + (1 if b else 0)
                    for pos in range(first, len(base) + 1):
                        for how in ("own", "same"):
                            for exc in (True, False, "eof") if how == "own" else (True, False):
                                s = with_loss(base, pos, how, exc)
                                if s is not None:
                                    jobs.append((s, {"kind": kind, "code": code, "arrival": arr, "a": a, "b": b,
                                                     "loss": [pos, how, exc]}))
    if not ctx.quick:
        for (a, b) in pairs:                     # every counter pair with the genuine acknowledgement
            for arr in ("intime", "twice", "before"):
                jobs.append((base_script("rstack", 11, arr, a, b), {"kind": "rstack", "code": 11, "arrival": arr, "a": a, "b": b, "loss": None}))
    traces = pmap(run_steps, [j[0] for j in jobs], chunksize=32)
    metas = [dict(j[1], steps=j[0]) for j in jobs]
    ctx.evaluations = len(traces)
    ctx.distinct_nontrivial = len({str(j[0]) for j in jobs})
    ctx.rule = (f"RSTACK with {len(codes)} codes and ERROR with {len(ecodes)} codes x 8 arrival patterns (before the request, in time, after the timeout, twice, a fresh request after a timed-out one, "
                "second request joining, start-up waiter, start-up waiter plus request) after prior traffic leaving (tx, rx) at various values in 0..7, each followed "
                "by a send and a DATA frame numbered 0; for selected codes the connection is lost before every step (own callback: error, clean close, EOF) or "
                "queued right behind every read; distinct = distinct step list")
    ctx.add_sample({"meta": {k_: v for k_, v in metas[3].items() if k_ != "steps"}, "trace": traces[3]})
    ctx.validate_traces("Trace_Gateway", traces, constants=c, metas=metas, label="reset handshake", sig=sig)
    ctx.exhaustive = False
    ctx.assumptions += ["fake serial transport whose close() reports connection_lost(None) from the loop like serial transports do",
                        "ERROR frames carry ASH error codes (0x50 and above); RESET_TIMEOUT read from the tree (configuration); software-reset code 0x0B pinned"]


def replay(ctx: Ctx, data):
    m = data["replay"]["meta"]
    steps = [tuple(s) if not isinstance(s, tuple) else s for s in m["steps"]]
    tr = run_steps(steps)
    ctx.validate_traces("Trace_Gateway", [tr], constants=consts(), metas=[m], label="reset handshake", sig=sig)
    ctx.add_sample(tr)
