"""C17 - event-completed operations never miss their completing event or leak listeners.

spec/EventOps.tla models forming, leaving, bringing up (command + matching stack-status event) and scans (command +
result callbacks + completion callback); EventOpsMC explores every order of the environment's events.  Every such
order is executed on the real EZSP.formNetwork / leaveNetwork / startScan and ControllerApplication.
_ensure_network_running in virtual time (the harness plays the NCP at frame level) and validated by TLC, incl. the
listener / callback bookkeeping after each operation and repeated operations."""
from __future__ import annotations

import asyncio
import itertools

from . import apprig, vloop
from .c04 import pmap
from .core import Ctx


def run_case(case):
    ver, kind, script, refuse_rot = case

    async def main(loop):
        app, ezsp, gw, ncp = await apprig.make_app(loop, ver)
        t = ncp.t
        for nm in ("formNetwork", "leaveNetwork", "networkState", "networkInit", "networkInitExtended", "startScan"):
            ncp.script[nm] = "noreply"
        trace = []
        out = []
        base = {"cb": len(ezsp._callbacks), "ls": sum(len(v) for v in ezsp._stack_status_listeners.values())}
        n_log = [0]
        task = [None]

        def flush(ev):
            # commands that reached the NCP since the last event
            for en in ncp.log[n_log[0]:]:
                nm = en["name"]
                out.append({"o": "cmd", "name": "networkInit" if nm in ("networkInit", "networkInitExtended") else nm})
            n_log[0] = len(ncp.log)
            # keep cmd outputs before done outputs, both in order
            ev["out"] = [o for o in out if o["o"] == "cmd"] + [o for o in out if o["o"] == "done"]
            out.clear()
            ev["t"] = loop.ms
            trace.append(ev)

        def last(name_set):
            for en in reversed(ncp.log):
                if en["name"] in name_set:
                    return en
            return None

        def status_value(cls, which=None):
            E, S = t.EmberStatus, t.sl_Status
            if ver >= 14:
                return {"up": S.NETWORK_UP, "down": S.NETWORK_DOWN, "other": S.ZIGBEE_NETWORK_OPENED}[cls]
            return {"up": E.NETWORK_UP, "down": E.NETWORK_DOWN, "other": E.NETWORK_OPENED}[cls]

        def resp_status(st, name):
            rx = ncp.cmds[name][2]
            ty = list(rx.values())[0]
            if st == "ok":
                return ty(0)
            if st == "notjoined":
                return ty(int(t.sl_Status.NOT_JOINED) if ty is t.sl_Status else int(t.EmberStatus.NOT_JOINED))
            members = [m for m in ty.__members__.values() if int(m) != 0 and m.name not in ("NOT_JOINED",)]
            return members[refuse_rot % len(members)]

        async def op():
            try:
                if kind == "form":
                    p = t.EmberNetworkParameters(extendedPanId=t.ExtendedPanId.convert("11:22:33:44:55:66:77:88"), panId=0x1234,
                                                 radioTxPower=8, radioChannel=15, joinMethod=t.EmberJoinMethod.USE_MAC_ASSOCIATION,
                                                 nwkManagerId=0, nwkUpdateId=0, channels=t.Channels.ALL_CHANNELS)
                    await ezsp.formNetwork(p)
                    val = []
                elif kind == "leave":
                    await ezsp.leaveNetwork()
                    val = []
                elif kind == "bringup":
                    await app._ensure_network_running()
                    val = []
                else:
                    r = await ezsp.startScan(t.EzspNetworkScanType.ENERGY_SCAN, t.Channels.ALL_CHANNELS, 3)
                    val = [int(x[0]) for x in r]
                out.append({"o": "done", "res": "ok", "val": val})
            except asyncio.CancelledError:
                out.append({"o": "done", "res": "cancelled", "val": []})
            except asyncio.TimeoutError:
                out.append({"o": "done", "res": "timeout", "val": []})
            except BaseException as e:  # noqa
                n = type(e).__name__
                res = {"NetworkNotFormed": "notformed"}.get(n)
                if res is None:
                    if kind == "scan" and len(e.args) == 1 and isinstance(e.args[0], list) and len(e.args[0]) == 2:
                        res = "scanfail"       # the completion callback's status was not OK
                    else:
                        res = "refused"
                out.append({"o": "done", "res": res, "val": []})
        for step in script:
            k = step[0]
            if k == "start":
                task[0] = asyncio.Task(op(), loop=loop, eager_start=True)
                await apprig.settle(loop)
                flush({"a": "start", "kind": kind})
            elif k == "probe":
                en = last({"networkState"})
                if en is None:
                    continue
                st = t.EmberNetworkStatus.JOINED_NETWORK if step[1] else t.EmberNetworkStatus.NO_NETWORK
                ncp._send_now(en["fmt"], en["seq"], "networkState", [st])
                await apprig.settle(loop)
                flush({"a": "probe", "joined": 1 if step[1] else 0})
            elif k == "resp":
                name_set = {"form": {"formNetwork"}, "leave": {"leaveNetwork"}, "bringup": {"networkInit", "networkInitExtended"}, "scan": {"startScan"}}[kind]
                en = last(name_set)
                if en is None or en.get("answered"):
                    continue
                en["answered"] = True
                ncp._send_now(en["fmt"], en["seq"], en["name"], [resp_status(step[1], en["name"])])
                await apprig.settle(loop)
                flush({"a": "resp", "st": step[1]})
            elif k == "status":
                ncp.callback("stackStatusHandler", [status_value(step[1])], now=True)
                await apprig.settle(loop)
                flush({"a": "status", "s": step[1]})
            elif k == "result":
                ncp.callback("energyScanResultHandler", [step[1], -40], now=True)
                await apprig.settle(loop)
                flush({"a": "result", "x": step[1]})
            elif k == "complete":
                rx = ncp.cmds["scanCompleteHandler"][2]
                sty = list(rx.values())[1]
                bad = [m for m in sty.__members__.values() if int(m) != 0][refuse_rot % 5]
                ncp.callback("scanCompleteHandler", [0, sty(0) if step[1] else bad], now=True)
                await apprig.settle(loop)
                flush({"a": "complete", "ok": 1 if step[1] else 0})
            elif k == "tick":
                when = apprig.next_timer(loop)
                if when is None:
                    continue
                loop._vnow = max(loop._vnow, when)
                await apprig.settle(loop)
                flush({"a": "tick"})
            elif k == "cancel":
                if task[0] is not None and not task[0].done():
                    task[0].cancel()
                    await apprig.settle(loop)
                    flush({"a": "cancel"})
            elif k == "end":
                await apprig.settle(loop)
                pending = 1 if (task[0] is not None and not task[0].done()) else 0
                ev = {"a": "end", "pending": pending,
                      "listeners": sum(len(v) for v in ezsp._stack_status_listeners.values()) - base["ls"],
                      "callbacks": len(ezsp._callbacks) - base["cb"], "out": [], "t": loop.ms}
                trace.append(ev)
                if pending:
                    task[0].cancel()
                    await apprig.settle(loop)
        return trace
    return vloop.run(main)


def scripts_for(kind, quick):
    """all orders of the environment's events around one operation (then the same operation once more)"""
    out = []
    if kind == "scan":
        base_items = [("resp",), ("result", 11), ("result", 12), ("complete",)]
        for perm in itertools.permutations(base_items):
            for st in ("ok", "refuse"):
                for cok in (True, False):
                    for early in (False, True):
                        s = ([("result", 10), ("complete", True)] if early else []) + [("start",)]
                        for it in perm:
                            if it[0] == "resp":
                                s.append(("resp", st))
                            elif it[0] == "complete":
                                s.append(("complete", cok))
                            else:
                                s.append(it)
                        s += [("cancel",), ("end",)]
                        out.append(s)
        # the scan ended by cancellation (or by the command timeout) after every prefix of every order, then a further scan
        seen = set()
        for perm in itertools.permutations(base_items):
            for cut in range(0, 4):
                for ender in ("cancel", "tick"):
                    for early in (False, True):
                        pre = [(it[0], "ok") if it[0] == "resp" else ((it[0], True) if it[0] == "complete" else it) for it in perm[:cut]]
                        key = (tuple(pre), ender, early)
                        if key in seen or (ender == "tick" and any(x[0] == "resp" for x in pre)):
                            continue              # a scan has no timeout of its own once the command was answered
                        seen.add(key)
                        s = ([("result", 10), ("complete", True)] if early else []) + [("start",)] + pre + [(ender,), ("end",)]
                        s += [("result", 13), ("complete", True), ("end",)]          # late frames of the ended scan: nobody is left to take them
                        s += [("start",), ("resp", "ok"), ("result", 14), ("complete", True), ("end",)]
                        out.append(s)
        return out
    items = [("resp",), ("status", "M"), ("status", "O"), ("tick",)]
    match = "down" if kind == "leave" else "up"
    other = "up" if kind == "leave" else "down"
    for n in range(1, len(items) + 1):
        for perm in itertools.permutations(items, n):
            for st in ("ok", "refuse", "notjoined"):        # NOT_JOINED: "not formed" for the bring-up, a refusal like any other for form / leave
                for early in (False, True):
                    s = ([("status", match)] if early else []) + [("start",)]
                    if kind == "bringup":
                        s.append(("probe", False))
                    for it in perm:
                        if it == ("resp",):
                            s.append(("resp", st))
                        elif it == ("status", "M"):
                            s.append(("status", match))
                        elif it == ("status", "O"):
                            s.append(("status", other))
                        else:
                            s.append(it)
                    for tail in ((("tick",), ("end",)), (("cancel",), ("end",)), (("status", match), ("tick",), ("end",)), (("status", "other"), ("cancel",), ("end",))):
                        out.append(s + list(tail))
    if kind == "bringup":
        out.append([("start",), ("probe", True), ("end",)])
        out.append([("status", "up"), ("start",), ("probe", True), ("status", "up"), ("end",)])
        out.append([("start",), ("cancel",), ("end",)])
    # repeated operations: residue must stay zero after each
    rep = []
    for i in range(5):
        rep += [("start",)] + ([("probe", False)] if kind == "bringup" else []) + \
               [("resp", "ok" if i % 2 == 0 else "refuse"), ("status", match), ("cancel",), ("end",)]
    out.append(rep)
    return out


# ---------------------------------------------------------------- several waiters at once (the listener registry itself)
def run_waiters(case):
    ver, n, script = case

    async def main(loop):
        app, ezsp, gw, ncp = await apprig.make_app(loop, ver)
        t = ncp.t
        E, S = t.EmberStatus, t.sl_Status
        vals = {"up": S.NETWORK_UP, "down": S.NETWORK_DOWN, "other": S.ZIGBEE_NETWORK_OPENED} if ver >= 14 else \
               {"up": E.NETWORK_UP, "down": E.NETWORK_DOWN, "other": E.NETWORK_OPENED}
        want = {"up": t.sl_Status.NETWORK_UP, "down": t.sl_Status.NETWORK_DOWN}
        base = sum(len(v) for v in ezsp._stack_status_listeners.values())
        fin = []
        tasks = {}
        trace = [{"a": "cfg", "n": n, "ver": ver}]

        left = []
        holds = {}

        async def waiter(i, st, tmo, hold=False):
            try:
                with ezsp.wait_for_stack_status(want[st]) as fut:
                    async with asyncio.timeout(tmo):
                        await fut
                    fin.append({"i": i, "how": "got"})
                    if hold:
                        # the operation is not over yet (e.g. its command's response is still to come): it stays inside the block
                        holds[i] = loop.create_future()
                        await holds[i]
                left.append(i)
            except asyncio.CancelledError:
                fin.append({"i": i, "how": "cancelled"})
            except asyncio.TimeoutError:
                fin.append({"i": i, "how": "timeout"})
            except BaseException as e:  # noqa
                fin.append({"i": i, "how": "raised:" + type(e).__name__})

        def flush(ev):
            ev["fin"] = sorted(fin, key=lambda f: f["i"])
            fin.clear()
            ev["left"] = sorted(left)
            left.clear()
            ev["reg"] = sum(len([f for f in v if not f.done()]) for v in ezsp._stack_status_listeners.values()) - base
            ev["t"] = loop.ms
            trace.append(ev)
        for step in script:
            k = step[0]
            if k == "enter":
                tasks[step[1]] = asyncio.Task(waiter(step[1], step[2], step[3], len(step) > 4 and step[4]), loop=loop, eager_start=True)
                await apprig.settle(loop)
                flush({"a": "enter", "i": step[1], "st": step[2]})
            elif k == "status":
                try:
                    ncp.callback("stackStatusHandler", [vals[step[1]]], now=True)
                except BaseException as e:  # noqa
                    fin.append({"i": 0, "how": "raised:" + type(e).__name__})
                await apprig.settle(loop)
                flush({"a": "status", "st": step[1]})
            elif k == "release":
                if step[1] not in holds or holds[step[1]].done():
                    continue
                holds[step[1]].set_result(None)
                await apprig.settle(loop)
                flush({"a": "release", "i": step[1]})
            elif k == "cancel":
                tk = tasks.get(step[1])
                if tk is None or tk.done():
                    continue
                tk.cancel()
                await apprig.settle(loop)
                flush({"a": "cancel", "i": step[1]})
            elif k == "tick":
                when = apprig.next_timer(loop)
                if when is None:
                    continue
                loop._vnow = max(loop._vnow, when)
                await apprig.settle(loop)
                flush({"a": "tick"})
            elif k == "end":
                await apprig.settle(loop)
                pend = [tk for tk in tasks.values() if not tk.done()]
                trace.append({"a": "end", "pending": len(pend), "t": loop.ms,
                              "listeners": sum(len(v) for v in ezsp._stack_status_listeners.values()) - base})
                for tk in pend:
                    tk.cancel()
                await apprig.settle(loop)
        return trace
    return vloop.run(main)


def waiter_cases(quick):
    out = []
    acts = [("status", "up"), ("status", "down"), ("status", "other"), ("cancel", 1), ("cancel", 2), ("tick",)]
    for n in (2, 3):
        for sts in itertools.product(("up", "down"), repeat=n):
            enters = [("enter", i + 1, sts[i], 5 + 3 * i) for i in range(n)]
            for seq in itertools.product(acts, repeat=2 if quick else 3):
                # one waiter may join in the middle, and one re-enter after the events
                for late in (False, True):
                    s = (enters[:-1] if late else enters) + [seq[0]] + ([enters[-1]] if late else []) + list(seq[1:])
                    s += [("enter", n + 1, "up", 2), ("status", "up"), ("tick",), ("tick",), ("tick",), ("tick",), ("end",)]
                    out.append((n + 1, s))
    # operations that stay inside their block after their event arrived (the command's response is still to come) while others register,
    # leave and are served: every order of {event for the first, a second waiter entering, the first leaving, event for the second}
    for sts in itertools.product(("up", "down"), repeat=2):
        for perm in itertools.permutations((("status", sts[0]), ("enter", 2, sts[1], 9), ("release", 1), ("status", sts[1]), ("enter", 3, sts[0], 7, True))):
            s = [("enter", 1, sts[0], 5, True)] + list(perm) + [("status", sts[0]), ("status", sts[1]), ("release", 1), ("release", 3),
                                                                 ("tick",), ("tick",), ("tick",), ("end",)]
            out.append((3, s))
    return out


# ---------------------------------------------------------------- the callback registry (add_callback / remove_callback / handle_callback)
def run_registry(case):
    ver, script = case

    async def main(loop):
        app, ezsp, gw, ncp = await apprig.make_app(loop, ver)
        base = len(ezsp._callbacks)
        heard = []
        ids = {}
        trace = []

        def mk(h):
            def cb(name, args):
                if name == "stackStatusHandler":
                    heard.append(h)
            return cb
        t = ncp.t
        st = (t.sl_Status.ZIGBEE_NETWORK_OPENED if ver >= 14 else t.EmberStatus.NETWORK_OPENED)
        for step in script:
            raised = 0
            if step[0] == "add":
                try:
                    ids[step[1]] = ezsp.add_callback(mk(step[1]))
                except BaseException:  # noqa
                    raised = 1
                trace.append({"a": "add", "h": step[1], "id": str(ids.get(step[1])), "raised": raised})
            elif step[0] == "remove":
                if step[1] not in ids:
                    continue
                try:
                    ezsp.remove_callback(ids.pop(step[1]))
                except BaseException:  # noqa
                    raised = 1
                trace.append({"a": "remove", "h": step[1], "raised": raised})
            else:
                heard.clear()
                try:
                    ncp.callback("stackStatusHandler", [st], now=True)
                except BaseException:  # noqa
                    raised = 1
                await apprig.settle(loop)
                trace.append({"a": "fire", "heard": list(heard), "raised": raised})
        trace.append({"a": "end", "left": len(ezsp._callbacks) - base})
        return trace
    return vloop.run(main)


def registry_scripts(quick):
    hs = (1, 2, 3)
    acts = [("add", h) for h in hs] + [("remove", h) for h in hs] + [("fire",)]
    out = []
    for n in range(2, 6 if quick else 7):
        for seq in itertools.product(acts, repeat=n):
            live, ok = set(), True
            for a in seq:
                if a[0] == "add":
                    ok = ok and a[1] not in live
                    live.add(a[1])
                elif a[0] == "remove":
                    ok = ok and a[1] in live
                    live.discard(a[1])
            if ok and any(a[0] == "remove" for a in seq) and seq[-1][0] != "fire":
                out.append(list(seq) + [("fire",), ("fire",)])
    return out


def sig(meta, v, tr):
    e = tr[v.stuck_at - 1] if v.stuck_at and v.stuck_at <= len(tr) else {}
    outs = ",".join(o["o"] + ":" + str(o.get("res", o.get("name", ""))) for o in e.get("out", [])[:3])
    extra = f":listeners={e.get('listeners')}:callbacks={e.get('callbacks')}:pending={e.get('pending')}" if e.get("a") == "end" else ""
    return f"trace:EventOps:{meta[1]}:{e.get('a')}:{e.get('st', e.get('s', ''))}:{outs}{extra}"


def consts():
    import bellows.ezsp as E
    from . import compat
    compat.install()
    import bellows.zigbee.application as A
    import bellows.ezsp.protocol as P
    return {"OpTimeout": str(int(E.NETWORK_OPS_TIMEOUT * 1000)), "UpTimeout": str(int(A.NETWORK_UP_TIMEOUT_S * 1000)),
            "CmdTimeout": str(int(P.EZSP_CMD_TIMEOUT * 1000))}


def run(ctx: Ctx):
    c = consts()
    ctx.model_check("EventOpsMC", "MC_EventOps", constants=c,
                    invariants=("CompletesOnBoth", "BringUpOk", "NeverMisses", "RefusalRaises"),
                    required_actions=("Start", "Probe", "Resp", "Match", "Other", "Result", "Complete", "Timeout", "CmdTimeoutFires", "Cancel"))
    cases = []
    vers = (8, 4, 14) if ctx.quick else tuple(range(4, 15))
    k = 0
    for kind in ("form", "leave", "bringup", "scan"):
        for s in scripts_for(kind, ctx.quick):
            k += 1
            for ver in vers:
                if ctx.quick and (k + ver) % 3 and len(s) < 20:
                    continue
                cases.append((ver, kind, s, k))
    # every refusal status of the command's status family in turn (the rotation index selects it): a refused command raises at once,
    # and what another operation's events do afterwards concerns nobody
    for ver in ((8, 14) if ctx.quick else (4, 8, 13, 14)):
        for kind, tail in (("scan", [("result", 11), ("complete", True), ("tick",), ("result", 12), ("complete", True)]),
                           ("form", [("status", "up"), ("tick",)]), ("leave", [("status", "down"), ("tick",)])):
            for rot in range(260 if ver >= 14 else 200):
                if ctx.quick and kind != "scan" and rot % 4:
                    continue
                cases.append((ver, kind, [("start",), ("resp", "refuse")] + tail + [("end",)], rot))
    traces = pmap(run_case, cases, chunksize=16)
    ctx.evaluations = len(traces)
    ctx.distinct_nontrivial = len({str(c_) for c_ in cases})
    ctx.rule = ("for forming, leaving and bring-up: every ordered selection of {command response (ok / each refusal status in rotation / not-joined), matching "
                "status event, non-matching status event, timeout expiry} with and without a matching event before the operation is issued, each ended by "
                "timeout, cancellation or a further event; for scans: every order of {response, two results, completion} x response / completion status with "
                "and without stale results from before the scan; every refusal status of the status family in turn followed by another operation's events; five repeated operations; the listener and callback bookkeeping is compared after every "
                "operation; distinct = distinct (version, kind, script)")
    ctx.add_sample({"case": [cases[3][0], cases[3][1], cases[3][2]], "trace": traces[3]})
    ctx.validate_traces("Trace_EventOps", traces, constants=c, metas=[list(x) for x in cases], label="event ops", sig=sig)
    # several operations waiting at once: the listener registry under concurrent waiters (every waiter of a status is resolved by its event)
    ctx.model_check("StatusWaitersMC", "MC_StatusWaiters", constants={"Ids": "{1, 2, 3}", "MaxEvents": "3"}, invariants=("NoMiss", "NoSpurious"),
                    required_actions=("Enter", "Status", "Exit"))
    wcases = [(ver, n, s) for (n, s) in waiter_cases(ctx.quick) for ver in ((8, 14) if ctx.quick else (4, 8, 13, 14))]
    wtraces = pmap(run_waiters, wcases, chunksize=32)
    ctx.evaluations += len(wtraces)
    ctx.distinct_nontrivial += len(wcases)
    ctx.validate_traces("Trace_StatusWaiters", wtraces, metas=[["waiters"] + list(x) for x in wcases], label="concurrent waiters",
                        sig=lambda m, v, tr: f"trace:StatusWaiters:{(tr[v.stuck_at - 1] if v.stuck_at and v.stuck_at <= len(tr) else {}).get('a')}")
    ctx.rule += ("; concurrent waiters: 2..3 tasks inside wait_for_stack_status for up / down in every combination, one possibly joining late, every "
                 "sequence of 2 (3) of {up, down, other status, cancel 1, cancel 2, timeout}, then a re-entering waiter")
    # the callback registry under every short order of registrations, removals and frames (overlapping list commands, listeners, application)
    rs = registry_scripts(ctx.quick)
    rcases = [(ver, sc) for k, sc in enumerate(rs) for ver in ((8, 14) if ctx.quick else (4, 8, 14)) if not ctx.quick or (k + ver) % 4 == 0]
    rtraces = pmap(run_registry, rcases, chunksize=64)
    ctx.evaluations += len(rtraces)
    ctx.distinct_nontrivial += len(rcases)
    ctx.validate_traces("Trace_CbRegistry", rtraces, metas=[["registry", c[0], [list(x) for x in c[1]]] for c in rcases], label="callback registry",
                        sig=lambda m, v, tr: f"trace:CbRegistry:{(tr[v.stuck_at - 1] if v.stuck_at and v.stuck_at <= len(tr) else {}).get('a')}")
    ctx.rule += "; callback registry: every valid order of up to 5 (6) registrations / removals / frames over three registrations, then two frames"
    ctx.exhaustive = True
    ctx.assumptions += ["zigpy.util.Requests shim for the bring-up operation; the harness plays the NCP at frame level (EzspRig-style fake gateway, NcpEzsp encoder)",
                        "listener / callback residue is read from EZSP._stack_status_listeners and EZSP._callbacks (bookkeeping the property names)",
                        "NETWORK_OPS_TIMEOUT and NETWORK_UP_TIMEOUT_S are read from the tree (configuration)"]


def replay(ctx: Ctx, data):
    m = data["replay"]["meta"]
    if m and m[0] == "registry":
        tr = run_registry((m[1], [tuple(x) for x in m[2]]))
        ctx.validate_traces("Trace_CbRegistry", [tr], metas=[m], label="callback registry")
        ctx.add_sample(tr)
        return
    if m and m[0] == "waiters":
        tr = run_waiters((m[1], m[2], [tuple(x) for x in m[3]]))
        ctx.validate_traces("Trace_StatusWaiters", [tr], metas=[m], label="concurrent waiters")
        ctx.add_sample(tr)
        return
    script = [tuple(s) for s in m[2]]
    tr = run_case((m[0], m[1], script, m[3]))
    ctx.validate_traces("Trace_EventOps", [tr], constants=consts(), metas=[m], label="event ops", sig=sig)
    ctx.add_sample(tr)
