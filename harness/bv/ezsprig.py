"""Rig for the EZSP command layer: the real bellows.ezsp.EZSP with a real per-version protocol handler on a
fake gateway, in virtual time.  The harness itself plays the NCP at frame level (it injects response and
callback frames through EZSP.frame_received) and decodes the header of every frame the host hands to
gateway.send_data with its own three-layout decoder."""
from __future__ import annotations

import asyncio

from . import ncp_ezsp, vloop


class GwRig:
    """FakeGateway variant whose send_data can be held pending and resolved by the harness."""

    def __init__(self, rig):
        self.rig = rig
        self.modes: list[str] = []
        self.pending = None
        self.closed = False

    async def send_data(self, data: bytes):
        mode = self.modes.pop(0) if self.modes else "ok"
        self.rig.on_sent(bytes(data), mode)
        if mode == "fail":
            import bellows.ash as ash
            import bellows.types as t
            raise ash.NcpFailure(t.NcpResetCode.ERROR_EXCEEDED_MAXIMUM_ACK_TIMEOUT_COUNT)
        if mode == "hang":
            self.pending = asyncio.get_running_loop().create_future()
            try:
                await self.pending
            finally:
                self.pending = None

    async def reset(self):
        await asyncio.sleep(0)

    def close(self):
        self.closed = True


class EzspRig:
    HIGH = ("readCounters", "nop", "readAndClearCounters", "getValue")
    MID = ("getNodeId", "getEui64x")
    LOW = ("sendUnicast", "sendMulticast", "sendBroadcast")

    def __init__(self, loop, version):
        import bellows.ezsp
        import bellows.uart
        import bellows.types as t
        self.t = t
        self.loop = loop
        self.version = version
        self.layout = ncp_ezsp.layout_of(version)
        self.out: list[dict] = []
        self.trace: list[dict] = []
        self.gw = GwRig(self)
        self.tasks: dict[int, asyncio.Task] = {}
        self.by_seq_call: dict[bytes, int] = {}
        self.current_call = None
        self.sent_raw: list[bytes] = []

    async def start(self):
        import bellows.ezsp
        import bellows.uart
        gw = self.gw

        async def fake_connect(config, application, use_thread=True):
            return gw
        orig = bellows.uart.connect
        bellows.uart.connect = fake_connect
        try:
            self.ezsp = bellows.ezsp.EZSP({"path": "/dev/null", "baudrate": 115200, "flow_control": None})
            await self.ezsp.connect(use_thread=False)
        finally:
            bellows.uart.connect = orig
        self.ezsp._switch_protocol_version(self.version)
        self.ezsp.start_ezsp()
        self.cmds = ncp_ezsp.commands_of(self.version)
        self.by_id = {cid: n for n, (cid, _a, _b) in self.cmds.items()}
        self.ezsp.add_callback(self._cb)
        self.helper = ncp_ezsp.NcpEzsp(self.version, self.loop, deliver=None)
        return self

    # ---- observation
    def on_sent(self, data: bytes, mode):
        hdr = ncp_ezsp.parse_header(self.layout, data)
        self.sent_raw.append(data)
        if hdr is None:
            self.out.append({"o": "sent", "c": self._starting or 0, "cmd": "<misframed>", "seq": -1})
            return
        seq, fid, _payload = hdr
        self.out.append({"o": "sent", "c": self._starting_call(), "cmd": self.by_id.get(fid, f"id{fid}"), "seq": seq})

    _starting = None

    def _starting_call(self):
        # the call whose command() coroutine is running right now
        cur = asyncio.current_task()
        for c, t in self.tasks.items():
            if t is cur:
                return c
        return self._starting or 0

    def _cb(self, name, args):
        if name.startswith("_"):
            self.out.append({"o": "cb", "cmd": name, "val": 0})
            return
        self.out.append({"o": "cb", "cmd": name, "val": self._val(name, list(args))})

    def _val(self, name, result):
        try:
            if name in ("getNodeId",):
                return int(result[0])
            if name in ("readCounters", "readAndClearCounters"):
                return int(result[0][0])
            if name in ("sendUnicast", "sendMulticast", "sendBroadcast"):
                return int(result[1])
            if name == "getValue":
                return int(bytes(result[1])[0]) if result[1] else 0
            if name == "stackStatusHandler":
                return int(result[0]) & 0xFF
            if name == "echo":
                return int(bytes(result[0])[0]) if result[0] else 0
        except Exception:
            return -1
        return 0

    def values_for(self, name, val):
        """response values of `name` carrying token val (encoded with the version's schema)"""
        t = self.t
        rx = self.cmds[name][2]
        if name == "getNodeId":
            return [val]
        if name in ("readCounters", "readAndClearCounters"):
            ty = list(rx.values())[0]
            n = getattr(ty, "_length", None) or len(t.EmberCounterType)
            return [[val] + [0] * (n - 1)]
        if name in ("sendUnicast", "sendMulticast", "sendBroadcast"):
            st = list(rx.values())[0]
            return [st(0), val]
        if name == "getValue":
            st = list(rx.values())[0]
            return [st(0), bytes([val & 0xFF])]
        if name == "stackStatusHandler":
            st = list(rx.values())[0]
            return [st(val)]
        if name == "invalidCommand":
            return [t.EzspStatus.ERROR_INVALID_FRAME_ID]
        return [ncp_ezsp.zero_value(ty) for ty in rx.values()]

    async def settle(self):
        for _ in range(200):
            await asyncio.sleep(0)
            if not self.loop._ready:
                return
        raise RuntimeError("loop does not become idle")

    def _event(self, ev):
        ev["out"] = self.out
        ev["t"] = self.loop.ms
        ev.setdefault("modes", [])
        self.out = []
        self.trace.append(ev)
        return ev

    # ---- inputs
    async def call(self, c, cmd, modes=()):
        self.gw.modes = list(modes)
        helper = None
        if cmd.endswith(":helper"):
            # the version handler's composite method reached through the EZSP object (read_counters ...): it issues the command `cmd`
            cmd = cmd.split(":")[0]
            helper = {"readCounters": "read_counters", "readAndClearCounters": "read_and_clear_counters"}[cmd]

        async def run():
            t = self.t
            try:
                if cmd == "sendUnicast":
                    aps = t.EmberApsFrame(profileId=260, clusterId=6, sourceEndpoint=1, destinationEndpoint=1,
                                          options=t.EmberApsOption.APS_OPTION_RETRY, groupId=0, sequence=c & 0xFF)
                    r = await self.ezsp.send_unicast(nwk=t.NWK(0x1234), aps_frame=aps, message_tag=c & 0xFF, data=b"x")
                    val = int(r[1])
                elif cmd in ("sendMulticast", "sendBroadcast"):
                    aps = t.EmberApsFrame(profileId=260, clusterId=6, sourceEndpoint=1, destinationEndpoint=1,
                                          options=t.EmberApsOption.APS_OPTION_NONE, groupId=0x1234, sequence=c & 0xFF)
                    if cmd == "sendMulticast":
                        r = await self.ezsp.send_multicast(aps_frame=aps, radius=3, non_member_radius=3, message_tag=c & 0xFF, data=b"y")
                    else:
                        r = await self.ezsp.send_broadcast(address=t.BroadcastAddress.ALL_DEVICES, aps_frame=aps, radius=3, message_tag=c & 0xFF,
                                                           aps_sequence=c & 0xFF, data=b"z")
                    val = int(r[1])
                elif cmd == "getValue":
                    # the watchdog's free-buffer read; the argument is passed by keyword (as the watchdog does) or positionally
                    if c % 2:
                        r = await self.ezsp.getValue(valueId=t.EzspValueId.VALUE_FREE_BUFFERS)
                    else:
                        r = await self.ezsp.getValue(t.EzspValueId.VALUE_FREE_BUFFERS)
                    val = self._val(cmd, list(r))
                elif cmd == "version":
                    # the raw command (EZSP.version is the negotiation built on it), issued the way the negotiation issues it
                    r = await self.ezsp._command("version", desiredProtocolVersion=self.version)
                    val = 0
                elif helper is not None:
                    r = await getattr(self.ezsp, helper)()
                    val = int(list(r.values())[0])
                elif cmd in ("getNodeId", "readCounters", "readAndClearCounters", "nop"):
                    r = await getattr(self.ezsp, cmd)()
                    val = self._val(cmd, list(r))
                else:                      # any other command: arguments generated from its schema
                    import random
                    from .c07 import gen
                    rng = random.Random(c)
                    tx = self.cmds[cmd][1]
                    r = await getattr(self.ezsp, cmd)(*[gen(ty, rng) for ty in tx.values()])
                    val = self._val(cmd, list(r) if isinstance(r, (list, tuple)) else [r])
                self.out.append({"o": "done", "c": c, "res": "ok", "val": val})
            except asyncio.TimeoutError:
                self.out.append({"o": "done", "c": c, "res": "timeout", "val": 0})
            except asyncio.CancelledError:
                self.out.append({"o": "done", "c": c, "res": "cancelled", "val": 0})
            except Exception as e:  # noqa
                import bellows.ash as ash
                from bellows.exception import InvalidCommandError
                if isinstance(e, ash.NcpFailure):
                    res = "linkfail"
                elif isinstance(e, InvalidCommandError):
                    res = "invalid"
                else:
                    res = "exc:" + type(e).__name__
                self.out.append({"o": "done", "c": c, "res": res, "val": 0})
        self._starting = c
        self.tasks[c] = asyncio.Task(run(), loop=self.loop, eager_start=True)
        self._starting = None
        await self.settle()
        ev = self._event({"a": "call", "c": c, "cmd": cmd, "modes": list(modes)})
        self.gw.modes = []
        return ev

    async def frame(self, seq, cmd, val, modes=(), raw=None, kind="frame"):
        self.gw.modes = list(modes)
        if raw is None and cmd not in ("getNodeId", "readCounters", "readAndClearCounters", "sendUnicast", "sendMulticast", "sendBroadcast", "stackStatusHandler", "getValue"):
            val = 0                           # no payload slot that could carry a token
        data = raw if raw is not None else self.helper.encode(self.layout, seq, cmd, self.values_for(cmd, val))
        raised = 0
        try:
            self.ezsp.frame_received(data)
        except BaseException as e:  # noqa
            raised = 1
            self.out.append({"o": "raised", "exc": type(e).__name__})
        await self.settle()
        ev = self._event({"a": kind, "seq": seq, "cmd": cmd, "val": val, "modes": list(modes), "raised": raised,
                          "raw": list(data)})
        self.gw.modes = []
        return ev

    async def swap(self):
        """the protocol handler is replaced through the public EZSP.reset(): legacy handler, fresh sequence numbers and registrations"""
        raised = 0
        try:
            await self.ezsp.reset()
        except BaseException as e:  # noqa
            raised = 1
            self.out.append({"o": "raised", "exc": type(e).__name__})
        await self.settle()
        self.version = 4
        self.layout = ncp_ezsp.layout_of(4)
        self.cmds = ncp_ezsp.commands_of(4)
        self.by_id = {cid: n for n, (cid, _a, _b) in self.cmds.items()}
        self.helper = ncp_ezsp.NcpEzsp(4, self.loop, deliver=None)
        return self._event({"a": "swap", "raised": raised})

    def next_timer(self):
        ws = [h._when for h in self.loop._scheduled if not h._cancelled]
        return min(ws) if ws else None

    async def tick(self, modes=()):
        when = self.next_timer()
        if when is None:
            return None
        self.gw.modes = list(modes)
        self.loop._vnow = max(self.loop._vnow, when)
        await self.settle()
        ev = self._event({"a": "tick", "modes": list(modes)})
        self.gw.modes = []
        return ev

    async def advance(self, ms):
        """let virtual time pass; timers that fall due on the way fire as recorded ticks"""
        target = self.loop._vnow + ms / 1000.0
        evs = []
        while True:
            when = self.next_timer()
            if when is None or when > target + 1e-9:
                break
            evs.append(await self.tick())
        self.loop._vnow = max(self.loop._vnow, target)
        return evs

    async def cancel(self, c, modes=()):
        t = self.tasks.get(c)
        if t is None or t.done():
            return None
        self.gw.modes = list(modes)
        t.cancel()
        await self.settle()
        ev = self._event({"a": "cancel", "c": c, "modes": list(modes)})
        self.gw.modes = []
        return ev

    async def sendres(self, ok, modes=()):
        if self.gw.pending is None:
            return None
        self.gw.modes = list(modes)
        if ok:
            self.gw.pending.set_result(None)
        else:
            import bellows.ash as ash
            self.gw.pending.set_exception(ash.NcpFailure(self.t.NcpResetCode.ERROR_EXCEEDED_MAXIMUM_ACK_TIMEOUT_COUNT))
        await self.settle()
        ev = self._event({"a": "sendres", "ok": 1 if ok else 0, "modes": list(modes)})
        self.gw.modes = []
        return ev

    async def end(self):
        for _ in range(64):
            if self.gw.pending is not None:
                await self.sendres(True)
                continue
            if self.next_timer() is None:
                break
            await self.tick()
        await self.settle()
        pending = sorted(c for c, t in self.tasks.items() if not t.done())
        return self._event({"a": "end", "pending": pending})


def run_script(version, script):
    async def main(loop):
        rig = await EzspRig(loop, version).start()
        await script(rig)
        if not rig.trace or rig.trace[-1]["a"] != "end":
            await rig.end()
        return rig.trace
    return vloop.run(main)
