"""Per-property manifest metadata.  bin/mkmanifest renders MANIFEST.json from this."""

CHECKS = {
    "C03": dict(
        text="spec/AshCodec.tla is an ASH codec written from the protocol text (control bytes, LFSR randomisation, "
             "CRC-CCITT, stuffing) and anchored to the documented example frames. TLC checks it against itself "
             "(AshCodecMC: parse inverts encode, stuffing leaves no reserved byte but ESC, control-byte classes partition "
             "0..255, every 1- and 2-bit corruption of every enumerated frame is rejected) and then judges vectors "
             "recorded from the real bellows.ash code (to_bytes, bytes given to transport.write by _write_frame, "
             "parse_frame verdicts, _stuff_bytes/_unstuff_bytes) over the property's domain via Trace_AshCodec.",
        design_ref="3/C03",
        note="Input-quantified codec property: no interesting state space, the TLA+ text is the independent reference and "
             "TLC evaluates it on the enumerated domain. Trusted: the ASH text as transcribed (anchored by example frames).",
        technique="TLA+ reference codec evaluated by TLC on enumerated vectors from the implementation (trace validation) + TLC self-consistency check of the codec spec",
    ),
    "C15": dict(
        text="TLC explores spec/Multicast.tla exhaustively (all initial tables with each group at most once, "
             "N<=3 quick / N<=4 thorough, 3 groups, answers ok/reject/timeout) checking Mirror, FreeMirror, "
             "FullFails, Idempotent, FailedCallKeepsFree; every (state, operation, answer) transition of the "
             "dumped state graph is executed on the real Multicast object and every execution (plus seeded "
             "random histories beyond the bounds) is validated by TLC against Trace_Multicast with the observed "
             "status, table write, NCP table and behaviourally probed host view bound at each step.",
        design_ref="3/C15",
        note="Trusted: command-level simulated NCP (does not apply rejected/timed-out writes), deep-copy "
             "behavioural probes of the host view, TLC.",
        technique="TLA+ spec + TLC exhaustive model check; state-graph edge cover replayed into the code; TLC trace validation",
    ),
}

PENDING_REASON = "check not built yet in this round (planned in DESIGN.md section 3); nothing is claimed for it"
