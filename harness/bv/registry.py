"""Per-property manifest metadata.  bin/mkmanifest renders MANIFEST.json from this."""

CHECKS = {
    "C14": dict(
        text="spec/NetInfo.tla is the contract over one write / read run: the initial security state sent to the NCP carries exactly the "
             "supplied network key, sequence number, trust-centre address and link key (hashed form from version 5 on) with presence "
             "flags matching the supplied fields; the NCP store after the write holds the settings; reading back returns PAN ID, extended "
             "PAN ID, channel, mask, update ID, network key + sequence, link key (+ hashed form), link-key table as a set of (key, "
             "partner), and - where the version can store them - the network-key frame counter (5+) and the child table (9+); counters "
             "are written before forming, keys / children / security before forming; the node's own address is read back as the NCP runs with it, "
             "is the supplied one wherever the NCP can take it (rewritable token from version 9 on, or permission to burn the blank write-once "
             "token), and a trust centre that is the node itself is named by the address the NCP really runs with - also when the same backup "
             "is restored twice (addresses take effect at the NCP's next reset). NetInfoMC shows the contract satisfiable by the "
             "intended procedure for versions 4..14 and that lost keys / late counters are caught. The real write_network_info + "
             "load_network_info(load_devices=True) run for every version 4..14 x NCP capability against the simulated NCP store with "
             "generated settings (12 quick / 300 thorough per version); TLC judges each run (Trace_NetInfo)."
             " Children may carry reserved network addresses; after the round trip the child in the lowest slot leaves and the settings are read again (ReadMatchesStore)."
             " The NCP may start off-network but still holding link keys of an earlier network."
             " Link-key entries may carry the trust-centre link key itself. Two reads that overlap in time (the second lagging 0..15 commands behind the first) each report what a read on its own reports (OverlapReads).",
        design_ref="3/C14",
        note="Trusted: compat shim, simulated NCP store (ncp_netinfo.py) answering ~30 commands in every version's result shapes. From "
             "version 5 on only the well-known link key round-trips (stated limitation of bellows). One defect found and fixed (v14 "
             "link-key read-back).",
        technique="TLA+ contract specification evaluated by TLC on recorded write/read runs of the implementation (trace validation) + TLC satisfiability check of the intended procedure",
    ),
    "C20": dict(
        text="spec/ThreadProxy.tla states what a proxied call does at once (refused for a non-callable attribute, direct call on the owner's "
             "own loop, dropped without running when the owner's loop is closed, otherwise queued with a plain call returning nothing) "
             "and what a coroutine caller finally receives; ThreadProxyMC explores owner loop || caller for every method kind from either "
             "loop with the owner's loop closing at any moment (executed only on the owner, exact relay, dropped never runs). The real "
             "ThreadsafeProxy runs with REAL threads: every method kind x caller loop {owner, other thread} x owner state {running, "
             "closed}, and bursts of 10 and 40/100 concurrent mixed calls, repeated; each thread writes its own log (thread identity "
             "recorded inside the wrapped method) and TLC searches for an interleaving of the two logs that the specification allows "
             "(Trace_ThreadProxy: executed once, on the owner's thread, only after being invoked; each coroutine caller gets exactly its "
             "own call's value or exception; plain calls return nothing; dropped and refused calls never run; nothing blocks). The loop on which "
             "the proxy attribute was looked up is a free parameter of the model (it has no influence): bound wrappers fetched on one loop and "
             "invoked from the other are part of every scenario family."
             " Owner-loop states: running, open but not started yet (the calls are queued and run once it starts), closed; owner either a plain thread or bellows' EventLoopThread (start / force_stop with calls in flight)."
             " What the owner's loop reports for a queued plain call is part of the model (a call handing back any value - also 0 / False / empty - is reported as a TypeError); kinds include plain methods returning falsy values and a plain function wrapping a coroutine function."
             " Kinds include instance attributes shadowing class methods of the other kind."
             " Coroutine calls whose result is never awaited are executed all the same (coroForget). Keyword-argument calls and coroutines nobody awaits (their failure must reach the loop's exception handler) are among the call kinds.",
        design_ref="3/C20",
        note="Real OS threads: schedules are sampled, not enumerated; the verdict depends only on per-thread order, never on wall-clock "
             "order across threads (generous wall-clock limits only detect blocking). A stopped-but-not-closed loop is outside the property.",
        technique="TLA+ spec + TLC model check; two-log trace validation (TLC searches the interleaving) of real-thread executions of the implementation",
    ),
    "C17": dict(
        text="spec/EventOps.tla models the event-completed operations as step functions (listener / callback registered before the command "
             "is issued; the matching stack-status event counts from then on, also before the command's own response; refusal, command "
             "timeout and operation timeout raise; scans collect result callbacks between issue and completion, also when the completion "
             "overtakes the response). EventOpsMC explores every order of the environment's events, incl. events before the operation is "
             "issued: completes only on command success + matching event after issue, never misses such an event, refusal raises. Every "
             "ordered selection of {response (ok / refusal statuses in rotation / not-joined), matching event, non-matching event, "
             "timeout} and every order of {response, two results, completion} is executed on the real EZSP.formNetwork, leaveNetwork, "
             "startScan and ControllerApplication._ensure_network_running (versions 8, 4, 14 quick / 4..14 thorough) in virtual time with "
             "the harness as NCP, each ended by timeout, cancellation or a further event (scans: cancellation / command timeout after every "
             "prefix of every event order, then late frames and a further scan), plus repeated operations; TLC validates outcome, "
             "exact timeout instant, scan results and that listener / callback bookkeeping is back to its prior size after every operation."
             " Every refusal status of the command's status family is used in turn for scan / form / leave, followed by another operation's events."
             " spec/StatusWaiters.tla models the listener registry under several waiters at once (also waiters that stay inside their block after their event): model-checked (NoMiss, NoSpurious) and bound to 2..3 concurrent wait_for_stack_status blocks of the real EZSP in every order of events, cancellations and timeouts."
             " spec/CbRegistry.tla: the callback registry under every short order of registrations, removals and frames (an id handed out is never the id of a registration in force; fan-out to exactly the registrations in force)."
             " NOT_JOINED is one of the refusals of form / leave.",
        design_ref="3/C17",
        note="Trusted: compat shim (bring-up), fake gateway + NcpEzsp encoder, virtual time. Residue is read from EZSP._stack_status_listeners "
             "and EZSP._callbacks (the bookkeeping the property names). A scan has no timeout of its own in the code and none is claimed.",
        technique="TLA+ spec + TLC exhaustive model check of all event orders; the same orders executed on the implementation in virtual time; TLC trace validation",
    ),
    "C13": dict(
        text="spec/Incoming.tla is the mapping specification: an incoming-message callback of type unicast / multicast / broadcast yields "
             "exactly one packet with source, endpoints, profile, cluster, APS sequence, payload, LQI and signed RSSI of the callback and "
             "a destination by type (own address / group ID / broadcast), every other type none; a trust-centre join callback yields a "
             "leave for a departure, nothing for a denied join, else a join with addresses and parent; the pre-v14 and v14 wire field "
             "orders are pinned. IncomingMC checks totality over all 256 type / status / decision bytes. For every version 4..14 the "
             "harness's own byte-level encoder builds the callback frames (120 quick / 1500 thorough incoming messages incl. all message "
             "types, payload lengths 0..100, RSSI extremes; all status x decision combinations) in the version's field order and header "
             "layout and feeds them through EZSP.frame_received into the real ControllerApplication; TLC judges what zigpy received."
             " Defined message types make up half of the generated callbacks; earlier callbacks are repeated (identical, or sharing sender and APS sequence) between other traffic: every callback yields its own packet."
             " The same callbacks are also fed to applications brought up by their own connect() / start_network() - first, second and third connection of one application object - and NCP versions 15 / 16 are included."
             " The node's own address changes during the runs.",
        design_ref="3/C13",
        note="Input-quantified mapping; the TLA+ text is the independent reference and TLC the evaluator. Trusted: compat shim, the "
             "harness's encoder (frame IDs, field orders and enum codes pinned from the EZSP reference), instance-level wrappers of "
             "packet_received / handle_join / handle_leave.",
        technique="TLA+ mapping specification evaluated by TLC on callbacks encoded independently and fed to the implementation (trace validation) + TLC totality check",
    ),
    "C12": dict(
        text="spec/SendPacket.tla is an observer over send_packet runs with every clause an enabling condition: a request returns normally "
             "only after the NCP accepted it and (unicast) a confirmation for its own destination and tag reported success; refusal, "
             "busy after the configured number of spaced attempts, or a failed confirmation raise a delivery error; no confirmation "
             "within the timeout raises a timeout at exactly that instant; foreign, duplicate and unsolicited confirmations change "
             "nothing; same tag on every attempt, bounded attempts, retry spacing; set-up commands for one target are followed only by "
             "that target's set-up and send; nothing pending remains. SendPacketMC checks an abstract model of send_packet (request lock, "
             "retry, bounded wait) for two concurrent requests against arbitrary NCP answers and confirmations (345k states). The real "
             "ControllerApplication.send_packet runs over the real EZSP for versions 4..14 against the simulated NCP: unicasts (plain, "
             "source route, extended timeout, IEEE-addressed) x 6 enqueue-status sequences x 10 confirmation patterns, concurrent and "
             "staggered mixes with multicast / broadcast and unsolicited confirmations, random mixes; TLC validates each run."
             " NCP versions 15 and 16 (newest known tables) are included."
             " With an NCP that takes 10 ms over every set-up command the caller is cancelled between two set-up commands while other requests wait for the lock: a block ends with its request, and set-up commands are only accepted on behalf of a request in progress."
             " Version-14 confirmations also carry 16-bit tags that differ from the pending one only above the low byte. An NCP that takes 800 ms over every send command: retries are spaced from the busy answer, not from the call.",
        design_ref="3/C12",
        note="Trusted: zigpy.util.Requests shim (compat.py), simulated EZSP NCP (enqueue answers; messageSentHandler in the version's "
             "field order), virtual time. RETRY_DELAYS and APS_ACK_TIMEOUT read from the tree (configuration).",
        technique="TLA+ observer spec + abstract model checked by TLC; enumerated and random concurrent scenarios executed on the implementation in virtual time; TLC trace validation",
    ),
    "C10": dict(
        text="spec/Failure.tla abstracts the vertical slice AshProtocol / Gateway / EZSP / application callback to what the property talks "
             "about (failure time and kind, when the EZSP layer learnt of it and asked for a controller reset, request count, calls in "
             "progress, deliberate close) with every clause an enabling condition; FailureMC enables every failure kind in every state "
             "of an abstract model of the slice and checks reporting, stopping, no request on close / when unregistered, and that every "
             "call ends (liveness under fair timers). The real stack (EZSP over uart.connect, Gateway, AshProtocol on a fake serial line "
             "vs. the simulated NCP, versions 8 and 4 quick / + 13, 14 thorough) runs 5 workloads (idle, one command, one in flight + "
             "two queued, EZSP.reset() in progress, command issued after the failure); ERROR(code), unsolicited RSTACK(code), silent NCP, "
             "connection_lost(exc), EOF and deliberate close are injected after every wire event of the fault-free run, as their own "
             "event-loop callback and queued right behind the event, with and without a registered callback; TLC judges each run "
             "(request delivered, no write once known, termination within command + link timeouts, probe command refused without a write, "
             "nothing escaping a protocol callback, nothing left pending). In addition the concrete composition spec/Stack.tla (EzspCmd over "
             "Gateway over AshHost, glued as the code glues them) is model-checked in StackMC against a faulty line and a conforming NCP "
             "that may send an ERROR frame or lose the connection at any moment: EZSP stopped and silent after the request, request only "
             "on failure, and (liveness, fair timers and line) every issued call returns or raises; runs of the real full stack with every "
             "failure kind after each of the first wire steps (registered or not) and random fault / failure schedules on versions 4..14 "
             "must be behaviours of the composed model (Trace_Stack, SilentAfterRequest / StoppedAfterRequest on every state)."
             " Workloads include a list command (scan) in progress, a command after a completed scan, and an NCP silent from the start; failure kinds include a deliberate close on a transport that reports the closed connection late."
             " In the silent workload the caller of the command in flight may give up before the link does: the link's verdict must still reach the application. A one-shot listener (a scan's registration that removes itself on its terminal event) is one of the workloads; a request made just before a silent failure is part of the end clause.",
        design_ref="3/C10",
        note="Trusted: full-stack rig (fake serial transport that stops delivering reads once closed, simulated ASH + EZSP NCP), virtual "
             "time. A silent NCP is noticed only when something is sent (the harness issues the keep-alive a watchdog would); an "
             "unanswered RST is reported by reset() itself (C11). The InvalidStateError defect fixed under C11 also affected C10.",
        technique="TLA+ observer spec + abstract model checked by TLC (safety and liveness); crash-point enumeration on the full implementation stack in virtual time; TLC trace validation",
    ),
    "C09": dict(
        text="spec/Bringup.tla states the negotiation contract from the NCP's EZSP layer (after each NCP reset: first frame is the legacy "
             "3-byte version query for version 4; if the NCP is not version 4 the next frame is a version query in the NCP's native "
             "layout for exactly its version; every later frame is in that layout) and which tables the host must adopt (own for 4..14, "
             "newest above). BringupMC checks the host's negotiation logic (startup_reset incl. the socket start-up wait, version, "
             "handler switch, reset falling back to v4) against it for versions 4..16 and 200. The real stack (EZSP over the real "
             "uart.connect, Gateway and AshProtocol on a fake serial line, simulated ASH NCP carrying a simulated EZSP NCP) is run for 14 "
             "NCP versions x serial / socket:// paths x start-up reset absent / in the wait window / late / with the host's RST still "
             "unread x line-fault schedules x NCP windows 1..3 through startup_reset, write_config, a second reset, version and a "
             "command; TLC validates the frames seen by the NCP's EZSP layer and every stage outcome (Trace_Bringup)."
             " Besides raw commands, composite operations of the version's protocol handler (read_counters, read_and_clear_counters) are issued after bring-up and again after a later reset + negotiation (every frame for that version, also through previously used entry points)."
             " socket:// runs also have the start-up reset announced before anybody waits; every run contains a second, application-style start-up (stop, startup_reset, write_config) before or after the explicit reset, and Trace_Bringup requires every start-up / reset to have performed the reset handshake."
             " A serial NCP may miss the first RST altogether (that start-up ends in the reset timeout; the retry on the same object must perform the handshake).",
        design_ref="3/C09",
        note="Trusted: simulated ASH NCP (validated against AshNcp.tla in C01) and EZSP NCP; faults hit DATA/ACK/NAK only (bellows does not "
             "retransmit RST). One defect fixed (KeyError for version >= 15); one known finding listed in known_findings.json (start-up "
             "reset announced while the host's RST is unread: frame number 0 used twice, bring-up times out).",
        technique="TLA+ contract + host-logic model checked by TLC; full-stack runs of the implementation against simulated NCPs validated as traces by TLC",
    ),
    "C11": dict(
        text="spec/Gateway.tla models bellows.uart.Gateway on top of AshHost.tla at event-loop-callback granularity (reset waiter and "
             "start-up waiter each none / pending / resolved-but-not-yet-resumed, callers joining a reset in progress, reset timeout, "
             "reset-code triage, connection loss / clean close). GatewayMC checks that a reset completes only on the software-reset "
             "acknowledgement, other codes and ERROR are reported as failures, waiters are released on loss (also in the iteration that "
             "resolved one) and a second request writes no second RST. The real Gateway + AshProtocol on a fake serial transport run in "
             "virtual time through RSTACK (16 codes quick / all 256 thorough) and ERROR frames x 7 arrival patterns after prior traffic "
             "leaving the counters anywhere in 0..7, followed by a send and a DATA frame numbered 0, with the connection lost before every "
             "step (error, clean close, EOF) or queued right behind every read; TLC validates each run against Trace_Gateway "
             "(CANCEL-prefixed RST, outcome and exact time of reset()/wait_for_startup_reset(), application notices, numbering on the wire)."
             " Arrival patterns include a DATA frame in flight when the reset is requested (its acknowledgement and the RSTACK in one read / two reads)."
             " A second reset is requested shortly before the instant at which the first (answered) one would have timed out, its answer arriving shortly after that instant.",
        design_ref="3/C11",
        note="Trusted: fake serial transport (close() reports connection_lost(None) from the loop), virtual time, ashref.py. A caller that "
             "joins a reset in progress may see a cancellation instead of the timeout (latitude; the code logs such a request as an error). "
             "Found and fixed one defect (InvalidStateError in Gateway.connection_lost).",
        technique="TLA+ spec + TLC exhaustive model check; enumerated schedules with crash points executed on the implementation in virtual time; TLC trace validation",
    ),
    "C08": dict(
        text="The `mal` step of Trace_EzspCmd (on top of EzspCmd.tla and the header layouts of EzspCodec.tla) states what arbitrary bytes "
             "arriving as an EZSP frame may do: nothing; drop a registration with their sequence number; reach the callbacks exactly once "
             "only if they carry a frame ID of the active version, one value per declared field is handed over and the payload starts with "
             "the encoding of those values; complete the pending call only under that call's own sequence number AND frame ID; never raise. "
             "For every protocol version 4..14, with and without a pending command, the real EZSP.frame_received is fed valid responses "
             "and callbacks of up to 12 commands mutated by truncation at every length, a byte flip at every position, frame-ID and "
             "sequence substitution, surplus bytes, and random byte strings (120 quick / 3000 thorough per version); each run continues "
             "with the pending call's real reply and a probe command that must complete; TLC validates each run."
             " A handler swap (EZSP.reset() -> legacy handler) with a call still waiting is part of EzspCmd.tla (SwapFn: the orphaned call ends by its own timeout, nothing may complete it); legacy frames under the orphan's number are fed, above all the v4 command owning the same numeric ID; `version` (frame ID 0) is one of the pending commands.",
        design_ref="3/C08",
        note="Trusted: EzspRig (fake gateway, virtual time). 'Decodes fully' is judged by re-encoding the delivered values with the schema "
             "types' own serialisers (TLC checks count, ID and prefix); surplus bytes after a decodable payload are tolerated.",
        technique="TLA+ spec (EzspCmd + mal step) with TLC trace validation of systematically mutated frames fed to the implementation",
    ),
    "C07": dict(
        text="spec/EzspCodec.tla pins which of the three header layouts each protocol version uses and the structural rules of the codec: "
             "frame IDs and names unique per version and within the layout's ID range, a call writes sequence number, frame control and ID "
             "in the version's layout followed by the argument encodings in declared order (positional calls, keyword calls in declared, reverse and "
             "shuffled order and positional-prefix + keyword calls all identical), and a "
             "value tuple fed through the receive path comes out exactly once, under the right name, as result if a call is pending and to "
             "the callbacks otherwise, equal to what was encoded with nothing left over. EzspCodecMC checks the layouts against each "
             "other for versions 4..16. For all 11 versions and every command (about 2,900 pairs, 1 sample quick / 8 thorough, values "
             "generated from the schema types incl. boundaries, undefined enum values, empty/long variable-length fields) the events are "
             "recorded from the real call path (EZSP._command -> gateway.send_data) and the real receive path (EZSP.frame_received) "
             "and judged by TLC (Trace_EzspCodec)."
             " Values leave trailing optional struct fields out; arguments are also passed in other representations the declared type accepts (plain ints / bytes / lists, instances of a subclass with another wire format).",
        design_ref="3/C07",
        note="Weak fit for TLA+: the specification decides order, framing, identity, uniqueness and round-trip equality; the byte encoding of "
             "individual field values is produced by the field types themselves (the property is the consistency of the codec pair). "
             "Found and fixed one defect (tuple schemas of gpTranslationTableClear, v12-v14).",
        technique="TLA+ structural codec specification evaluated by TLC on events recorded from the implementation for every version x command (trace validation)",
    ),
    "C06": dict(
        text="spec/EzspCmd.tla models the command multiplexer per handler lifetime (register-then-send under a single slot with a "
             "priority queue, bounded wait, reply/callback demultiplexing by sequence number, stale registrations, responses overtaking "
             "the link-level send). EzspCmdMC explores 3 (quick) / 3-4 (thorough) concurrent callers of mixed priority with NCP replies "
             "(late, duplicate, misnumbered), callbacks, link failures/delays, cancellation and SeqMod 4: own response only, one in "
             "flight, sequence +1, queue sorted by (class, arrival), slot never idle with waiters. The real EZSP + ProtocolHandler of "
             "versions 4..14 run on a fake gateway in virtual time: a blocker plus every triple of callers from the three priority "
             "classes x every sequence of 2 (quick) / 3 (thorough) of 13 environment reactions, and random runs of 600 commands "
             "wrapping the sequence number twice; TLC validates each run against Trace_EzspCmd (frames handed to the link with "
             "sequence/ID decoded by the harness's own header decoder, outcome and time of each call, callback deliveries). "
             "End to end: spec/Stack.tla composes EzspCmd, Gateway and AshHost (unchanged) with the glue the code has between them; "
             "StackMC runs it against a faulty line and a conforming ASH + EZSP NCP (own response only, NCP sees requests in hand-over "
             "order at most once, callbacks at most once, the code's frame handling refines EzspCmd's alternatives; 0.4-1.1 M states "
             "per configuration, cancellation included), and runs of the real full stack (EZSP / uart.connect / Gateway / AshProtocol "
             "on a fake serial line, versions 4..14, per-frame faults in both directions, back-to-back reads, timers, callbacks, "
             "cancellations, silent NCP, re-negotiation) must be behaviours of the composed model (Trace_Stack; a binding self-test "
             "corrupts recorded fields and requires rejection)."
             " Sequence-number reuse: a call times out, 255 further commands complete, the next call goes out under the same number and its reply arrives late but within its own timeout (12 timings). A loop timer that fires with nothing observable and no model timeout due is stuttering."
             " Composite methods of the version's handler reached through the EZSP object are used before and after the handler is replaced by EZSP.reset().",
        design_ref="3/C06",
        note="Trusted: fake gateway, virtual-time loop, zigpy's priority semaphore is part of the implementation under test. Per handler "
             "lifetime (a version switch or reset replaces the handler; that is C09). Latitude: a reply hitting a stale registration may be "
             "dropped or handed to the callbacks once; getValue / set-up commands' class is not pinned by the property.",
        technique="TLA+ spec + TLC exhaustive model check; enumerated and random scripts executed on the implementation in virtual time; TLC trace validation",
    ),
    "C16": dict(
        text="spec/ConfigWrite.tla states the contract over the ordered set operations the NCP sees (each setting at most once; a "
             "user value exactly as given; nothing for a disabled setting; bellows' own defaults never below the reported value for "
             "capacity settings pinned by name; packet-buffer count after every other setting; every applicable setting attempted "
             "whatever the NCP answered; normal return). ConfigWriteMC shows the contract satisfiable for all 248,832 abstract inputs "
             "(5 representative settings x reported value x override) and that mis-ordered / shrinking writes violate the right clause. "
             "The real EZSP.write_config runs for every version 4..14 against the simulated NCP with generated reported values, "
             "override sets drawn from the version's whole schema, disabled settings and 20% rejected settings (60 quick / 1500 "
             "thorough per version + corner cases); TLC evaluates the contract on each recorded run (Trace_ConfigWrite)."
             " Every setting of every version's schema is disabled once and overridden once with the smallest and the largest accepted candidate. The status of a refusal is the firmware's choice (invalid value, invalid id, invalid call, out of memory) and a case element.",
        design_ref="3/C16",
        note="Trusted: simulated EZSP NCP (configuration store). Bellows' default table is read from the tree as configuration; "
             "capacity settings are pinned in the spec. Found and fixed three defects (known_findings.json: fixed).",
        technique="TLA+ contract specification evaluated by TLC on recorded runs of the implementation (trace validation) + TLC satisfiability check over all abstract inputs",
    ),
    "C18": dict(
        text="spec/StatusMap.tla states the normalisation as a total relation with numeric codes pinned from the EmberZNet headers "
             "(unified passes through; OK iff the family's success code; the steering codes NOT_JOINED, NETWORK_UP/DOWN, "
             "TABLE_ENTRY_ERASED, INDEX_OUT_OF_RANGE, MAX_MESSAGE_LIMIT_REACHED, NETWORK_BUSY, NO_BUFFERS, DELIVERY_FAILED map to their "
             "unified counterparts; every other code to some non-OK status). TLC checks the relation is total and allows OK only for "
             "success (StatusMapMC, the 8-bit families are the whole state space) and judges the real sl_Status.from_ember_status on "
             "all 2 x 256 family values, every defined unified status and 68 undefined 32-bit samples (Trace_StatusMap).",
        design_ref="3/C18",
        note="Thin use of the technique: an input-quantified total mapping; the specification is an independent table and TLC the evaluator. "
             "Exhaustive over the 8-bit families. Unified samples are below 2^31 (TLC integers).",
        technique="TLA+ relational reference evaluated by TLC on the exhaustively enumerated domain (trace validation) + TLC totality check",
    ),
    "C19": dict(
        text="spec/Watchdog.tla (failure counter, feed counter, version class, keep-alive choice, history) is model-checked for all outcome "
             "sequences up to the bound: a feed raises iff the trailing run of failures exceeds the tolerated maximum, success clears the "
             "count, no-op on v4 and counter read otherwise with read-and-clear on the period. Every success/timeout/EZSP-error sequence of "
             "length 7 (quick) / 9 (thorough) for both version classes, sequences across the counter-clear boundary (after 177..181 "
             "successful feeds, incl. a failing free-buffer read) and sequences through zigpy's watchdog loop are executed on the real "
             "ControllerApplication._watchdog_feed (real EZSP, simulated NCP, virtual time) and validated by TLC against Trace_Watchdog "
             "(raise/return, exception class, keep-alive command seen by the NCP, connection_lost iff raised)."
             " Restart-length failure runs are started 7..0 feeds before the first and the second periodic read-and-clear feed."
             " Counter reads may carry fewer or more values than the host has counter types (1 / 40 / 43 / 60)."
             " Frames the NCP sends on its own between feeds are no keep-alive outcome (callback step). Feeds that are cancelled mid-way are a step (the counter is unchanged by them).",
        design_ref="3/C19",
        note="Trusted: zigpy.util.Requests shim (compat.py), simulated EZSP NCP, virtual-time loop. MAX_WATCHDOG_FAILURES and the clear period "
             "are read from the tree as configuration.",
        technique="TLA+ spec + TLC exhaustive model check; exhaustive outcome-sequence enumeration on the implementation; TLC trace validation",
    ),
    "C01": dict(
        text="spec/AshLink.tla composes the host as bellows implements it (AshHost.tla, fine-grained: receive, ACK timer, task resume, "
             "next waiter, caller cancellation) with a faulty FIFO line (deliver, drop, corrupt, duplicate, stall via timers, budgeted) "
             "and a specification-conforming NCP (AshNcp.tla: window 1..3, cumulative ACKs, reject condition, retransmit-all). TLC checks "
             "exhaustively (millions of states per configuration, counters starting at 0/0 and 7/6) that what each side hands up is an "
             "in-order duplicate-free subsequence of what the other submitted, that an ok send was delivered exactly once, a failed one at "
             "most once, that NCP-acknowledged frames were handed up, and that cancellation changes no link state. The real AshProtocol "
             "then runs against the simulated NCP over the faulty line along TLC-simulated behaviours, every assignment of 5 line "
             "behaviours to the first 4 (quick) / 6 (thorough) serviced frames for windows 1..3, and long random fault runs with "
             "cancellations; TLC validates each run against Trace_AshLink (host steps vs AshHost, NCP steps vs AshNcp, FIFO line "
             "consistency) with the delivery invariants evaluated on every state."
             " The line may also stall the copy of a duplicated frame on its own (hold / release: the copy arrives after up to HoldSpan later frames of its direction) - in the model (two configurations), the simulated behaviours, the fault policies and the random runs. The host's serial transport may raise out of a DATA write (HArm): the send ends with that error, a retransmission's frame number stays spent (its first copy may have been accepted); whether a first transmission's number is given back is a per-host policy and AshLink is checked for both.",
        design_ref="3/C01",
        note="Trusted: simulated NCP (transcription of AshNcp.tla, each of its steps validated against that spec in the same traces), "
             "FIFO line with detectable corruption (real bit flips; the host's own CRC rejects them), virtual-time loop, ashref.py.",
        technique="TLA+ spec + TLC exhaustive model check of host||line||NCP; TLC-simulated behaviours and enumerated fault assignments replayed into the code; TLC trace validation",
    ),
    "C02": dict(
        text="spec/AshRx.tla is the reference decoder of the receive path, one byte per step (flag, cancel, substitute, XON/XOFF, "
             "unstuffing with reserved-value check, CRC/length checks from AshCodec.tla, frame handling from AshHost.tla). AshRxMC "
             "checks on the spec that nothing is delivered upward unless the candidate between two flags unstuffs and parses. The real "
             "AshProtocol.data_received is fed every stream of up to 4 (quick) / 5 (thorough) symbols over 9 reserved-rich bytes + 3 "
             "whole valid frames under all 2^(n-1) chunkings, random mutated concatenations of valid frames (flipped, deleted, "
             "inserted, over-stuffed bytes) under random chunkings, and 8/64 MB of flag-free garbage under tracemalloc; TLC validates "
             "every recorded trace against Trace_AshRx (same upward calls, same ACK/NAK numbers, nothing raised, memory inequality)."
             " Length checks: a DATA candidate whose data field lies outside the ASH text's 3..128 bytes is discarded or handled whole (both are behaviours of the reference decoder; bellows handles up to 256 bytes) - valid-CRC frames of 0..900 data bytes are part of the enumerated streams, so a truncated hand-over is rejected.",
        design_ref="3/C02",
        note="Trusted: tracemalloc measurement for the memory clause (TLC only decides the inequality); reads + residue stay below the "
             "receive-buffer bound as the property's quantifier says. Surplus data in ACK/NAK and DATA lengths outside 3..128 are accepted (latitude).",
        technique="TLA+ reference decoder + TLC model check of the decoder; exhaustive short streams x all chunkings and random streams from the implementation validated as traces by TLC",
    ),
    "C04": dict(
        text="spec/AshHost.tla models the host's frame handling at event-loop-callback granularity. AshHostOpenMC puts it "
             "against an open peer: TLC checks, in every reachable state and for every frame of the alphabet, that a DATA frame "
             "is handed up iff it carries the next expected number, is answered by exactly one ACK/NAK with the next expected "
             "number (ACK if accepted), that RSTACK zeroes both counters and reports its code, ERROR reports its code and "
             "ACK/NAK/RST deliver nothing. Every edge of TLC's state graph is replayed on the real AshProtocol; all frame "
             "sequences up to length 2 (quick) / 3 (thorough) from each of the 8 expected-number states, all 256 reset/error "
             "codes and long random sequences are recorded from the real code and validated by TLC against Trace_AshHost, "
             "with an observer that knows only the received frames evaluated on every state."
             " The rig's upper layer can be told to raise while consuming a delivery: the frame stays accepted and acknowledged exactly once, and nothing else may escape the receive callback (NoRaise).",
        design_ref="3/C04",
        note="Trusted: ashref.py encodes the peer's frames and decodes the host's writes (validated against AshCodec.tla in C03); "
             "well-formed frames only. ACK vs NAK for a non-accepted frame and the flow-control bits are left open, as the property does.",
        technique="TLA+ spec + TLC exhaustive model check; state-graph edge cover replayed into the code; TLC trace validation of enumerated and random executions",
    ),
    "C05": dict(
        text="AshHost5MC puts the AshHost.tla sender against a scripted peer (covering ACK, stale ACK, NAK, silence, ERROR, "
             "RSTACK per attempt, paired reactions in one read, reactions landing in the loop iteration of the ACK timer) for 3-4 "
             "sends from transmit numbers 0, 6, 7; TLC checks attempt bound, same frame number/payload/retransmit flag on repeats, "
             "silence while failed, one outstanding frame, consecutive numbering, exactly one upward notice with the reason, "
             "waiters failing, and that silence alone ends every send. Every script over 11 per-attempt reactions (incl. answers in the "
             "timer's own loop iteration and answers arriving 1 ms before the timer, which drive the adaptive timeout up) up to length "
             "4 (quick) / 5 + length 6 over 6 core reactions (thorough: 0.7 M scripts, streamed in batches) x 3 workloads, all "
             "full-budget scripts, adaptive-timeout ramps, all codes and random long scripts run on the real AshProtocol in virtual "
             "time; TLC validates each trace against Trace_AshHost incl. the 400..3200 ms bound on every timeout-driven step."
             " Callers are cancelled at every point of short scripts (in flight, during a retransmission wait, while queued): invisible on the link (cancelled-caller set in Trace_AshHost). The host's own RST on a failed link (send_reset) is a step: the link stays failed and silent until the RSTACK. The observers also see the end of a send whose caller was cancelled.",
        design_ref="3/C05",
        note="Trusted: virtual-time loop (bv.vloop) with bellows.ash's `time` rebound to it; ashref.py. Retry budget read from the "
             "tree (configuration); ACK timeout bounds and error code 0x51 pinned from the ASH text.",
        technique="TLA+ spec + TLC exhaustive model check; exhaustive reaction-script enumeration on the implementation in virtual time; TLC trace validation with timing clause",
    ),
    "C03": dict(
        text="spec/AshCodec.tla is an ASH codec written from the protocol text (control bytes, LFSR randomisation, "
             "CRC-CCITT, stuffing) and anchored to the documented example frames. TLC checks it against itself "
             "(AshCodecMC: parse inverts encode, stuffing leaves no reserved byte but ESC, control-byte classes partition "
             "0..255, every 1- and 2-bit corruption of every enumerated frame is rejected) and then judges vectors "
             "recorded from the real bellows.ash code (to_bytes, bytes given to transport.write by _write_frame, "
             "parse_frame verdicts, _stuff_bytes/_unstuff_bytes) over the property's domain via Trace_AshCodec.",
        design_ref="3/C03",
        note="Input-quantified codec property: no interesting state space, the TLA+ text is the independent reference and "
             "TLC evaluates it on the enumerated domain. Trusted: the ASH text as transcribed (anchored by example frames).",
        technique="TLA+ reference codec evaluated by TLC on enumerated vectors from the implementation (trace validation) + TLC self-consistency check of the codec spec",
    ),
    "C15": dict(
        text="TLC explores spec/Multicast.tla exhaustively (all initial tables with each group at most once, "
             "N<=3 quick / N<=4 thorough, 3 groups, answers ok/reject/timeout) checking Mirror, FreeMirror, "
             "FullFails, Idempotent, FailedCallKeepsFree; every (state, operation, answer) transition of the "
             "dumped state graph is executed on the real Multicast object and every execution (plus seeded "
             "random histories beyond the bounds, and the same initial tables programmed with other non-zero "
             "endpoints: 2, 255, mixed) is validated by TLC against Trace_Multicast with the observed "
             "status, table write, NCP table and behaviourally probed host view bound at each step."
             " Initial tables also carry free entries with left-over group ids (what unsubscribe leaves behind), including the id of a group that is live at another index, and histories contain restarts (a second start-up scan over the table the host itself produced)."
             " NcpChange: the NCP's table changes behind the host's back and start-up runs again on the same object (every pair of tables). Overlapping calls: spec/MulticastConc.tla (Begin / End per call) is model-checked for calls on different groups and bound to the real object with table writes answered when the schedule says so; overlapping calls for the same group are a recorded deviation (TLC counter-example required)."
             " The real startup(coordinator) runs with group memberships on several endpoints (also the same group on two endpoints); no group may end up in two entries (Unique). A caller cancelled while its write is still queued in front of the NCP (CancelQueued): the write never happens, a subscribe gives its index back; Probe compares the NCP table as well. Two overlapping unsubscribes of one group: the second clears the entry again and leaves the bookkeeping alone.",
        design_ref="3/C15",
        note="Trusted: command-level simulated NCP (does not apply rejected/timed-out writes), deep-copy "
             "behavioural probes of the host view, TLC.",
        technique="TLA+ spec + TLC exhaustive model check; state-graph edge cover replayed into the code; TLC trace validation",
    ),
}

PENDING_REASON = "check not built yet in this round (planned in DESIGN.md section 3); nothing is claimed for it"
