"""Per-property manifest metadata.  bin/mkmanifest renders MANIFEST.json from this."""

CHECKS = {
    "C15": dict(
        text="TLC explores spec/Multicast.tla exhaustively (all initial tables with each group at most once, "
             "N<=3 quick / N<=4 thorough, 3 groups, answers ok/reject/timeout) checking Mirror, FreeMirror, "
             "FullFails, Idempotent, FailedCallKeepsFree; every (state, operation, answer) transition of the "
             "dumped state graph is executed on the real Multicast object and every execution (plus seeded "
             "random histories beyond the bounds) is validated by TLC against Trace_Multicast with the observed "
             "status, table write, NCP table and behaviourally probed host view bound at each step.",
        design_ref="3/C15",
        note="Trusted: command-level simulated NCP (does not apply rejected/timed-out writes), deep-copy "
             "behavioural probes of the host view, TLC.",
        technique="TLA+ spec + TLC exhaustive model check; state-graph edge cover replayed into the code; TLC trace validation",
    ),
}

PENDING_REASON = "check not built yet in this round (planned in DESIGN.md section 3); nothing is claimed for it"
