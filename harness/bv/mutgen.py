"""Syntactic mutant generator used to look for gaps in what the checks enumerate (bin/mutsweep).

Not a check: it produces small single-site mutants of named functions of the repository (comparison and boolean operator
swaps, negated conditions, off-by-one constants, arithmetic swaps, deleted statements).  A mutant that passes the
repository's test suite AND every mapped quick check is a survivor to be triaged by hand (equivalent mutant, outside the
properties, or a gap in a driver)."""
from __future__ import annotations

import ast
import re

CMP = {ast.Eq: "!=", ast.NotEq: "==", ast.Lt: "<=", ast.LtE: "<", ast.Gt: ">=", ast.GtE: ">", ast.Is: "is not", ast.IsNot: "is",
       ast.In: "not in", ast.NotIn: "in"}
CMP_RE = {ast.Eq: r"==", ast.NotEq: r"!=", ast.Lt: r"<(?!=)", ast.LtE: r"<=", ast.Gt: r">(?!=)", ast.GtE: r">=", ast.Is: r"\bis\b(?!\s+not)",
          ast.IsNot: r"\bis\s+not\b", ast.In: r"(?<!not )\bin\b", ast.NotIn: r"\bnot\s+in\b"}
ARITH = {ast.Add: ("+", "-"), ast.Sub: ("-", "+"), ast.Mod: ("%", "//"), ast.Mult: ("*", "+"), ast.BitAnd: ("&", "|"), ast.BitOr: ("|", "&"),
         ast.LShift: ("<<", ">>"), ast.RShift: (">>", "<<"), ast.BitXor: ("^", "|")}


def _offsets(src):
    lines = src.splitlines(keepends=True)
    starts = [0]
    for ln in lines:
        starts.append(starts[-1] + len(ln))
    return lambda lineno, col: starts[lineno - 1] + len(lines[lineno - 1].encode()[:col].decode(errors="ignore"))


def mutants_of(path, src, functions=None):
    """-> list of (lineno, description, mutated source).  functions: set of names ('f' or 'Class.f') or None for all"""
    tree = ast.parse(src)
    off = _offsets(src)
    out = []

    def span(n):
        return off(n.lineno, n.col_offset), off(n.end_lineno, n.end_col_offset)

    def add(lineno, desc, a, b, text):
        m = src[:a] + text + src[b:]
        try:
            ast.parse(m)
        except SyntaxError:
            return
        if m != src:
            out.append((lineno, desc, m))

    def visit_func(fn, qual):
        for n in ast.walk(fn):
            if isinstance(n, ast.Compare) and len(n.ops) == 1:
                op = type(n.ops[0])
                if op in CMP:
                    a = span(n.left)[1]
                    b = span(n.comparators[0])[0]
                    seg = src[a:b]
                    m = re.search(CMP_RE[op], seg)
                    if m:
                        add(n.lineno, f"{qual}: {seg.strip()} -> {CMP[op]}", a + m.start(), a + m.end(), CMP[op])
            elif isinstance(n, ast.BoolOp) and len(n.values) >= 2:
                a = span(n.values[0])[1]
                b = span(n.values[1])[0]
                seg = src[a:b]
                word = "and" if isinstance(n.op, ast.And) else "or"
                m = re.search(r"\b%s\b" % word, seg)
                if m:
                    add(n.lineno, f"{qual}: {word} -> {'or' if word == 'and' else 'and'}", a + m.start(), a + m.end(), "or" if word == "and" else "and")
            elif isinstance(n, ast.UnaryOp) and isinstance(n.op, ast.Not):
                a, b = span(n)
                oa, ob = span(n.operand)
                add(n.lineno, f"{qual}: drop not", a, b, "(" + src[oa:ob] + ")")
            elif isinstance(n, (ast.If, ast.While)) and not isinstance(n.test, ast.UnaryOp):
                a, b = span(n.test)
                add(n.lineno, f"{qual}: negate condition `{src[a:b][:40]}`", a, b, "not (" + src[a:b] + ")")
            elif isinstance(n, ast.BinOp) and type(n.op) in ARITH:
                a = span(n.left)[1]
                b = span(n.right)[0]
                seg = src[a:b]
                old, new = ARITH[type(n.op)]
                k = seg.find(old)
                if k >= 0:
                    add(n.lineno, f"{qual}: {old} -> {new}", a + k, a + k + len(old), new)
            elif isinstance(n, ast.Constant) and isinstance(n.value, int) and not isinstance(n.value, bool):
                a, b = span(n)
                for d in (1, -1):
                    if n.value + d >= 0:
                        add(n.lineno, f"{qual}: constant {n.value} -> {n.value + d}", a, b, str(n.value + d))
            elif isinstance(n, ast.Constant) and isinstance(n.value, bool):
                a, b = span(n)
                add(n.lineno, f"{qual}: {n.value} -> {not n.value}", a, b, str(not n.value))
        # statement deletion (simple statements only)
        for n in ast.walk(fn):
            for field in ("body", "orelse", "finalbody"):
                body = getattr(n, field, None)
                if not isinstance(body, list):
                    continue
                for st in body:
                    if isinstance(st, (ast.Expr, ast.Assign, ast.AugAssign, ast.Continue, ast.Break)) or (isinstance(st, ast.Return) and st.value is None):
                        if isinstance(st, ast.Expr) and isinstance(st.value, ast.Constant):
                            continue          # docstring
                        a, b = span(st)
                        txt = src[a:b]
                        if "LOGGER" in txt or "_LOGGER" in txt:
                            continue
                        add(st.lineno, f"{qual}: delete `{txt.splitlines()[0][:50]}`", a, b, "pass")
                    elif isinstance(st, ast.Raise):
                        a, b = span(st)
                        add(st.lineno, f"{qual}: delete raise", a, b, "pass")

    for node in tree.body:
        if isinstance(node, (ast.FunctionDef, ast.AsyncFunctionDef)):
            if functions is None or node.name in functions:
                visit_func(node, node.name)
        elif isinstance(node, ast.ClassDef):
            for sub in node.body:
                if isinstance(sub, (ast.FunctionDef, ast.AsyncFunctionDef)):
                    q = f"{node.name}.{sub.name}"
                    if functions is None or q in functions or sub.name in functions:
                        visit_func(sub, q)
    # de-duplicate
    seen, res = set(), []
    for m in out:
        if m[2] not in seen:
            seen.add(m[2])
            res.append(m)
    return res
