"""C09 - bring-up negotiates the NCP's protocol version and frames everything accordingly.

spec/Bringup.tla states the negotiation contract from the NCP's side; BringupMC checks the host's negotiation logic
against it for every version.  The real stack (EZSP.connect / startup_reset / write_config / reset / version over
uart.connect, Gateway and AshProtocol on a fake serial line) is run against a simulated NCP of every version 4..14
and newer ones, on serial and socket:// paths, with the NCP's spontaneous start-up reset absent, in the wait window,
late, or late with the host's RST still unread, under loss / corruption / duplication of ASH frames; TLC validates
the frames seen by the NCP's EZSP layer and the outcome of every stage (Trace_Bringup)."""
from __future__ import annotations

import asyncio

from . import stackrig, vloop
from .c04 import pmap
from .core import Ctx

VERSIONS = (4, 5, 6, 7, 8, 9, 10, 11, 12, 13, 14, 15, 16, 200)
INVS = ()


def run_case(case):
    ver, path, boot, fh2n, fn2h, win = case[:6]
    order = case[6] if len(case) > 6 else "A"      # "B": the application-style second start-up comes right after the first bring-up

    async def main(loop):
        rig = stackrig.StackRig(loop, ver, path, win)
        rig.peer.faults_h2n = list(fh2n)
        rig.peer.faults_n2h = list(fn2h)
        rig.peer.ezsp.stack_type = 2 if (len(fh2n) + win) % 2 else 4
        if boot == "deaf":
            rig.peer.ignore_rst = 1          # the first RST goes unanswered: that start-up ends in the reset timeout, the retry must work
        ezsp = await rig.connect((boot, 0x0B) if boot not in ("none", "deaf") else None)
        if boot not in ("none", "early", "deaf"):
            loop.call_later((0.3 if boot.startswith("inwindow") else 1.2) - 0.0001, rig.note, {"o": "ncpreset"})

        async def stage(name, coro):
            rig.note({"o": "stagestart", "stage": name})
            t = asyncio.ensure_future(coro)
            await rig.run_until(t, 90)
            exc = ""
            if not t.done():
                t.cancel()
                exc = "hang"
            elif t.cancelled():
                exc = "cancelled"
            elif t.exception() is not None:
                exc = type(t.exception()).__name__
            rig.note({"o": "result", "stage": name, "exc": exc, "version": int(ezsp.ezsp_version),
                      "tables": int(ezsp._protocol.VERSION) if ezsp._protocol is not None else -1})
            return exc == ""
        import bellows.types as t_
        ok = await stage("startup", ezsp.startup_reset())
        if boot == "deaf" and not ok:
            ok = await stage("startup", ezsp.startup_reset())      # the caller tries again on the same EZSP object
        if ok:
            ok = await stage("config", ezsp.write_config({}))
        # "formats every frame for that version": besides raw commands, the composite operations the application reaches through the
        # same EZSP object (methods of the version's protocol handler), before and after a later reset + negotiation
        if ok:
            ok = await stage("helper", ezsp.read_counters())
        if ok:
            ok = await stage("helper", ezsp.read_and_clear_counters())
        async def second_startup(ok):
            if ok:
                # a later start-up on the same EZSP object, as ControllerApplication._reset() does it: stop, start-up reset, configuration
                ezsp.stop_ezsp()
                ok = await stage("startup", ezsp.startup_reset())
            if ok:
                ok = await stage("config", ezsp.write_config({}))
            if ok:
                ok = await stage("helper", ezsp.read_counters())
            return ok
        if order == "B":
            ok = await second_startup(ok)
        if ok:
            ok = await stage("reset", ezsp.reset())
        if ok:
            ok = await stage("version", ezsp.version())
        if ok:
            ok = await stage("command", ezsp.getConfigurationValue(t_.EzspConfigId.CONFIG_STACK_PROFILE))
        if ok:
            ok = await stage("helper", ezsp.read_counters())
        if ok:
            ok = await stage("helper", ezsp.read_and_clear_counters())
        if ok:
            ok = await stage("command", ezsp.nop())
        if order == "A":
            ok = await second_startup(ok)
        if ok and not fh2n and not fn2h and boot == "none":
            # "from then on every frame": a run long enough to take the request sequence number past 255
            async def many():
                for _ in range(300):
                    await ezsp.nop()
            await stage("many", many())
        # ---- trace
        tr = [{"a": "cfg", "ncpver": ver, "path": "socket" if path.startswith("socket") else "serial", "boot": boot}]
        for n in rig.notes:
            if n["o"] == "ncpreset" or (n["o"] == "h2n" and n["f"]["type"] == "RST"):
                tr.append({"a": "ncpreset", "t": n["t"]})
            elif n["o"] == "ezsp_rx":
                tr.append({"a": "ezsp_rx", "fmt": n["fmt"], "id": n["id"], "desired": n["desired"], "t": n["t"]})
            elif n["o"] == "stagestart":
                tr.append({"a": "stagestart", "stage": n["stage"], "t": n["t"]})
            elif n["o"] == "result":
                tr.append({"a": "result", "stage": n["stage"], "exc": n["exc"], "version": n["version"], "tables": n["tables"], "t": n["t"]})
        return tr
    return vloop.run(main)


def sig(meta, v, tr):
    e = tr[v.stuck_at - 1] if v.stuck_at and v.stuck_at <= len(tr) else {}
    fam = "v15plus" if meta[0] >= 15 else "v4to14"
    path = "socket" if meta[1].startswith("socket") else "serial"
    faulty = "faults" if (meta[3] or meta[4]) else "nofaults"
    if e.get("a") == "result":
        what = f"stage:{e.get('exc') or 'wrong-version'}"
    else:
        what = f"{e.get('a')}:{e.get('fmt', '')}:{e.get('id', '')}"
    return f"trace:Bringup:boot={meta[2]}:{what}:{e.get('stage', '')}:{fam}:{path}:{faulty}"


def fault_schedules(quick, rng):
    out = [([], [])]
    K = 5 if quick else 14
    for k in range(K):
        for f in ("drop", "corrupt", "dup"):
            out.append((["deliver"] * k + [f], []))
            out.append(([], ["deliver"] * k + [f]))
    for _ in range(6 if quick else 500):
        a = [rng.choices(("deliver", "drop", "corrupt", "dup"), (80, 7, 7, 6))[0] for _ in range(30)]
        b = [rng.choices(("deliver", "drop", "corrupt", "dup"), (80, 7, 7, 6))[0] for _ in range(30)]
        out.append((a, b))
    return out


def run(ctx: Ctx):
    ctx.model_check("BringupMC", "MC_Bringup", constants={"Versions": "{" + ", ".join(map(str, VERSIONS)) + "}"},
                    invariants=("ContractHolds", "AdoptsReported", "FallbackAfterReset"),
                    required_actions=("Connect", "Reset", "Version1", "Version2", "Command"), workers=4)
    # bring-up of the composed host stack (Stack.tla) against the conforming NCP on a fault-free line: no timeout, no frame number used twice
    from . import stackx, tlc as T
    bc = stackx.mc_consts(MaxFaults="0", MaxCb="0", NCalls="2")
    bc.pop("NoCur", None)
    ctx.model_check("StackBootMC", "MC_StackBoot", spec="BSpec", constants=dict(bc, Boot="FALSE"),
                    invariants=("NoTimeoutOnQuietLine", "FramesNumberedOnce", "OwnResponse"), constraints=("LineBound",),
                    required_actions=("BReset", "BVersion", "BCall", "BToHost", "BToNcp", "BNcpReset"))
    # the same model with an NCP that announces its own start-up reset while the host's RST is unread reproduces the known finding
    cfg = T.write_cfg(ctx.workdir / "MC_StackBoot_known.cfg", spec="BSpec", constants=dict(bc, Boot="TRUE"),
                      invariants=("FramesNumberedOnce",), constraints=("LineBound",))
    kr = T.run_tlc("StackBootMC", cfg, workdir=ctx.workdir, workers=4)
    ctx.notes["known_finding_in_model"] = ("reproduced by StackBootMC with Boot = TRUE: " + (",".join(kr.violated) or kr.error_kind or "no violation")
                                           + f" ({kr.distinct} states)")
    rng = ctx.rng
    scheds = fault_schedules(ctx.quick, rng)
    cases = []
    for ver in VERSIONS:
        for path, boots in (("/dev/ttyFAKE0", ("none", "inwindowgap", "deaf")), ("socket://10.0.0.1:6638", ("none", "early", "inwindow", "late", "lategap"))):
            for boot in boots:
                for i, (a, b) in enumerate(scheds):
                    if ctx.quick and i > 0 and (i + ver) % 3:
                        continue
                    cases.append((ver, path, boot, a, b, 1 + (i + ver) % 3, "B" if (i == 0 or (i + ver) % 2) else "A"))
                    if i == 0:
                        cases.append((ver, path, boot, a, b, 1 + (i + ver) % 3, "A"))
    traces = pmap(run_case, cases, chunksize=8)
    ctx.evaluations = len(traces)
    ctx.distinct_nontrivial = len({str(c) for c in cases})
    ctx.rule = ("NCP versions 4..14, 15, 16, 200 x {serial: no start-up reset / start-up reset while the host's RST waits; socket://: start-up reset absent, "
                "in the wait window, late, late with the RST still unread} x fault schedules (a single drop / corruption / duplication at each of the first "
                "frames in either direction, random multi-fault schedules) x NCP windows 1..3; each run: startup_reset, write_config, helpers, an explicit reset + "
                "version + commands, and a second application-style start-up (stop, startup_reset, write_config) before or after the explicit reset; socket:// also with the start-up reset announced before anybody waits; distinct = distinct case")
    ctx.add_sample({"case": cases[1], "trace": traces[1][:12]})
    ctx.validate_traces("Trace_Bringup", traces, invariants=INVS, metas=[list(c) for c in cases], label="bring-up", sig=sig)
    ctx.exhaustive = False
    ctx.assumptions += ["simulated ASH NCP (linkrig.NcpSim, validated against AshNcp.tla in C01) carrying the simulated EZSP NCP; an NCP understands its native "
                        "header layout and, in any version, the legacy 3-byte version query",
                        "line faults hit DATA/ACK/NAK frames; RST/RSTACK are not dropped (bellows does not retransmit RST; a lost handshake is a reset timeout)",
                        "the frame layout is classified by the harness's own header parser"]


def replay(ctx: Ctx, data):
    m = data["replay"]["meta"]
    tr = run_case(tuple(m))
    ctx.validate_traces("Trace_Bringup", [tr], invariants=INVS, metas=[m], label="bring-up", sig=sig)
    ctx.add_sample(tr[:20])
