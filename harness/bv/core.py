"""Check context, results, evidence files, known findings, replays."""
from __future__ import annotations

import dataclasses
import hashlib
import json
import os
import random
import shutil
import time
from pathlib import Path

from . import tlc as T
from . import trace as TR

VERIF = T.VERIF
REPO = Path(os.environ.get("BV_REPO", "/repo"))


@dataclasses.dataclass
class Violation:
    signature: str          # stable identifier of the specific failing input / schedule / clause
    what: str               # one line for humans
    replay: dict            # everything needed to re-execute (schedule, trace, seed, clause)


class Ctx:
    def __init__(self, prop: str, tier: str, seed: int):
        self.prop = prop
        self.tier = tier
        self.seed = seed
        self.quick = tier == "quick"
        self.rng = random.Random(seed)
        self.workdir = T.scratch(f"bv-{prop}-")
        self.t0 = time.time()
        # accumulated coverage
        self.states = 0
        self.transitions = 0
        self.traces_validated = 0
        self.events_validated = 0
        self.evaluations = 0
        self.samples: list = []
        self.action_coverage: dict[str, int] = {}
        self.model_runs: list[dict] = []
        self.violations: list[Violation] = []
        self.assumptions: list[str] = []
        self.notes: dict = {}
        self.exhaustive: bool | None = None
        self.rule = ""
        self.distinct_nontrivial = 0

    def cleanup(self):
        shutil.rmtree(self.workdir, ignore_errors=True)

    # ---- model checking of a spec
    def model_check(self, module: str, name: str, *, constants=None, invariants=(), properties=(),
                    constraints=(), view=None, spec="Spec", required_actions=(), workers="auto",
                    simulate=None, depth=None, symmetry=None, dump_dot: Path | None = None,
                    timeout=3600, action_constraints=(), coverage=True, deadlock=False,
                    postcondition=None, env=None, heap=None, gc=None) -> T.TlcResult:
        cfg = T.write_cfg(self.workdir / f"{name}.cfg", spec=spec, constants=constants or {},
                          invariants=invariants, properties=properties, constraints=constraints,
                          view=view, symmetry=symmetry, action_constraints=action_constraints,
                          deadlock=deadlock, postcondition=postcondition)
        res = T.run_tlc(module, cfg, workdir=self.workdir, workers=workers, coverage=coverage,
                        simulate=simulate, depth=depth, seed=self.seed if simulate else None,
                        dump_dot=dump_dot, timeout=timeout, env=env, heap=heap, gc=gc)
        self.states += res.distinct
        self.transitions += res.generated
        for a, (d, t) in res.coverage.items():
            self.action_coverage[f"{module}.{a}"] = self.action_coverage.get(f"{module}.{a}", 0) + t
        self.model_runs.append({"module": module, "config": name, "constants": constants or {},
                                "invariants": list(invariants), "properties": list(properties),
                                **res.summary()})
        if not res.ok:
            self.violations.append(Violation(
                signature=f"model:{module}:{name}:{','.join(res.violated) or res.error_kind}",
                what=f"TLC: {res.error_kind} {','.join(res.violated)} in {module} ({name})",
                replay={"kind": "model", "module": module, "config": name, "constants": constants or {},
                        "counterexample": res.error_trace}))
        elif coverage and required_actions:
            missing = [a for a in required_actions if res.coverage.get(a, (0, 0))[1] == 0
                       and not (a.startswith("Do") and res.coverage.get(a[2:], (0, 0))[1] > 0)]
            if missing:
                raise T.MachineryError(f"vacuous model run {module}/{name}: actions never taken: {missing}")
        return res

    # ---- trace validation
    def validate_traces(self, module: str, traces: list[list[dict]], *, constants=None, invariants=(),
                        properties=(), metas: list | None = None, label: str = "", shards=16,
                        dfs=False, sig=None, timeout=3600, length_of=len) -> TR.BatchResult:
        """metas[i] is what is needed to re-execute trace i (schedule etc.).  sig(meta, verdict) may
        return a stable signature for known-finding matching."""
        res = TR.validate(module, traces, workdir=self.workdir, constants=constants, invariants=invariants,
                          properties=properties, shards=shards, dfs=dfs, timeout=timeout, length_of=length_of)
        self.states += res.distinct
        self.transitions += res.generated
        self.traces_validated += len(traces)
        self.events_validated += res.events
        self.model_runs.append({"module": module, "config": f"trace-validation {label}", "traces": len(traces),
                                "events": res.events, "generated": res.generated, "distinct": res.distinct,
                                "rejected": len(res.rejected), "wall_s": round(res.wall_s, 2)})
        for v in res.rejected:
            meta = metas[v.index] if metas else None
            tr = traces[v.index]
            ev = tr[v.stuck_at - 1] if isinstance(tr, list) and v.stuck_at and 0 < v.stuck_at <= len(tr) else None
            s = sig(meta, v, tr) if sig else None
            if s is None:
                s = f"trace:{module}:{label}:" + hashlib.sha1(
                    json.dumps([meta, v.stuck_at, v.invariant], sort_keys=True, default=str).encode()).hexdigest()[:12]
            what = (f"{module} {label}: " + (f"invariant {v.invariant} fails" if v.invariant else
                                             f"event #{v.stuck_at} not explained by the specification")
                    + (f": {json.dumps(ev, default=str)[:300]}" if ev is not None else ""))
            self.violations.append(Violation(s, what, {
                "kind": "trace", "module": module, "label": label, "meta": meta, "stuck_at": v.stuck_at,
                "invariant": v.invariant, "detail": v.detail, "unexplained_event": ev,
                "last_explained_event": tr[v.stuck_at - 2] if isinstance(tr, list) and v.stuck_at and v.stuck_at >= 2 else None,
                "trace": tr, "constants": constants or {}}))
        return res

    def add_sample(self, s, limit=4):
        if len(self.samples) < limit:
            self.samples.append(s)


# --------------------------------------------------------------------------- known findings

def load_known():
    p = VERIF / "known_findings.json"
    if not p.exists():
        return {"findings": [], "fixed": []}
    return json.loads(p.read_text())


def finish(ctx: Ctx, level: str = "model_checking") -> int:
    known = [k for k in load_known().get("findings", []) if k["property"] == ctx.prop]
    unlisted, listed = [], {}
    for v in ctx.violations:
        k = next((k for k in known if k.get("signature") == v.signature or
                  (k.get("signature_prefix") and v.signature.startswith(k["signature_prefix"]))), None)
        if k is None:
            unlisted.append(v)
        else:
            listed.setdefault(k["signature"] if "signature" in k else k["signature_prefix"], (k, []))[1].append(v)
    for key, (k, vs) in listed.items():
        print(f"KNOWN-FINDING: property={ctx.prop} {k['what']} ({len(vs)} occurrence(s) this run)")
    rc = 0
    (VERIF / "replays").mkdir(exist_ok=True)
    if not getattr(ctx, "is_replay", False):
        for old in (VERIF / "replays").glob(f"{ctx.prop}-*.json"):
            old.unlink()
    seen = set()
    for v in unlisted:
        if v.signature in seen:
            continue
        seen.add(v.signature)
        if len(seen) > 20:
            break
        h = hashlib.sha1(v.signature.encode()).hexdigest()[:10]
        path = VERIF / "replays" / f"{ctx.prop}-{h}.json"
        path.write_text(json.dumps({"property": ctx.prop, "signature": v.signature, "what": v.what,
                                    "seed": ctx.seed, "tier": ctx.tier, "replay": v.replay},
                                   indent=1, default=str))
        print(f"VIOLATION property={ctx.prop} replay={path}")
        print(f"  {v.what[:600]}")
        rc = 1
    wall = time.time() - ctx.t0
    cov = {
        "states": ctx.states,
        "transitions": ctx.transitions,
        "traces_validated_against_impl": ctx.traces_validated,
        "events_validated": ctx.events_validated,
        "evaluations": max(ctx.evaluations, ctx.traces_validated, 1),
        "distinct_nontrivial": ctx.distinct_nontrivial,
        "rule": ctx.rule,
        "samples": ctx.samples or ["(no sample recorded)"],
        "model_runs": ctx.model_runs,
        "action_coverage": ctx.action_coverage,
        "known_findings_seen": sorted(listed),
        **ctx.notes,
    }
    if ctx.exhaustive is not None:
        cov["exhaustive"] = ctx.exhaustive
    ev = {
        "property_id": ctx.prop,
        "tier": ctx.tier,
        "seed": ctx.seed,
        "level": level,
        "coverage": cov,
        "assumptions": ctx.assumptions,
        "wall_s": round(wall, 2),
        "violations": len({v.signature for v in unlisted}),
    }
    if REPO.resolve() != Path("/repo"):
        # a copy of the repository was checked (seeded-change runs, sweeps): the evidence files describe /repo only
        return rc
    (VERIF / "evidence").mkdir(exist_ok=True)
    if ctx.prop.startswith("X"):
        # extension checks (beyond the listed properties) keep their evidence apart from the properties' files
        (VERIF / "extensions").mkdir(exist_ok=True)
        (VERIF / "extensions" / f"{ctx.prop}.json").write_text(json.dumps(ev, indent=1, default=str) + "\n")
        return rc
    (VERIF / "evidence" / f"{ctx.prop}.json").write_text(json.dumps(ev, indent=1, default=str) + "\n")
    return rc
