"""C16 - the configuration write never shrinks a table, honours overrides, sets the buffer count last.

spec/ConfigWrite.tla states the contract over the ordered set operations seen by the NCP; ConfigWriteMC shows
it satisfiable for every abstract input (and that the characteristic bad writes violate the right clause); the real
EZSP.write_config runs for every protocol version against the simulated NCP with generated current values,
override sets drawn from the version's whole schema, and per-setting accept/reject answers; TLC judges each run."""
from __future__ import annotations

import random

import asyncio

from . import ncp_ezsp, vloop
from .c04 import pmap
from .core import Ctx

INVS = ("AtMostOnceOk", "OverrideExactOk", "DisabledSilentOk", "NeverShrinkOk", "BufferLastOk", "CompleteOk", "OnlyKnownOk")
CANDIDATES = (0, 1, 2, 3, 5, 8, 12, 14, 16, 26, 32, 64, 100, 200, 255, 300, 1000, 65535)


def defaults_of(ver):
    from bellows.ezsp.config import DEFAULT_CONFIG, RuntimeConfig
    out = {}
    for c in DEFAULT_CONFIG[ver]:
        if isinstance(c, RuntimeConfig):
            out[c.config_id.name] = int(c.value)
        else:
            out[c.value_id.name] = int(c.value)
    return out


def gen_case(ver, rng: random.Random, schema, keys):
    import voluptuous as vol
    dflt = defaults_of(ver)
    # overrides: from the version's WHOLE schema (settings that are not among the defaults included)
    ovr = {}
    for name in rng.sample(keys, rng.choice((0, 0, 1, 1, 2, 3, 5))):
        if rng.random() < 0.3:
            ovr[name] = None
            continue
        for _ in range(20):
            v = rng.choice(CANDIDATES)
            try:
                schema({name: v})
                ovr[name] = v
                break
            except vol.Invalid:
                continue
    if rng.random() < 0.25:
        ovr.setdefault("CONFIG_PACKET_BUFFER_COUNT", rng.choice((None, 64, 200, 255)))
    cur, unreadable = {}, []
    for name in set(dflt) | set(ovr):
        base = dflt.get(name, ovr.get(name) or 8)
        mode = rng.choice(("below", "equal", "above", "unreadable"))
        if mode == "unreadable":
            unreadable.append(name)
        elif mode == "below":
            cur[name] = max(0, base - rng.choice((1, 2, 7)))
        elif mode == "equal":
            cur[name] = base
        else:
            cur[name] = min(65535, base + rng.choice((1, 4, 20)))
    rejected = [n for n in sorted(set(dflt) | set(ovr)) if rng.random() < 0.2]
    return {"ver": ver, "ovr": ovr, "cur": cur, "unreadable": sorted(unreadable), "rejected": rejected,
            "rejstatus": rng.choice((None, "ERROR_OUT_OF_MEMORY", "ERROR_INVALID_ID", "ERROR_INVALID_CALL"))}


def run_case(case):
    ver = case["ver"]

    async def main(loop):
        via = case.get("via", "ezsp")
        if via == "ezsp":
            ezsp, gw, ncp = await ncp_ezsp.make_ezsp(loop, ver)
        else:
            # the write as the application triggers it: ControllerApplication.connect() (bring-up, then write_config with the configured
            # settings) and, for "reset", a later ControllerApplication._reset() on the same application
            ncp = ncp_ezsp.NcpEzsp(ver, loop, negotiated=False)
            gw = ncp_ezsp.FakeGateway(ncp)
        t = ncp.t
        ncp.reject_status = case.get("rejstatus")
        ids = {}
        for name in set(case["cur"]) | set(case["unreadable"]) | set(case["rejected"]):
            if name.startswith("VALUE_"):
                vid = int(t.EzspValueId[name])
                if name in case["cur"]:
                    ncp.values[vid] = bytes([case["cur"][name] & 0xFF])
                if name in case["rejected"]:
                    ncp.value_reject.add(vid)
            else:
                cid = int(t.EzspConfigId[name])
                if name in case["cur"]:
                    ncp.config[cid] = case["cur"][name]
                if name in case["unreadable"]:
                    ncp.config_unreadable.add(cid)
                if name in case["rejected"]:
                    ncp.config_reject.add(cid)
        returned, exc = 1, ""
        cur_now = {}
        try:
            if via == "ezsp":
                await ezsp.write_config(dict(case["ovr"]))
            else:
                import bellows.uart
                from . import apprig, compat

                async def fake_connect(config, application, use_thread=True):
                    ncp.deliver = application.frame_received
                    return gw
                orig = bellows.uart.connect
                bellows.uart.connect = fake_connect
                try:
                    app = compat.make_app({"ezsp_config": dict(case["ovr"])})
                    tk = asyncio.ensure_future(app.connect())
                    await apprig.run_until_done(loop, [tk], 300)
                    tk.result()
                    if via == "reset":
                        ncp.log.clear()
                        # what the NCP reports now (after the first write) is what the second write starts from
                        for cid, v in ncp.config.items():
                            try:
                                cur_now[t.EzspConfigId(cid).name] = int(v)
                            except ValueError:
                                pass
                        for vid, v in ncp.values.items():
                            try:
                                cur_now[t.EzspValueId(vid).name] = int.from_bytes(bytes(v), "little")
                            except ValueError:
                                pass
                        tk = asyncio.ensure_future(app._reset())
                        await apprig.run_until_done(loop, [tk], 300)
                        tk.result()
                finally:
                    bellows.uart.connect = orig
        except BaseException as e:  # noqa
            returned, exc = 0, type(e).__name__ + ":" + str(e)[:60]
        sets = []
        for en in ncp.log:
            if en["name"] == "setConfigurationValue":
                sets.append({"s": t.EzspConfigId(int(en["args"]["configId"])).name, "v": int(en["args"]["value"])})
            elif en["name"] == "setValue":
                sets.append({"s": t.EzspValueId(int(en["args"]["valueId"])).name,
                             "v": int.from_bytes(bytes(en["args"]["value"]), "little")})
        dflt = defaults_of(ver)
        ev = {"a": "write", "ver": ver, "defaults": dflt,
              "cur": {k: v for k, v in (cur_now or case["cur"]).items() if k not in case["unreadable"]},
              "ovr": {k: v for k, v in case["ovr"].items() if v is not None},
              "disabled": sorted(k for k, v in case["ovr"].items() if v is None),
              "rejected": case["rejected"], "sets": sets, "returned": returned, "exc": exc}
        return [ev]
    return vloop.run(main)


def capacity_names():
    import re
    from . import tlc as T
    txt = (T.SPEC_DIR / "ConfigWrite.tla").read_text()
    body = txt[txt.index("Capacity =="):txt.index("BufferCount ==")]
    return set(re.findall(r'"(\w+)"', body))


def sig(meta, v, tr):
    e = tr[0]
    inv = v.invariant or "unexplained"
    detail = ""
    if "BufferLast" in inv:
        after = [s["s"] for s in e["sets"][[x["s"] for x in e["sets"]].index("CONFIG_PACKET_BUFFER_COUNT") + 1:]]
        detail = "override-only-after" if all(a not in e["defaults"] for a in after) else "default-after"
    elif "Complete" in inv:
        detail = (e["exc"].split(":")[0] or "missing") + (":disabled-nondefault" if any(d not in e["defaults"] for d in e["disabled"]) else "")
    elif "NeverShrink" in inv:
        bad = [s["s"] for s in e["sets"] if s["s"] in e["cur"] and s["s"] not in e["ovr"] and s["v"] < e["cur"][s["s"]]
               and s["s"] in capacity_names()]
        detail = "v%d:" % e["ver"] + ",".join(sorted(bad))
    return f"trace:ConfigWrite:{inv}:{detail}"


def run(ctx: Ctx):
    ctx.model_check("ConfigWriteMC", "MC_ConfigWrite", invariants=("Satisfiable", "BufferOrderCaught", "ShrinkCaught"),
                    coverage=False, workers=8)
    import importlib
    import bellows.config as bc
    rng = ctx.rng
    cases = []
    n = 60 if ctx.quick else 10000
    for ver in range(4, 15):
        mod = importlib.import_module(f"bellows.ezsp.v{ver}")
        cls = getattr(mod, f"EZSPv{ver}")
        schema = cls.SCHEMAS[bc.CONF_EZSP_CONFIG]
        keys = sorted(str(k) for k in schema.schema)
        # hand-picked corner cases first, then generated ones
        d = defaults_of(ver)
        cases.append({"ver": ver, "ovr": {}, "cur": {k: v for k, v in d.items()}, "unreadable": [], "rejected": []})
        cases.append({"ver": ver, "ovr": {}, "cur": {k: v + 9 for k, v in d.items() if v < 60000}, "unreadable": [], "rejected": sorted(d)})
        cases.append({"ver": ver, "ovr": {}, "cur": {}, "unreadable": sorted(d), "rejected": []})
        # one setting refused with each status the firmware may choose (incl. out of memory), everything else below its default
        for name in sorted(d)[:4] + sorted(d)[-2:]:
            for rs in ("ERROR_OUT_OF_MEMORY", "ERROR_INVALID_ID"):
                cases.append({"ver": ver, "ovr": {}, "cur": {k: 0 for k in d}, "unreadable": [], "rejected": [name], "rejstatus": rs})
        # systematic single-setting family: every setting of the version's schema disabled once (NCP reporting a larger value), and
        # overridden once with the smallest and the largest candidate the schema accepts (NCP reporting something else)
        import voluptuous as vol
        for name in keys:
            base = d.get(name, 8)
            cases.append({"ver": ver, "ovr": {name: None}, "cur": dict({k: v for k, v in d.items()}, **{name: min(65535, base + 20)}),
                          "unreadable": [], "rejected": []})
            ok = []
            for v in CANDIDATES:
                try:
                    schema({name: v})
                    ok.append(v)
                except vol.Invalid:
                    pass
            for v in sorted({ok[0], ok[-1]}) if ok else ():
                cases.append({"ver": ver, "ovr": {name: v}, "cur": dict({k: x for k, x in d.items()}, **{name: min(65535, v + 3)}),
                              "unreadable": [], "rejected": []})
        for i in range(n):
            cases.append(gen_case(ver, rng, schema, keys))
            if i % 3 == 0:          # the same kind of case through the application's connect() / _reset()
                cases.append(dict(gen_case(ver, rng, schema, keys), via="app" if i % 6 else "reset"))
        # the capacity settings of the version with the NCP reporting more, no override, written through the application
        for via in ("app", "reset"):
            cases.append({"ver": ver, "ovr": {}, "cur": {k: v + 9 for k, v in d.items() if v < 60000}, "unreadable": [], "rejected": [], "via": via})
            for name in keys:
                if name in d or ctx.quick and hash(name) % 4:
                    continue
                cases.append({"ver": ver, "ovr": {}, "cur": dict({k: v for k, v in d.items()}, **{name: 40}), "unreadable": [], "rejected": [], "via": via})
    traces = pmap(run_case, cases, chunksize=16)
    ctx.evaluations = len(traces)
    ctx.distinct_nontrivial = len({str(c) for c in cases})
    ctx.rule = ("per protocol version 4..14: reported values drawn below/equal/above/unreadable per setting, 0-5 overrides drawn from the "
                "version's whole schema (values accepted by the schema, or disabled), buffer-count overrides, 20% rejected settings; plus "
                "all-equal, all-above-all-rejected and all-unreadable cases, and every setting of the schema disabled once / overridden with the smallest and largest accepted candidate; a third of the cases through ControllerApplication.connect() and a later _reset(); distinct = distinct case record")
    ctx.add_sample(traces[len(traces) // 2][0])
    ctx.validate_traces("Trace_ConfigWrite", traces, invariants=INVS, metas=cases, label="config write", sig=sig)
    ctx.exhaustive = False
    ctx.assumptions += ["simulated EZSP NCP keeps configuration values and answers get/set per the case",
                        "capacity settings pinned by name in spec/ConfigWrite.tla; bellows' default table read from the tree (configuration)",
                        "override sets are valid for the version's schema (invalid ones are refused by voluptuous before anything is written)"]


def replay(ctx: Ctx, data):
    m = data["replay"]["meta"]
    tr = run_case(m)
    ctx.validate_traces("Trace_ConfigWrite", [tr], invariants=INVS, metas=[m], label="config write", sig=sig)
    ctx.add_sample(tr)
