"""Rig that drives the real bellows.ash.AshProtocol on a fake serial transport in virtual time
and records, per harness input, everything observable at the public seams: bytes given to
transport.write() (decoded by the independent ashref codec), upper-layer callbacks, and the
outcome of send_data() calls.

Inputs (each followed by "run the loop until nothing is runnable at this instant"):
  submit(id)            send_data(payload(id)) started as an eager task
  recv(frames, late)    one data_received() call carrying the frames; late=True places the call in
                        the same loop iteration as the pending ACK timer (frames first)
  tick()                advance the virtual clock to the next timer
  cancel(id)            cancel the caller of send_data
"""
from __future__ import annotations

import asyncio

from . import ashref, vloop
from .seams import FakeSerialTransport


def host_payload(i: int) -> bytes:
    return b"H" + bytes([i & 0xFF, (i >> 8) & 0xFF]) + b"\x7e\x11"     # contains reserved bytes on purpose


def ncp_payload(i: int) -> bytes:
    return b"N" + bytes([i & 0xFF, (i >> 8) & 0xFF]) + b"\x7d\x13"


def token(data: bytes) -> int:
    data = bytes(data)
    if len(data) == 5 and data[:1] in (b"H", b"N") and data[3:] in (b"\x7e\x11", b"\x7d\x13"):
        return data[1] | (data[2] << 8)
    return -1


def clean(f: dict) -> dict:
    """frame record as the specification writes it (payload token instead of bytes, no harness extras)"""
    f = dict(f)
    f.pop("cancel", None)
    f.pop("residue", None)
    if f["type"] == "DATA":
        f["pl"] = token(bytes(f["pl"]))
    return f


class HostRig:
    def __init__(self, loop: vloop.VLoop):
        import bellows.ash as ash
        self.ash = ash
        self.loop = loop
        self.out: list[dict] = []
        self.tr = FakeSerialTransport()
        self.tr.on_write = self._on_write
        self.p = ash.AshProtocol(self)
        self.p.connection_made(self.tr)
        self.out.clear()
        self.tasks: dict[int, asyncio.Task] = {}
        self.trace: list[dict] = []
        self.raised: list[str] = []

    # ---- upper layer seam (what bellows.uart.Gateway normally is)
    def connection_made(self, transport):
        pass

    up_raise_next = False          # the upper layer raises out of its next data_received / reset_received (after having taken the delivery)
    _upraised = 0

    def _maybe_raise(self):
        if self.up_raise_next:
            self.up_raise_next = False
            self._upraised = 1
            raise RuntimeError("upper layer failed while consuming a delivery")

    def data_received(self, data):
        self.out.append({"o": "up_data", "pl": token(data)})
        self._maybe_raise()

    def reset_received(self, code):
        self.out.append({"o": "up_reset", "code": int(code)})
        self._maybe_raise()

    def connection_lost(self, exc):
        self.out.append({"o": "up_lost"})

    def eof_received(self):
        self.out.append({"o": "up_eof"})

    # ---- serial seam
    write_fail_next = False        # the transport raises out of the next write() that carries a DATA frame

    def _on_write(self, data: bytes):
        if self.write_fail_next and any(f["type"] == "DATA" for f in ashref.decode_write(data)):
            self.write_fail_next = False
            raise OSError("serial write failed")
        for f in ashref.decode_write(data):
            self.out.append({"o": "write", "f": clean(f)})

    # ---- loop control
    async def settle(self):
        for _ in range(200):
            await asyncio.sleep(0)
            if not self.loop._ready:
                return
        raise RuntimeError("loop does not become idle")

    def next_timer(self):
        ws = [h._when for h in self.loop._scheduled if not h._cancelled]
        return min(ws) if ws else None

    def _event(self, ev):
        ev["out"] = self.out
        ev["upraise"], self._upraised = self._upraised, 0
        ev["t"] = self.loop.ms
        self.out = []
        self.trace.append(ev)
        return ev

    # ---- inputs
    async def submit(self, i: int):
        async def call():
            ash = self.ash
            try:
                await self.p.send_data(host_payload(i))
                res = "ok"
            except ash.NotAcked:
                res = "nak"
            except asyncio.TimeoutError:
                res = "timeout"
            except ash.NcpFailure:
                res = "ncpfail"
            except asyncio.CancelledError:
                res = "cancelled"
            except OSError:
                res = "writeerr"
            except Exception as e:  # noqa
                res = "exc:" + type(e).__name__
            if res != "cancelled":
                self.out.append({"o": "done", "id": i, "res": res})
        self.tasks[i] = asyncio.Task(call(), loop=self.loop, eager_start=True)
        await self.settle()
        return self._event({"a": "submit", "id": i, "pl": i})

    def _feed(self, data: bytes):
        try:
            self.p.data_received(data)
        except BaseException as e:  # an exception escaping the receive callback is itself observable
            self.raised.append(type(e).__name__)
            self.out.append({"o": "raised", "exc": type(e).__name__})

    async def recv(self, frames: list[dict], late: bool = False, raw: bytes | None = None, slow: bool = False):
        """slow: the read happens 1 ms before the pending ACK timer would fire (an answer that is late but in time)"""
        data = raw if raw is not None else b"".join(ashref.wire(self._bytes_frame(f)) for f in frames)
        if slow and self.next_timer() is not None:
            self.loop._vnow = max(self.loop._vnow, self.next_timer() - 0.001)
        if late:
            when = self.next_timer()
            assert when is not None
            self.loop._vnow = when
            self.loop.call_soon(self._feed, data)
        else:
            self._feed(data)
        await self.settle()
        return self._event({"a": "recv", "fs": frames, "late": 1 if late else 0})

    @staticmethod
    def _bytes_frame(f):
        if f["type"] == "DATA":
            g = dict(f)
            g["pl"] = list(ncp_payload(f["pl"]))
            return g
        return f

    async def tick(self):
        when = self.next_timer()
        if when is None:
            return None
        self.loop._vnow = max(self.loop._vnow, when)
        await self.settle()
        return self._event({"a": "tick"})

    async def hostreset(self):
        """the host writes an RST (AshProtocol.send_reset, as Gateway.reset() does): the link stays as it is until the RSTACK arrives"""
        try:
            self.p.send_reset()
        except BaseException as e:  # noqa
            self.out.append({"o": "raised", "exc": type(e).__name__})
        await self.settle()
        return self._event({"a": "hostreset"})

    async def cancel(self, i: int):
        self.tasks[i].cancel()
        await self.settle()
        return self._event({"a": "cancel", "id": i})

    async def end(self, max_ticks: int = 64):
        """Let every timer run out, then report callers that never got an outcome."""
        for _ in range(max_ticks):
            if self.next_timer() is None:
                break
            await self.tick()
        await self.settle()
        pending = sorted(i for i, t in self.tasks.items() if not t.done())
        ev = self._event({"a": "end", "pending": pending})
        return ev


def run_script(script):
    """script: async function(rig) driving the rig.  Returns the recorded trace."""
    async def main(loop):
        rig = HostRig(loop)
        await script(rig)
        if not rig.trace or rig.trace[-1]["a"] != "end":
            await rig.end()
        return rig.trace
    return vloop.run(main)
