"""C03 - ASH frames on the wire follow the specified layout bit for bit.

spec/AshCodec.tla is the independently written encoder/decoder.  TLC checks it against
itself (AshCodecMC: round trips, no reserved bytes after stuffing, all 1-/2-bit flips
rejected, documented ASH examples) and then judges vectors recorded from the real
bellows.ash code (Trace_AshCodec)."""
from __future__ import annotations

import itertools

from . import ashref, tlc as T
from .core import Ctx
from .seams import FakeSerialTransport, UpperRecorder

RES = [0x7E, 0x7D, 0x11, 0x13, 0x18, 0x1A]


def frame_obj(f):
    import bellows.ash as ash
    import bellows.types as t
    ty = f["type"]
    if ty == "DATA":
        return ash.DataFrame(frm_num=f["frm"], re_tx=f["retx"], ack_num=f["ack"], ezsp_frame=bytes(f["pl"]))
    if ty == "ACK":
        return ash.AckFrame(res=f["res"], ncp_ready=f["nrdy"], ack_num=f["ack"])
    if ty == "NAK":
        return ash.NakFrame(res=f["res"], ncp_ready=f["nrdy"], ack_num=f["ack"])
    if ty == "RST":
        return ash.RstFrame()
    if ty == "RSTACK":
        return ash.RStackFrame(version=f["ver"], reset_code=t.NcpResetCode(f["code"]))
    if ty == "ERROR":
        return ash.ErrorFrame(version=f["ver"], reset_code=t.NcpResetCode(f["code"]))
    raise ValueError(ty)


def frame_rec(o) -> dict:
    n = type(o).__name__
    if n == "DataFrame":
        return {"type": "DATA", "frm": int(o.frm_num), "retx": int(o.re_tx), "ack": int(o.ack_num),
                "pl": list(o.ezsp_frame)}
    if n in ("AckFrame", "NakFrame"):
        return {"type": "ACK" if n == "AckFrame" else "NAK", "res": int(o.res), "nrdy": int(o.ncp_ready),
                "ack": int(o.ack_num)}
    if n == "RstFrame":
        return {"type": "RST"}
    if n in ("RStackFrame", "ErrorFrame"):
        return {"type": "RSTACK" if n == "RStackFrame" else "ERROR", "ver": int(o.version), "code": int(o.reset_code)}
    raise ValueError(n)


def real_parse(data: bytes) -> dict:
    import bellows.ash as ash
    try:
        return frame_rec(ash.parse_frame(bytes(data)))
    except BaseException:
        return {"type": "INVALID"}


class Real:
    """vector producers backed by the real code"""
    name = "impl"

    def __init__(self):
        import bellows.ash as ash
        self.ash = ash
        self.tr = FakeSerialTransport()
        self.p = ash.AshProtocol(UpperRecorder(lambda e: None))
        self.p._transport = self.tr

    def enc(self, f, cancel):
        # an exception out of the encoder is an observable outcome (no bytes), not a failure of the harness
        try:
            o = frame_obj(f)
            b = o.to_bytes()
        except BaseException as e:  # noqa
            return {"a": "enc", "f": f, "cancel": int(cancel), "bytes": [], "wire": [], "back": {"type": "INVALID"}, "raised": type(e).__name__}
        self.tr.writes.clear()
        try:
            self.p._write_frame(o, prefix=(self.ash.Reserved.CANCEL,) if cancel else ())
        except BaseException as e:  # noqa
            return {"a": "enc", "f": f, "cancel": int(cancel), "bytes": list(b), "wire": [], "back": real_parse(b), "raised": type(e).__name__}
        w = b"".join(self.tr.writes)
        return {"a": "enc", "f": f, "cancel": int(cancel), "bytes": list(b), "wire": list(w), "back": real_parse(b)}

    def parse(self, data):
        return {"a": "parse", "bytes": list(data), "got": real_parse(bytes(data))}

    def stuff(self, data):
        try:
            s = bytes(self.ash.AshProtocol._stuff_bytes(bytes(data)))
        except BaseException:
            return {"a": "stuff", "bytes": list(data), "out": [], "back": ["raised"]}
        try:
            back = list(self.ash.AshProtocol._unstuff_bytes(s))
        except BaseException:
            back = ["raised"]
        return {"a": "stuff", "bytes": list(data), "out": list(s), "back": back}

    def unstuff(self, data):
        try:
            out = list(self.ash.AshProtocol._unstuff_bytes(bytes(data)))
            return {"a": "unstuff", "bytes": list(data), "ok": True, "out": out}
        except BaseException:
            return {"a": "unstuff", "bytes": list(data), "ok": False, "out": []}

    def rand(self):
        try:
            return {"a": "rand", "out": list(self.ash.generate_random_sequence(256))}
        except BaseException as e:  # noqa
            return {"a": "rand", "out": [], "raised": type(e).__name__}


class Ref:
    """the harness's own codec, checked against the same specification"""
    name = "ashref"

    def enc(self, f, cancel):
        b = ashref.encode(f)
        return {"a": "enc", "f": f, "cancel": int(cancel), "bytes": list(b), "wire": list(ashref.wire(f, cancel)),
                "back": ashref.parse(b)}

    def parse(self, data):
        return {"a": "parse", "bytes": list(data), "got": ashref.parse(bytes(data))}

    def stuff(self, data):
        s = ashref.stuff(bytes(data))
        return {"a": "stuff", "bytes": list(data), "out": list(s), "back": list(ashref.unstuff(s) or [])}

    def unstuff(self, data):
        u = ashref.unstuff(bytes(data))
        return {"a": "unstuff", "bytes": list(data), "ok": u is not None, "out": list(u or b"")}

    def rand(self):
        return {"a": "rand", "out": ashref.lfsr(256)}


def payloads(n, rng):
    l = ashref.lfsr(256)
    yield [0] * n
    yield [0xFF] * n
    yield [RES[i % 6] for i in range(n)]
    yield l[:n]                                   # randomises to all zeros
    yield [l[i] ^ RES[(i * 5 + 1) % 6] for i in range(n)]   # randomises to reserved bytes only
    yield [rng.randrange(256) for _ in range(n)]


def vectors(src, ctx: Ctx, rng):
    ev = [src.rand()]
    quick = ctx.quick
    # every control-field combination of DATA with short payloads
    k = 0
    for frm in range(8):
        for retx in (0, 1):
            for ack in range(8):
                k += 1
                pl = [[], [0x7E], [0x7D, 0x5E], [rng.randrange(256) for _ in range(3)]][k % 4]
                ev.append(src.enc({"type": "DATA", "frm": frm, "retx": retx, "ack": ack, "pl": pl}, k % 5 == 0))
    # payloads of every length 0..200
    for n in range(0, 201):
        for j, pl in enumerate(payloads(n, rng)):
            if quick and (n + j) % 3 and n not in (0, 1, 2, 3, 127, 128, 129, 199, 200):
                continue
            ev.append(src.enc({"type": "DATA", "frm": n % 8, "retx": j % 2, "ack": (n + j) % 8, "pl": pl}, False))
            if not quick:                   # thorough: every length again with fresh random contents and every control-field residue
                for r in range(6):
                    ev.append(src.enc({"type": "DATA", "frm": (n + r) % 8, "retx": r % 2, "ack": (n * 3 + r) % 8,
                                       "pl": [rng.randrange(256) for _ in range(n)]}, r == 5))
    for ty in ("ACK", "NAK"):
        for res in (0, 1):
            for nrdy in (0, 1):
                for ack in range(8):
                    ev.append(src.enc({"type": ty, "res": res, "nrdy": nrdy, "ack": ack}, ty == "NAK"))
    ev.append(src.enc({"type": "RST"}, True))
    ev.append(src.enc({"type": "RST"}, False))
    for code in range(256):
        ev.append(src.enc({"type": "RSTACK", "ver": 2, "code": code}, False))
        ev.append(src.enc({"type": "ERROR", "ver": 2, "code": code}, False))
    # classification: all 256 control bytes, valid CRC, data lengths 0..3
    for c in range(256):
        for n in range(4):
            for variant in range(1 if quick else 8):
                data = [2, 11, 7][:n] if variant == 0 else [rng.randrange(256) for _ in range(n)]
                body = bytes([c] + data)
                crc = ashref.crc16(body)
                ev.append(src.parse(body + bytes((crc >> 8, crc & 0xFF))))
    for raw in ([], [0xC0], [0xC0, 0x38], [0xC0, 0x38, 0xBC], [0xC0, 0x38, 0xBD], [0xC0, 0xBC, 0x38]):
        ev.append(src.parse(raw))
    # 1- and 2-bit corruptions of short frames, before stuffing
    bases = [{"type": "RST"}, {"type": "ACK", "res": 0, "nrdy": 0, "ack": 3}, {"type": "NAK", "res": 0, "nrdy": 0, "ack": 7},
             {"type": "RSTACK", "ver": 2, "code": 11}, {"type": "ERROR", "ver": 2, "code": 81},
             {"type": "DATA", "frm": 5, "retx": 1, "ack": 2, "pl": []},
             {"type": "DATA", "frm": 0, "retx": 0, "ack": 0, "pl": [0x7E]},
             {"type": "DATA", "frm": 7, "retx": 0, "ack": 7, "pl": [0x00, 0x42, 0x21]}]
    if not quick:
        for _ in range(200):
            bases.append({"type": "DATA", "frm": rng.randrange(8), "retx": rng.randrange(2), "ack": rng.randrange(8),
                          "pl": [rng.randrange(256) for _ in range(rng.randrange(0, 4))]})
    for f in bases:
        e = ashref.encode(f)
        nb = len(e) * 8
        for i in range(nb):
            x = bytearray(e)
            x[i // 8] ^= 1 << (i % 8)
            ev.append(src.parse(bytes(x)))
            for j in range(i + 1, nb):
                if quick and (i * 31 + j) % 4:
                    continue
                y = bytearray(x)
                y[j // 8] ^= 1 << (j % 8)
                ev.append(src.parse(bytes(y)))
    # stuffing over a reserved-rich alphabet
    alpha = RES + [0x5E, 0x5D, 0x31, 0x00]
    for n in range(0, 3 if quick else 5):
        for s in itertools.product(alpha, repeat=n):
            ev.append(src.stuff(list(s)))
            ev.append(src.unstuff(list(s)))
    for _ in range(50 if quick else 20000):
        s = [rng.choice(alpha + [rng.randrange(256)]) for _ in range(rng.randrange(1, 40))]
        ev.append(src.stuff(s))
        ev.append(src.unstuff(s))
    return ev


def chunk(events, size=150):
    return [events[i:i + size] for i in range(0, len(events), size)]


def run(ctx: Ctx):
    import random
    if ctx.quick:
        consts = {"PlBytes": "{0, 126}", "MaxPl": "2", "Codes": "{2, 11, 81}"}
    else:
        consts = {"PlBytes": "{0, 126, 17, 255}", "MaxPl": "2", "Codes": "{" + ", ".join(map(str, range(256))) + "}"}
    ctx.model_check("AshCodecMC", "MC_AshCodec", constants=consts,
                    invariants=("RoundTrip", "WireRoundTrip", "NoReservedOnWire", "ClassOk", "BitFlipsRejected"),
                    coverage=False, gc="serial")
    # harness codec against the specification first (machinery self-check, never a violation)
    ref_tr = chunk(vectors(Ref(), ctx, random.Random(ctx.seed + 1)))
    from . import trace as TR
    r = TR.validate("Trace_AshCodec", ref_tr, workdir=ctx.workdir)
    if r.rejected:
        v = r.rejected[0]
        raise T.MachineryError(f"harness codec ashref.py disagrees with AshCodec.tla: {ref_tr[v.index][(v.stuck_at or 1) - 1]}")
    ctx.notes["ashref_vectors_validated"] = sum(len(t) for t in ref_tr)
    ctx.states += r.distinct
    ctx.transitions += r.generated
    ev = vectors(Real(), ctx, random.Random(ctx.seed + 1))
    traces = chunk(ev)
    metas = [{"chunk": i} for i in range(len(traces))]

    def sig(meta, v, tr):
        e = tr[v.stuck_at - 1] if v.stuck_at and v.stuck_at <= len(tr) else {}
        key = e.get("a", "?")
        if key == "enc":
            key += ":" + e["f"]["type"]
        return f"trace:AshCodec:{key}"
    ctx.validate_traces("Trace_AshCodec", traces, metas=metas, label="codec vectors", sig=sig)
    ctx.events_validated = len(ev)
    ctx.evaluations = len(ev)
    ctx.distinct_nontrivial = len({str(e) for e in ev})
    ctx.rule = ("one vector per (frame or byte string) of the enumerated domain: all DATA control-field combinations, "
                "payload lengths 0..200 x 6 payload kinds, all ACK/NAK bit combinations, 256 reset codes for RSTACK and ERROR, "
                "256 control bytes x data lengths 0..3 with valid CRC, all 1-bit and 2-bit corruptions of short frames, "
                "stuff/unstuff over a reserved-rich alphabet; distinct = distinct event records")
    ctx.add_sample(ev[5])
    ctx.add_sample(next(e for e in ev if e["a"] == "parse"))
    ctx.exhaustive = False
    ctx.assumptions += ["ASH text as transcribed in spec/AshCodec.tla (anchored by the documented example frames in AshCodecMC ASSUMEs)",
                        "ACK/NAK frames with surplus data bytes and DATA payload lengths outside 3..128 are accepted by the reference decoder (latitude)"]


def replay(ctx: Ctx, data):
    tr = data["replay"]["trace"]
    stuck = data["replay"].get("stuck_at") or 1
    e = tr[stuck - 1]
    src = Real()
    if e["a"] == "enc":
        ne = src.enc(e["f"], bool(e["cancel"]))
    elif e["a"] == "parse":
        ne = src.parse(e["bytes"])
    elif e["a"] == "stuff":
        ne = src.stuff(e["bytes"])
    elif e["a"] == "unstuff":
        ne = src.unstuff(e["bytes"])
    else:
        ne = src.rand()
    ctx.validate_traces("Trace_AshCodec", [[ne]], metas=[{"chunk": 0}], label="codec vectors")
    ctx.add_sample(ne)
