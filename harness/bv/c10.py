"""C10 - NCP failure or connection loss at any moment is reported and never hangs.

spec/Failure.tla abstracts the vertical slice AshProtocol / Gateway / EZSP / application callback; FailureMC enables
every failure kind in every state and checks reporting, stopping, silence and termination (liveness).  The real
stack (EZSP over uart.connect, Gateway, AshProtocol on a fake serial line against the simulated NCP) runs scripted
workloads; every failure kind is injected after each wire event of the fault-free run - as its own event-loop
callback and queued right behind the event - and TLC judges the recorded events (Trace_Failure)."""
from __future__ import annotations

import asyncio

from . import stackrig, vloop
from .c04 import host_consts, pmap
from .core import Ctx

KINDS = ("error", "rstack", "silent", "lost", "eof")
WORKLOADS = ("idle", "one", "three", "reset", "late_issue", "scan", "scanned_one", "one_silent")


def run_case(case):
    """case = (ver, registered, workload, kind, k, placement, code)  k = wire-event index after which the failure
    is injected (None: fault-free reference run); kind 'close' = deliberate close"""
    ver, registered, workload, kind, k, placement, code = case[:7]
    # scan workload: when the startScan COMMAND had been answered before the failure came, the list operation goes on waiting for its completion
    # callback, which has no timeout of its own (C17) - that is not a command call in progress, and it is left out of the pending set

    async def main(loop):
        rig = stackrig.StackRig(loop, ver, "/dev/ttyFAKE0", 1)
        ezsp = await rig.connect(None)
        t0 = asyncio.ensure_future(ezsp.startup_reset())
        await rig.run_until(t0, 30)
        events = [{"a": "cfg", "registered": 1 if registered else 0, "workload": workload, "kind": kind, "ver": ver,
                   "oneshot": 1 if registered == "oneshot" else 0}]

        def ev(d):
            d["t"] = loop.ms
            events.append(d)
        if registered:
            cbid = []

            def cb(name, args):
                if name == "_reset_controller_application":
                    ev({"a": "request"})
                    rig.failed_at = loop.ms
                    if registered == "oneshot" and cbid:
                        ezsp.remove_callback(cbid.pop())         # a one-shot listener: unregisters itself while handling the request
            cbid.append(ezsp.add_callback(cb))
        import bellows.types as t_
        if workload in ("scan", "scanned_one"):
            # a list command (energy scan): the NCP answers, reports one result and the completion
            cmds_ = rig.peer.ezsp.cmds
            sty = list(cmds_["scanCompleteHandler"][2].values())[1]
            rig.peer.ezsp.script["startScan"] = ("seq", "reply", ("callback", "energyScanResultHandler", [11, -40]),
                                                 ("callback", "scanCompleteHandler", [0, sty(0)]))

            def scan():
                return ezsp.startScan(t_.EzspNetworkScanType.ENERGY_SCAN, t_.Channels.ALL_CHANNELS, 3)
        if workload == "scanned_one":
            # the list command has COMPLETED before anything is counted or injected: its temporary callback is gone again
            ts = asyncio.ensure_future(scan())
            await rig.run_until(ts, 30)
            if ts.exception() is not None:
                raise RuntimeError(f"reference scan failed: {ts.exception()!r}")
        # ---- wire-event counting and injection
        state = {"n": 0, "armed": k is not None, "done": False}

        def inject():
            if state["done"]:
                return
            state["done"] = True
            if kind == "cancelcaller":
                # not a failure of its own: the caller of the command in flight gives up while the (silent) NCP is still being retried -
                # the link's verdict must reach the application all the same
                if 1 in calls and not calls[1].done():
                    calls[1].cancel()
                return
            ev({"a": "fail" if kind not in ("close", "close_slow") else "close", "kind": kind})
            if kind == "error":
                rig._read(stackrig.ashref.wire({"type": "ERROR", "ver": 2, "code": code}))
            elif kind == "rstack":
                rig._read(stackrig.ashref.wire({"type": "RSTACK", "ver": 2, "code": code}))
            elif kind == "silent":
                rig.peer.silent = True
            elif kind == "lost":
                rig.lose("exc")
            elif kind == "eof":
                rig.lose("eof")
            elif kind in ("close", "close_slow"):
                if kind == "close_slow":
                    # the transport cannot flush its output: it reports the closed connection only a minute later
                    rig.tr.on_close = lambda: loop.call_later(60, rig._closed)
                ezsp.close()
        orig_deliver, orig_on_write = rig.deliver, rig._on_write

        def count(fn_schedule):
            state["n"] += 1
            if state["armed"] and state["n"] == k:
                if placement == "same":
                    loop.call_soon(inject)              # queued right behind the k-th wire event
                else:
                    loop.call_soon(lambda: loop.call_soon(inject))   # its own, later callback

        def deliver(raw):
            orig_deliver(raw)
            count(None)

        def on_write(data):
            if rig.failed_at is not None or rig.lost:
                ev({"a": "write"})
            orig_on_write(data)
            count(None)
        rig.deliver = deliver
        rig.tr.on_write = on_write
        # ---- workload
        calls = {}

        def issue(c, coro_fn):
            async def call():
                ev({"a": "issue", "c": c})
                try:
                    await coro_fn()
                    res = "ok"
                except BaseException as e:  # noqa
                    res = "exc:" + type(e).__name__
                if not state.get("ended"):
                    ev({"a": "complete", "c": c, "res": res})
            calls[c] = asyncio.Task(call(), loop=loop, eager_start=True)
        if k == 0 and state["armed"]:
            inject()
        if workload == "one_silent":
            rig.peer.silent = True          # the NCP has stopped acknowledging: the command's frame is retransmitted until the budget is used up
            ev({"a": "fail", "kind": "silent"})
        if workload == "scan":
            issue(1, scan)
            state["scan_regs"] = [reg[-1] for reg in ezsp._protocol._awaiting.values()]     # the registration of the scan's own command
        elif workload in ("one", "scanned_one", "one_silent"):
            issue(1, lambda: ezsp.getConfigurationValue(t_.EzspConfigId.CONFIG_STACK_PROFILE))
        elif workload == "three":
            issue(1, lambda: ezsp.getConfigurationValue(t_.EzspConfigId.CONFIG_STACK_PROFILE))
            issue(2, lambda: ezsp.getValue(t_.EzspValueId.VALUE_FREE_BUFFERS))
            issue(3, lambda: ezsp.nop())
        elif workload == "reset":
            issue(1, lambda: ezsp.reset())
        elif workload == "late_issue":
            pass
        await rig.settle()
        if k is not None and not state["done"] and workload in ("idle", "late_issue"):
            inject()
            await rig.settle()
        if workload == "late_issue":
            # a command issued after the failure happened but (for a silent NCP) before it is known
            if ezsp.is_ezsp_running:
                issue(4, lambda: ezsp.getConfigurationValue(t_.EzspConfigId.CONFIG_STACK_PROFILE))
        # run until everything ended (bounded virtual time)
        deadline = loop.time() + 90
        while loop.time() < deadline:
            await rig.settle()
            if all(t.done() for t in calls.values()) and (state["done"] or k is None) and not (kind == "cancelcaller" and rig.failed_at is None):
                break           # (after a cancelled caller the retransmissions go on: wait for the link's verdict)
            when = rig.next_timer()
            if when is None:
                break
            loop._vnow = max(loop._vnow, when)
        await rig.settle()
        if k is not None and not state["done"]:
            inject()                        # the workload finished before the k-th event: failure while idle
            await rig.settle()
            for _ in range(40):
                when = rig.next_timer()
                if when is None:
                    break
                loop._vnow = max(loop._vnow, when)
                await rig.settle()
        if kind == "silent" and state["done"] and rig.failed_at is None and ezsp.is_ezsp_running:
            # a silent NCP is only noticed when something is sent: the keep-alive a watchdog would issue
            issue(9, lambda: ezsp.nop())
            for _ in range(40):
                await rig.settle()
                if calls[9].done():
                    break
                when = rig.next_timer()
                if when is None:
                    break
                loop._vnow = max(loop._vnow, when)
        # probe: a new command once the failure is known
        if rig.failed_at is not None or kind in ("close", "close_slow"):
            n_w = len(rig.tr.writes)
            try:
                ptask = asyncio.Task(ezsp.getConfigurationValue(t_.EzspConfigId.CONFIG_STACK_PROFILE), loop=loop, eager_start=True)
                await rig.settle()
                if ptask.done():
                    res = type(ptask.exception()).__name__ if ptask.exception() else "ok"
                else:
                    res = "pending"
                    ptask.cancel()
            except Exception as e:  # noqa
                res = type(e).__name__
            if kind not in ("close", "close_slow"):
                ev({"a": "probe", "res": res, "wrote": 1 if len(rig.tr.writes) > n_w else 0})
        for n in rig.notes:
            if n["o"] == "raised":
                events.append({"a": "raised", "where": n["where"], "exc": n["exc"], "t": n["t"]})
        pending = sorted(c for c, t in calls.items() if not t.done())
        scanwait = 0
        if workload == "scan" and pending == [1]:
            # still registered with an unresolved future = the COMMAND is outstanding (that would be a hang); otherwise the command was
            # answered and the list operation waits for its completion callback
            outstanding = any(not f.done() for f in state.get("scan_regs", []))
            if not outstanding:
                pending, scanwait = [], 1
                state["ended"] = True
                calls[1].cancel()
        events.append({"a": "end", "pending": pending, "running": 1 if ezsp.is_ezsp_running else 0, "t": loop.ms, "wire_events": state["n"],
                       "scanwait": scanwait})
        return events
    return vloop.run(main)


def sig(meta, v, tr):
    e = tr[v.stuck_at - 1] if v.stuck_at and v.stuck_at <= len(tr) else {}
    return (f"trace:Failure:{e.get('a')}:{e.get('res', e.get('exc', ''))}:kind={meta[3]}:workload={meta[2]}:"
            f"registered={int(bool(meta[1]))}:placement={meta[5]}")


def consts():
    import bellows.ezsp.protocol as p
    h = host_consts()
    return {"CmdTimeout": str(int(p.EZSP_CMD_TIMEOUT * 1000)), "LinkTimeout": str(int(h["MaxAtt"]) * 3200)}


def run(ctx: Ctx):
    ctx.model_check("FailureMC", "MC_Failure", constants={"CmdTimeout": "10", "LinkTimeout": "16", "NCmds": "3"},
                    invariants=("Reported", "Stopped", "NoRequestOnClose", "NoRequestUnregistered"), properties=("CallsEnd",),
                    required_actions=("IssueCmd", "SendOk", "SendFails", "Exhaust", "Reply", "CmdTimeoutFires", "FailNow", "Close"), workers=8)
    cases = []
    vers = (8, 4) if ctx.quick else tuple(range(4, 15))
    # reference runs give the number of wire events per workload
    refs = {}
    for ver in vers:
        for wl in WORKLOADS:
            tr = run_case((ver, True, wl, "none", None, "own", 0))
            refs[(ver, wl)] = tr[-1]["wire_events"]
    ctx.notes["wire_events_per_workload"] = {f"v{k[0]}:{k[1]}": v for k, v in refs.items()}
    rng = ctx.rng
    for ver in vers:
        for wl in WORKLOADS:
            n = refs[(ver, wl)]
            for kind in KINDS + ("close", "close_slow", "cancelcaller"):
                if wl == "one_silent" and kind not in ("close", "close_slow", "lost", "eof", "cancelcaller"):
                    continue
                if kind == "cancelcaller" and wl != "one_silent":
                    continue
                if kind == "silent" and wl == "reset":
                    continue      # an unanswered RST is reported by reset() itself (C11), the EZSP layer stays stopped
                codes = (0x51, 0x02, 0x80) if kind in ("error", "rstack") else (0,)
                if not ctx.quick and kind in ("error", "rstack"):
                    codes = (0x51, 0x52, 0x80, 0x00, 0x01, 0x02, 0x03, 0x06, 0x09, 0xFF)
                for k in range(0, n + 2):
                    for placement in ("own", "same"):
                        for reg in (True, False, "oneshot"):
                            if reg is not True and (k % 3 or placement == "same") and ctx.quick:
                                continue
                            if reg == "oneshot" and (kind in ("close", "close_slow", "cancelcaller") or wl not in ("idle", "one", "late_issue")):
                                continue
                            code = codes[(k + len(cases)) % len(codes)]
                            if kind == "rstack" and code == 0x0B:
                                continue
                            cases.append((ver, reg, wl, kind, k, placement, code))
    traces = pmap(run_case, cases, chunksize=8)
    ctx.evaluations = len(traces)
    ctx.distinct_nontrivial = len({str(c) for c in cases})
    ctx.rule = ("after bring-up to the given version: workloads {idle, one command, three commands (one in flight, two queued), EZSP.reset() in progress, an energy scan (list command) in progress, one command after a completed scan, "
                "command issued after the failure} x failure kinds {ERROR(code), unsolicited RSTACK(code != software), silent NCP, connection_lost(exc), EOF, "
                "deliberate close} injected after every wire event of the fault-free run (0..n+1), as its own callback and queued right behind the event, "
                "with and without a registered application callback; distinct = distinct case")
    ctx.add_sample({"case": cases[len(cases) // 2], "trace": traces[len(cases) // 2]})
    ctx.validate_traces("Trace_Failure", traces, constants=consts(), metas=[list(c) for c in cases], label="failure", sig=sig)
    # the same statements end to end: the composed host stack (Stack.tla) against a faulty line and a conforming NCP
    from . import stackx
    stackx.model_check(ctx, "failure")
    stackx.run_traces(ctx, "failure")
    ctx.exhaustive = False
    ctx.assumptions += ["full-stack rig (fake serial transport, simulated ASH + EZSP NCP), virtual time",
                        "the failure is 'known' when the application callback fires; a silent NCP is retried until the ASH budget is exhausted",
                        "the termination bound (command timeout + retry budget x 3.2 s) is claimed, as in the property, once an application callback is registered"]


def replay(ctx: Ctx, data):
    if data["replay"].get("module") == "Trace_Stack":
        from . import stackx
        return stackx.replay(ctx, data)
    m = data["replay"]["meta"]
    tr = run_case(tuple(m))
    ctx.validate_traces("Trace_Failure", [tr], constants=consts(), metas=[m], label="failure", sig=sig)
    ctx.add_sample(tr)
