"""X02 (extension, not one of the listed properties) - the temporary manufacturer-code override.

spec/MfgOverride.tla models ControllerApplication._handle_tc_join_handler / _reset_mfg_id as step functions (join, response, timer);
MfgOverrideMC closes it with joins at any instant and an NCP that answers at once, late or never, and checks that the vendor code is
active while the task sleeps, that the default is back whenever nothing is pending, and (fair time) that every override ends.  The
real application runs in virtual time against the simulated EZSP NCP: trust-centre join callbacks of vendor-prefixed and ordinary
devices at chosen instants (same instant, inside a command's response window, around the command timeout, around the end of the
override), each setManufacturerCode answered at once / late / never; TLC judges every step (Trace_MfgOverride)."""
from __future__ import annotations

import asyncio
import random

from . import apprig, ncp_ezsp, vloop
from .c04 import pmap
from .core import Ctx

LEVEL = "model_checking"
ID_TCJOIN = 0x24
PREFIXES = ([0x8C, 0xCF, 0x04], [0x44, 0xEF, 0x54])         # little-endian tails of 04:CF:8C / 54:EF:44
LATE_MS = (137, 2503)


def consts():
    import bellows.zigbee.application as app_mod
    import bellows.ezsp.protocol as proto
    return {"Default": int(app_mod.DEFAULT_MFG_ID), "Delay": int(app_mod.MFG_ID_RESET_DELAY * 1000),
            "CmdTimeout": int(proto.EZSP_CMD_TIMEOUT * 1000)}


def gen_case(ver, rng: random.Random, k):
    """a schedule: list of (gap_ms to the previous join, special?, prefix index, status, decision)"""
    c = consts()
    gaps = (0, 50, 150, 1000, 2550, c["CmdTimeout"] - 50, c["CmdTimeout"], c["CmdTimeout"] + 50, c["Delay"] - 50, c["Delay"], c["Delay"] + 50,
            c["Delay"] + 150, c["Delay"] + c["CmdTimeout"], 2 * c["Delay"] + 1000)
    n = rng.randint(1, 6)
    joins = []
    for _ in range(n):
        joins.append({"gap": rng.choice(gaps), "special": rng.random() < 0.75, "prefix": rng.randrange(2),
                      "status": rng.choice((0, 0, 3, 3, 2)), "decision": rng.choice((0, 0, 0, 1, 2))})
    modes = [rng.choices(("reply", "late0", "late1", "never"), (6, 2, 2, 1 if k % 3 == 0 else 0))[0] for _ in range(4 * n + 4)]
    return {"ver": ver, "joins": joins, "modes": modes}


def run_case(case):
    ver = case["ver"]
    c = consts()

    async def main(loop):
        app, ezsp, gw, ncp = await apprig.make_app(loop, ver)
        app.handle_join = lambda *a, **k: None
        app.handle_leave = lambda *a, **k: None
        t = ncp.t
        state = {"code": c["Default"], "n": 0, "sets": []}
        modes = list(case["modes"])
        late = {}                 # virtual due time (ms) -> command number

        def now_ms():
            return int(round(loop.time() * 1000))

        def on_command(entry):          # the NCP applies a command on receipt, whether or not its answer gets through
            if entry["name"] == "setManufacturerCode":
                a = entry["args"]
                state["code"] = int(a["code"])
                state["n"] += 1
                state["sets"].append(int(a["code"]))
        ncp.on_command = on_command
        cur_mode = {"m": "reply"}

        def beh(name, args):
            m = cur_mode["m"]
            if m == "reply":
                return "reply"
            if m == "never":
                return "noreply"
            d = LATE_MS[int(m[-1])]
            late[now_ms() + d] = state["n"]              # on_command ran before the behaviour is chosen
            return ("late", d / 1000.0)
        ncp.script["setManufacturerCode"] = beh
        layout = ncp_ezsp.layout_of(ver)
        seq = [0]
        events = []

        async def step(fn):
            state["sets"] = []
            raised = 0
            try:
                fn()
            except BaseException:  # noqa
                raised = 1
            await apprig.settle(loop)
            return raised

        def mode_name(m):
            return "late" if m.startswith("late") else m

        t0 = now_ms()
        when = t0
        pending_joins = []
        for j in case["joins"]:
            when += j["gap"]
            pending_joins.append((when, j))
        guard = 0
        while True:
            guard += 1
            if guard > 400:
                events.append({"a": "end", "pending": 1, "ncp": state["code"], "t": now_ms() - t0, "note": "no quiescence"})
                break
            timer = apprig.next_timer(loop)
            tj = pending_joins[0][0] if pending_joins else None
            timer_ms = None if timer is None else int(round(timer * 1000))
            if tj is not None and (timer_ms is None or tj <= timer_ms):
                # the join comes first (also when a timer is due at the same instant: the callback is fed before the loop runs it)
                loop._vnow = max(loop._vnow, tj / 1000.0)
                _w, j = pending_joins.pop(0)
                cur_mode["m"] = modes.pop(0) if modes else "reply"
                ieee = [random.Random(len(events)).randrange(256) for _ in range(5)] + (PREFIXES[j["prefix"]] if j["special"] else [1, 2, 3])
                payload = bytes((0x34, 0x12)) + bytes(ieee) + bytes((j["status"], j["decision"])) + bytes((0, 0))
                # a callback carries the sequence number of the NCP's last response (never that of a command still unanswered)
                frame = ncp_ezsp.make_header(layout, ncp.last_seq, ID_TCJOIN, response=True, callback=True) + payload
                raised = await step(lambda: ezsp.frame_received(frame))
                handed_on = j["status"] != 2 and j["decision"] != 2          # not a departure (DEVICE_LEFT = 2), not denied (DENY_JOIN = 2)
                m = 0x115F if (j["special"] and handed_on) else 0
                events.append({"a": "join", "m": m, "mode": mode_name(cur_mode["m"]), "t": now_ms() - t0, "sets": list(state["sets"]),
                               "ncp": state["code"], "raised": raised, "status": j["status"], "decision": j["decision"]})
                continue
            if timer_ms is None:
                break
            loop._vnow = max(loop._vnow, timer)
            due = now_ms()
            resp = late.pop(due, 0)
            cur_mode["m"] = modes.pop(0) if modes else "reply"
            raised = await step(lambda: None)
            events.append({"a": "tick", "t": due - t0, "resp": resp, "mode": mode_name(cur_mode["m"]), "sets": list(state["sets"]),
                           "ncp": state["code"], "raised": raised})
        task = app._mfg_id_task
        events.append({"a": "end", "pending": int(task is not None and not task.done()), "ncp": state["code"], "t": now_ms() - t0})
        return events
    return vloop.run(main)


def sig(meta, v, tr):
    e = tr[v.stuck_at - 1] if v.stuck_at and v.stuck_at <= len(tr) else {}
    return f"trace:MfgOverride:{v.invariant or e.get('a')}:{e.get('sets')}"


def run(ctx: Ctx):
    c = consts()
    ctx.model_check("MfgOverrideMC", "MC_MfgOverride",
                    constants={"Default": "9", "Delay": "3", "CmdTimeout": "2", "Codes": "{5, 6}", "MaxT": "14" if ctx.quick else "18",
                               "MaxJoins": "3" if ctx.quick else "4"},
                    invariants=("Active", "Restored", "KnownCode", "PendConsistent"), properties=("EveryOverrideEnds",),
                    required_actions=("DoJoin", "DoResp", "DoFire", "Advance"), workers=8)
    n = 40 if ctx.quick else 1500
    cases = [gen_case(ver, random.Random(ctx.seed * 7919 + ver * 131 + k), k) for ver in range(4, 15) for k in range(n)]
    traces = pmap(run_case, cases, chunksize=8)
    ctx.evaluations = sum(len(t) for t in traces)
    ctx.distinct_nontrivial = len({str(t) for t in traces})
    ctx.rule = (f"per protocol version 4..14: {n} schedules of 1..6 trust-centre joins (vendor-prefixed or not, allowed / denied / departures) with gaps "
                "drawn around 0, the command timeout and the override delay, each setManufacturerCode answered at once / after 137 ms / after 2503 ms / "
                "never; distinct = distinct recorded run")
    ctx.add_sample(traces[0][:4])
    consts_tla = {k: str(v) for k, v in c.items()}
    ctx.validate_traces("Trace_MfgOverride", traces, constants=consts_tla, invariants=("Active", "Restored"), metas=cases,
                        label="manufacturer-code override", sig=sig)
    ctx.exhaustive = False
    ctx.assumptions += ["extension beyond the listed properties", "vendor code 0x115F for both prefixes pinned; default code, delay and command timeout read from the tree (configuration)",
                        "zigpy.util.Requests shim; simulated EZSP NCP"]


def replay(ctx: Ctx, data):
    m = data["replay"]["meta"]
    tr = run_case(m)
    ctx.validate_traces("Trace_MfgOverride", [tr], constants={k: str(v) for k, v in consts().items()}, invariants=("Active", "Restored"),
                        metas=[m], label="manufacturer-code override", sig=sig)
    ctx.add_sample(tr[:4])
