"""Independent ASH codec for the harness (written from the ASH text, nothing imported
from bellows.ash, no binascii).  It decodes what the host writes to the fake serial
transport into frame records and encodes what the simulated peer sends.  It is itself
validated against spec/AshCodec.tla by the C03 check (same vectors, second column)."""
from __future__ import annotations

FLAG, ESC, XON, XOFF, SUB, CAN = 0x7E, 0x7D, 0x11, 0x13, 0x18, 0x1A
RESERVED = frozenset((FLAG, ESC, XON, XOFF, SUB, CAN))


def crc16(data) -> int:
    crc = 0xFFFF
    for b in data:
        crc ^= b << 8
        for _ in range(8):
            crc = ((crc << 1) ^ 0x1021) & 0xFFFF if crc & 0x8000 else (crc << 1) & 0xFFFF
    return crc


def lfsr(n: int) -> list[int]:
    out, r = [], 0x42
    for _ in range(n):
        out.append(r)
        r = (r >> 1) ^ 0xB8 if r & 1 else r >> 1
    return out


_LFSR = lfsr(1100)


def randomize(pl) -> bytes:
    return bytes(b ^ _LFSR[i] for i, b in enumerate(pl))


def stuff(data) -> bytes:
    out = bytearray()
    for b in data:
        if b in RESERVED:
            out += bytes((ESC, b ^ 0x20))
        else:
            out.append(b)
    return bytes(out)


def unstuff(data):
    """-> bytes or None if an escape is invalid"""
    out = bytearray()
    esc = False
    for b in data:
        if esc:
            if (b ^ 0x20) not in RESERVED:
                return None
            out.append(b ^ 0x20)
            esc = False
        elif b == ESC:
            esc = True
        else:
            out.append(b)
    return bytes(out)


def ctrl(f: dict) -> int:
    ty = f["type"]
    if ty == "DATA":
        return (f["frm"] << 4) | (f["retx"] << 3) | f["ack"]
    if ty == "ACK":
        return 0x80 | (f.get("res", 0) << 4) | (f.get("nrdy", 0) << 3) | f["ack"]
    if ty == "NAK":
        return 0xA0 | (f.get("res", 0) << 4) | (f.get("nrdy", 0) << 3) | f["ack"]
    return {"RST": 0xC0, "RSTACK": 0xC1, "ERROR": 0xC2}[ty]


def encode(f: dict) -> bytes:
    """unstuffed frame bytes with CRC"""
    body = bytes([ctrl(f)])
    if f["type"] == "DATA":
        body += randomize(bytes(f["pl"]))
    elif f["type"] in ("RSTACK", "ERROR"):
        body += bytes((f.get("ver", 2), f["code"]))
    c = crc16(body)
    return body + bytes((c >> 8, c & 0xFF))


def wire(f: dict, cancel: bool = False) -> bytes:
    return (bytes([CAN]) if cancel else b"") + stuff(encode(f)) + bytes([FLAG])


INVALID = {"type": "INVALID"}


def parse(data) -> dict:
    data = bytes(data)
    if len(data) < 3:
        return dict(INVALID)
    body, crc = data[:-2], data[-2:]
    c = crc16(body)
    if crc != bytes((c >> 8, c & 0xFF)):
        return dict(INVALID)
    cb, rest = body[0], body[1:]
    if cb < 0x80:
        return {"type": "DATA", "frm": (cb >> 4) & 7, "retx": (cb >> 3) & 1, "ack": cb & 7,
                "pl": list(randomize(rest))}
    if cb >> 5 == 4 or cb >> 5 == 5:
        return {"type": "ACK" if cb >> 5 == 4 else "NAK", "res": (cb >> 4) & 1, "nrdy": (cb >> 3) & 1,
                "ack": cb & 7}
    if cb == 0xC0:
        return {"type": "RST"} if not rest else dict(INVALID)
    if cb in (0xC1, 0xC2):
        if len(rest) == 2 and rest[0] == 2:
            return {"type": "RSTACK" if cb == 0xC1 else "ERROR", "ver": 2, "code": rest[1]}
    return dict(INVALID)


def split_writes(data: bytes):
    """Split bytes written by the host into (cancel_prefixed, stuffed_body) per flag-terminated frame.
    Returns (list, residue)."""
    out = []
    cur = bytearray()
    cancel = False
    for b in data:
        if b == FLAG:
            out.append((cancel, bytes(cur)))
            cur = bytearray()
            cancel = False
        elif b == CAN and not cur:
            cancel = True
        else:
            cur.append(b)
    return out, bytes(cur)


def decode_write(data: bytes) -> list[dict]:
    """Decode one transport.write() into frame records (with 'cancel' flag); undecodable -> INVALID."""
    frames, residue = split_writes(data)
    out = []
    for cancel, body in frames:
        u = unstuff(body)
        f = parse(u) if u is not None else dict(INVALID)
        f = dict(f)
        f["cancel"] = 1 if cancel else 0
        out.append(f)
    if residue:
        out.append({"type": "INVALID", "cancel": 0, "residue": list(residue)})
    return out
