"""C19 - the watchdog requests a restart only after the tolerated run of consecutive failures.

spec/Watchdog.tla is model-checked (all outcome sequences up to the bound, both version classes); every
outcome sequence up to length L is executed on the real ControllerApplication._watchdog_feed (real EZSP,
simulated NCP, virtual time: an unanswered keep-alive costs 10 virtual seconds) and validated as a trace;
prefixes of successful feeds put the window across the counter-clear period; the zigpy watchdog loop is
driven as well (connection_lost exactly when the feed raises)."""
from __future__ import annotations

import asyncio
import itertools

from . import compat, ncp_ezsp, vloop
from .c04 import pmap
from .core import Ctx

INVS = ("RaisedIff", "SuccessClears", "KeepAlive", "ClearOnPeriod")


def consts():
    compat.install()
    import bellows.zigbee.application as a
    return {"Max": str(int(a.MAX_WATCHDOG_FAILURES)), "Period": str(int(a.EZSP_COUNTERS_CLEAR_IN_WATCHDOG_PERIODS))}


def run_seq(args):
    ver, prefix, seq, loop_mode = args
    ncount = None
    if ":" in ver:                      # "later:43": an NCP whose counter reads carry 43 values (the host knows 41 counter types)
        ver, ncount = ver.split(":")[0], int(ver.split(":")[1])

    async def main(loop):
        app = compat.make_app()
        ezsp, gw, ncp = await ncp_ezsp.make_ezsp(loop, 4 if ver == "v4" else 8)
        ncp.n_counters = ncount
        app._ezsp = ezsp
        lost = []
        app.connection_lost = lambda exc: lost.append(exc)
        trace = [{"a": "init", "ver": ver}]

        def arm(o):
            ncp.script.clear()
            ezsp.start_ezsp()
            if o == "timeout":
                ncp.script["nop" if ver == "v4" else "readCounters"] = ["noreply"]
                ncp.script["readAndClearCounters"] = ["noreply"]
            elif o == "timeout2":
                ncp.script["getValue"] = ["noreply"]
            elif o == "ezsperr":
                ezsp.stop_ezsp()
            elif o == "okbad":      # the free-buffer read is answered, with an error status
                ncp.script["getValue"] = [("values", [ncp.t.EzspStatus.ERROR_INVALID_ID, b""])]
        if loop_mode:
            app._watchdog_loop  # noqa
            outcomes = ["ok"] * prefix + list(seq)
            it = iter(outcomes)
            state = {"n": 0}
            orig_feed = app._watchdog_feed

            async def feed_wrapper():
                o = next(it, "ok")
                arm(o)
                n0 = len(ncp.log)
                ev = {"a": "feed", "o": o, "raised": 0, "exc": "", "lost": 0}
                try:
                    await orig_feed()
                except BaseException as e:  # noqa
                    ev["raised"] = 1
                    ev["exc"] = type(e).__name__
                    ev["cmds"] = [x["name"] for x in ncp.log[n0:]]
                    ev["lost"] = 1      # provisional: confirmed below after the loop reacted
                    trace.append(ev)
                    raise
                ev["cmds"] = [x["name"] for x in ncp.log[n0:]]
                trace.append(ev)
            app._watchdog_feed = feed_wrapper
            task = asyncio.ensure_future(app._watchdog_loop())
            for _ in range(len(outcomes) + 2):
                if task.done():
                    break
                await asyncio.sleep(app._watchdog_period + 25)
            if not task.done():
                task.cancel()
            # zigpy must have been told exactly when a feed raised
            for ev in trace[1:]:
                ev["lost"] = 1 if (ev["raised"] and lost) else 0
            if lost and not any(ev["raised"] for ev in trace[1:]):
                trace.append({"a": "feed", "o": "ok", "raised": 0, "exc": "", "cmds": ["spurious connection_lost"], "lost": 1})
            return trace
        if any(o == "cb" for o in seq):
            ezsp.add_callback(app.ezsp_callback_handler)        # as start_network does
            app.packet_received = lambda pkt: None
        for o in ["ok"] * prefix + list(seq):
            if o == "cancel":
                # the caller of the feed is cancelled while the keep-alive is outstanding
                arm("timeout")
                n0 = len(ncp.log)
                tk = asyncio.ensure_future(app._watchdog_feed())
                await asyncio.sleep(0.5)
                tk.cancel()
                exc = ""
                try:
                    await tk
                except BaseException as e:  # noqa
                    exc = type(e).__name__
                trace.append({"a": "cancelled", "exc": exc, "cmds": [x["name"] for x in ncp.log[n0:]]})
                continue
            if o == "cb":
                # the NCP sends frames on its own between two feeds
                t_ = ncp.t
                raised = 0
                try:
                    st = t_.EmberStatus.NETWORK_OPENED
                    ncp.callback("stackStatusHandler", [st], now=True)
                    aps = t_.EmberApsFrame(profileId=260, clusterId=6, sourceEndpoint=1, destinationEndpoint=1, options=t_.EmberApsOption.APS_OPTION_NONE,
                                           groupId=0, sequence=7)
                    ncp.callback("incomingMessageHandler", [t_.EmberIncomingMessageType.INCOMING_UNICAST, aps, 200, -40, 0x1234, 255, 255, b"\x01\x02"], now=True)
                    ncp.callback("messageSentHandler", [t_.EmberOutgoingMessageType.OUTGOING_DIRECT, 0x1234, aps, 9, t_.EmberStatus.SUCCESS, b""], now=True)
                except BaseException:  # noqa
                    raised = 1
                await asyncio.sleep(0)
                trace.append({"a": "callback", "raised": raised})
                continue
            arm(o)
            n0 = len(ncp.log)
            ev = {"a": "feed", "o": o, "raised": 0, "exc": "", "lost": -1}
            try:
                await app._watchdog_feed()
            except BaseException as e:  # noqa
                ev["raised"] = 1
                ev["exc"] = type(e).__name__
            ev["cmds"] = [x["name"] for x in ncp.log[n0:]]
            trace.append(ev)
        return trace
    return vloop.run(main)


def sig(meta, v, tr):
    e = tr[v.stuck_at - 1] if v.stuck_at and v.stuck_at <= len(tr) else {}
    k = 0
    for x in reversed(tr[1:(v.stuck_at or 1) - 1]):
        if x.get("o") == "ok":
            break
        k += 1
    return f"trace:Watchdog:{meta['ver']}:{v.invariant or 'unexplained'}:{e.get('o')}:after{k}failures:raised{e.get('raised')}"


def run(ctx: Ctx):
    c = consts()
    ctx.model_check("Watchdog", "MC_Watchdog", constants=c, invariants=INVS, constraints=("Bound7" if ctx.quick else "Bound",),
                    required_actions=("Feed", "Restart"), workers=8)
    L = 7 if ctx.quick else 9
    jobs, metas = [], []
    for ver, outs in (("v4", ("ok", "timeout", "ezsperr")), ("later", ("ok", "timeout", "ezsperr")), ("later", ("okbad", "timeout", "ezsperr", "timeout2"))):
        for n in range(1, L + 1):
            for seq in itertools.product(outs, repeat=n):
                top = L if len(outs) == 3 else L - 1          # the four-outcome alphabet (successful feed with a failing free-buffer status) one shorter
                if n != top:
                    continue      # only maximal sequences (prefixes are contained)
                jobs.append((ver, 0, list(seq), False))
    per = int(c["Period"])
    for prefix in range(per - 3, per + 2):
        for seq in itertools.product(("ok", "okbad", "timeout", "ezsperr", "timeout2"), repeat=3 if ctx.quick else 4):
            jobs.append(("later", prefix, list(seq), False))
    # runs of failures long enough to ask for a restart, started 6..0 feeds before the periodic read-and-clear feed (first and second period):
    # the run must be counted across that feed whatever the feed itself does
    for base in (per, 2 * per):
        for prefix in range(base - 7, base + 1):
            for a, b in itertools.product(("timeout", "ezsperr"), repeat=2):
                jobs.append(("later", prefix, [a, b, a, b, a, b, a], False))
            jobs.append(("later", prefix, ["timeout"] * 4 + ["ok"] + ["timeout"] * 6, False))
            jobs.append(("later", prefix, ["timeout2", "timeout", "timeout2", "timeout", "timeout2", "okbad", "timeout"], False))
    for seq in itertools.product(("ok", "timeout", "timeout2"), repeat=5 if ctx.quick else 6):
        jobs.append(("later", 0, list(seq) + ["timeout", "timeout", "ezsperr", "timeout", "timeout"], False))
    # frames the NCP sends on its own between failed feeds (no keep-alive outcome: the run of failures goes on)
    for seq in itertools.product(("timeout", "ezsperr", "cb"), repeat=5 if ctx.quick else 7):
        if "cb" not in seq or seq.count("cb") > 3:
            continue
        for ver in ("v4", "later"):
            jobs.append((ver, 0, list(seq) + ["timeout", "cb", "timeout", "timeout", "timeout", "timeout"], False))
    # feeds whose caller is cancelled mid-way, between failures and successes
    for seq in itertools.product(("timeout", "ezsperr", "cancel", "ok"), repeat=5 if ctx.quick else 7):
        if "cancel" not in seq or seq.count("cancel") > 3 or seq.count("ok") > 1:
            continue
        for ver in ("v4", "later"):
            jobs.append((ver, 0, list(seq) + ["timeout", "cancel", "timeout", "timeout", "timeout", "timeout"], False))
    # firmware whose counter reads carry fewer / more values than the host has counter types (the reply is an open-ended list)
    for nc in (1, 40, 43, 60):
        for seq in itertools.product(("ok", "timeout", "ezsperr"), repeat=4 if ctx.quick else 6):
            jobs.append((f"later:{nc}", per - 2 if nc == 43 else 0, list(seq) + ["timeout"] * 5, False))
    # the zigpy watchdog loop around the feed
    for ver in ("v4", "later", "later:43"):
        for seq in itertools.product(("ok", "timeout", "ezsperr"), repeat=4 if ctx.quick else 6):
            jobs.append((ver, 0, list(seq) + ["timeout"] * 6, True))
    metas = [{"ver": j[0], "prefix": j[1], "seq": j[2], "loop": j[3]} for j in jobs]
    traces = pmap(run_seq, jobs, chunksize=32)
    ctx.evaluations = len(traces)
    ctx.distinct_nontrivial = len({str(j) for j in jobs})
    ctx.rule = (f"every success/timeout/EZSP-error outcome sequence of length {L} for protocol version 4 and for a later version "
                f"(shorter sequences are prefixes), and of length L-1 over (successful feed whose free-buffer read returns an error status, timeout, EZSP error, free-buffer timeout); all sequences of length 3-4 incl. a failing free-buffer read after {per - 3}..{per + 1} "
                "successful feeds (counter-clear boundary); restart-length failure runs started 7..0 feeds before the first and second periodic feed; sequences through the zigpy watchdog loop; distinct = distinct (version, prefix, sequence, mode)")
    ctx.exhaustive = True
    ctx.add_sample({"meta": metas[5], "trace": traces[5]})
    ctx.validate_traces("Trace_Watchdog", traces, constants=c, invariants=INVS, metas=metas, label="watchdog", sig=sig)
    ctx.assumptions += ["zigpy.util.Requests shim (harness/bv/compat.py)", "simulated EZSP NCP answers keep-alives; no reply -> virtual 10 s command timeout",
                        "MAX_WATCHDOG_FAILURES and EZSP_COUNTERS_CLEAR_IN_WATCHDOG_PERIODS are read from the tree (configuration)"]


def replay(ctx: Ctx, data):
    m = data["replay"]["meta"]
    tr = run_seq((m["ver"], m["prefix"], m["seq"], m["loop"]))
    ctx.validate_traces("Trace_Watchdog", [tr], constants=consts(), invariants=INVS, metas=[m], label="watchdog", sig=sig)
    ctx.add_sample(tr)
