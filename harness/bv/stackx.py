"""Composed-stack checks (spec/Stack.tla, StackMC.tla, Trace_Stack.tla), shared by C06, C09 and C10.

StackMC composes the three host modules (EzspCmd over Gateway over AshHost, glued as the code glues them) with a
faulty line and a conforming NCP and is model-checked for the end-to-end statements.  The real stack (EZSP ->
uart.connect -> Gateway -> AshProtocol -> fake serial transport) is then run against the simulated ASH + EZSP NCP
along schedules of calls, per-frame line faults in both directions, timers, cancellations, callbacks, failures,
resets and re-negotiations; every run must be a behaviour of the composed model (Trace_Stack)."""
from __future__ import annotations

import random

from . import fullrig
from .c04 import pmap
from .core import Ctx

CMDS = ("nop", "getNodeId", "readCounters", "getConfig", "networkState", "getEui64")
FAULTS = ("deliver", "deliver", "deliver", "drop", "corrupt", "dup")


def consts():
    import bellows.ash as ash
    import bellows.ezsp.protocol as pr
    import bellows.uart as u
    return {"MaxAtt": str(int(ash.ACK_TIMEOUTS)), "ResetTimeout": str(int(u.RESET_TIMEOUT * 1000)), "SeqM": "256",
            "CmdTimeout": str(int(pr.EZSP_CMD_TIMEOUT * 1000)), "TMin": "400", "TMax": "3200"}


def mc_consts(**kw):
    import bellows.ash as ash
    c = {"MaxAtt": "2", "ResetTimeout": "5000", "SeqM": "4", "CmdTimeout": "10000", "Win": "1", "NCalls": "2",
         "CmdOf": "<- DefaultCmds", "NoCur": "<- McNoCur", "MaxFaults": "1", "MaxCb": "1", "MaxCancel": "0", "Failures": "{}"}
    c.update(kw)
    return c


INVS = ("OwnResponse", "NcpInOrder", "CallbacksAtMostOnce", "StoppedAfterRequest", "SilentAfterRequest", "RequestOnlyOnFailure",
        "SyncRefinesCmd", "NotRunningRaises")
ACTS = ("Call", "HTick", "CmdTimer", "NTimer", "THDeliver", "TNDeliver", "ToHost", "ToNcp")


def model_check(ctx: Ctx, flavour: str):
    """flavour 'commands': no failure, a callback, a cancellation; 'failure': ERROR / loss at any moment, liveness"""
    if flavour == "commands":
        ctx.model_check("StackMC", "MC_Stack_commands", constants=mc_consts(MaxCb="1", MaxCancel="0", MaxFaults="1", NCalls="2"),
                        invariants=INVS, constraints=("LineBound",), required_actions=ACTS + ("NcpCallback",))
        ctx.model_check("StackMC", "MC_Stack_cancel", constants=mc_consts(MaxCb="0", MaxCancel="1", MaxFaults="1", NCalls="2"),
                        invariants=INVS, constraints=("LineBound",), required_actions=ACTS + ("Cancel",))
        if not ctx.quick:
            ctx.model_check("StackMC", "MC_Stack_commands3", constants=mc_consts(MaxCb="1", MaxCancel="1", MaxFaults="1", NCalls="3"),
                            invariants=INVS, constraints=("LineBound",), timeout=7200)
    else:
        F = '{"error", "lost"}'
        ctx.model_check("StackMC", "MC_Stack_failure1", spec="FairSpec", constants=mc_consts(MaxCb="0", NCalls="1", Failures=F),
                        invariants=INVS, properties=("AllCallsEnd",), constraints=("LineBound",), required_actions=("Call", "NcpError", "Lost", "THDeliver"))
        ctx.model_check("StackMC", "MC_Stack_failure2", spec="FairSpec", constants=mc_consts(MaxCb="0", NCalls="2", MaxFaults="0", Failures=F),
                        invariants=INVS, properties=("AllCallsEnd",), constraints=("LineBound",), required_actions=("Call", "NcpError", "Lost", "HTick", "CmdTimer"))
        if not ctx.quick:
            ctx.model_check("StackMC", "MC_Stack_failure3", spec="FairSpec", constants=mc_consts(MaxCb="0", MaxCancel="1", NCalls="2", MaxFaults="1", Failures=F),
                            invariants=INVS, properties=("AllCallsEnd",), constraints=("LineBound",), timeout=7200)


# --------------------------------------------------------------------------- schedules on the real stack
def call_args(rig, cmd):
    t = rig.ezsp.types if hasattr(rig.ezsp, "types") else None
    import bellows.types as bt
    if cmd == "getConfig":
        return "getConfigurationValue", (bt.EzspConfigId.CONFIG_STACK_PROFILE,)
    return cmd, ()


def run_schedule(args):
    """args = (version, win, registered, steps)"""
    ver, win, registered, steps = args

    async def script(r):
        import bellows.types as bt
        nid = [0]
        if registered:
            await r.register()

        async def pump(n):
            for _ in range(n):
                if r.h2n:
                    await r.toncp()
                elif r.n2h:
                    await r.tohost()
                else:
                    break
        for st in steps:
            k = st[0]
            if k in ("bringup", "reset", "version") and (r.lost or r.tr.closed):
                continue                  # the port is gone: the application would build a new EZSP object
            if k == "bringup":            # reset handshake + version negotiation, fault-free
                nid[0] += 1
                await r.reset(nid[0])
                await pump(4)
                nid[0] += 1
                await r.do_version(nid[0])
                await pump(12)
            elif k == "reset":
                nid[0] += 1
                await r.reset(nid[0])
            elif k == "version":
                nid[0] += 1
                await r.do_version(nid[0])
            elif k == "call":
                nid[0] += 1
                name, a = call_args(r, st[1])
                await r.call(nid[0], name, a)
            elif k == "cancel":
                live = [int(x[1:]) for x, t in r.tasks.items() if x.startswith("c") and not t.done()]
                if live:
                    await r.cancel(live[st[1] % len(live)])
            elif k == "toncp":
                await r.toncp(st[1])
            elif k == "tohost":
                await r.tohost(st[1], count=st[2] if len(st) > 2 else 1)
            elif k == "timer":
                await r.timer()
            elif k == "ntick":
                r.ntick()
            elif k == "cb":
                if not r.ncp.negotiated and ver >= 14:
                    continue              # before negotiation the host reads callbacks with the version-4 tables: a 4-byte status would leave
                                          # surplus bytes and the value comparison (CRC of the payload) would not apply
                st_ty = list(r.ncp.cmds["stackStatusHandler"][2].values())[0]
                r.ncp_callback("stackStatusHandler", [st_ty(0x90 if st_ty is not bt.sl_Status else 0x0090 & 0xFF)])
                await r.settle()
            elif k == "noreply":          # the NCP's EZSP layer stays silent for the next n commands
                r.ncp.script["*"] = ["noreply"] * st[1]
            elif k == "error":
                r.ncp_frame({"type": "ERROR", "ver": 2, "code": st[1]})
            elif k == "rstack":
                r.ncp_frame({"type": "RSTACK", "ver": 2, "code": st[1]})
            elif k == "lose":
                await r.lose(st[1])
            elif k == "close":
                await r.close()
            elif k == "pump":
                await pump(st[1])
            elif k == "register":
                await r.register()
            elif k == "rstreply":         # how the NCP answers an RST from now on: None = not at all, else the RSTACK code
                r.rst_reply = st[1]
            elif k == "quiesce":          # fault-free service until every call has ended (a reset is only modelled from a quiet stack)
                for _ in range(400):
                    if r.h2n:
                        await r.toncp()
                    elif r.n2h and not r.lost and not r.tr.closed:
                        await r.tohost()
                    elif any(not t.done() for t in r.tasks.values()) and r.next_timer() is not None:
                        await r.timer()
                    else:
                        break
    return fullrig.run(script, ver, win)


def gen_schedules(rng: random.Random, quick: bool, flavour: str):
    """-> list of (version, win, registered, steps)"""
    out = []
    versions = list(range(4, 15))
    # fault-free and single-fault bring-up + a few commands, every version
    for ver in versions:
        base = [("bringup",), ("call", "nop"), ("call", "getNodeId"), ("call", "readCounters"), ("pump", 30)]
        out.append((ver, 1 + ver % 3, True, base))
        for k in range(0, 10 if quick else 16, 1 if not quick else 2):
            for f in ("drop", "corrupt", "dup"):
                for d in ("toncp", "tohost"):
                    steps = [("bringup",), ("call", "getNodeId"), ("call", "nop"), ("call", "getConfig")]
                    for i in range(24):
                        dirn = "toncp" if i % 2 == 0 else "tohost"
                        steps.append((dirn, f if (dirn == d and i // 2 == k) else "deliver"))
                    if (ver + k) % (3 if quick else 1) == 0:
                        out.append((ver, 1 + (ver + k) % 3, True, steps))
    n = (60 if quick else 8000)
    for i in range(n):
        ver = rng.choice(versions)
        steps = [("bringup",)]
        L = rng.randint(15, 60)
        failed = False
        for _ in range(L):
            x = rng.random()
            if x < 0.18:
                steps.append(("call", rng.choice(CMDS)))
            elif x < 0.45:
                steps.append(("toncp", rng.choice(FAULTS)))
            elif x < 0.72:
                steps.append(("tohost", rng.choice(FAULTS), rng.choice((1, 1, 1, 2))))
            elif x < 0.80:
                steps.append(("timer",))
            elif x < 0.84:
                steps.append(("ntick",))
            elif x < 0.88:
                steps.append(("cb",))
            elif x < 0.91 and flavour != "failure":
                steps.append(("cancel", rng.randrange(4)))
            elif x < 0.93:
                steps.append(("noreply", rng.randint(1, 2)))
            elif x < 0.95 and flavour != "commands" and not failed:
                failed = True
                steps.append(rng.choice((("error", rng.choice((2, 0x51, 0x80))), ("rstack", rng.choice((2, 1, 0x0B, 0x51))),
                                         ("lose", "exc"), ("lose", "eof"), ("close",))))
            elif x < 0.97:
                steps.append(("quiesce",))
                steps.append(("bringup",))
            else:
                steps.append(("pump", rng.randint(1, 8)))
        out.append((ver, rng.randint(1, 3), rng.random() < 0.85, steps))
    if flavour != "commands":
        # each failure kind right after each of the first wire steps of a two-command workload
        for ver in (4, 7, 8, 13, 14) if quick else versions:
            for kind in (("error", 2), ("error", 0x51), ("rstack", 2), ("rstack", 0x0B), ("lose", "exc"), ("lose", "eof"), ("close",)):
                for k in range(0, 8):
                    for reg in (True, False):
                        steps = [("bringup",), ("call", "getNodeId"), ("call", "nop")]
                        for i in range(k):
                            steps.append(("toncp", "deliver") if i % 2 == 0 else ("tohost", "deliver"))
                        steps.append(kind)
                        steps += [("pump", 6), ("call", "nop"), ("pump", 4)]
                        out.append((ver, 1, reg, steps))
        # a reset that times out against an NCP that does not answer, then the NCP is healthy again: the next reset must write a new RST and complete
        for ver in (4, 8, 14) if quick else versions:
            for reg in (True, False):
                for mid in ((), (("call", "nop"),), (("timer",),)):
                    for reply2 in (0x0B, None, 0x02):
                        steps = [("bringup",), ("call", "getNodeId"), ("pump", 8), ("rstreply", None), ("reset",), ("toncp", "deliver"), ("timer",), ("timer",)]
                        steps += list(mid) + [("rstreply", reply2), ("reset",), ("toncp", "deliver"), ("tohost", "deliver"), ("timer",), ("version",), ("pump", 12),
                                              ("call", "nop"), ("pump", 6)]
                        out.append((ver, 1, reg, steps))
        # a failure while nobody is registered is only logged; once the application has registered, the next failure must be reported
        for ver in (4, 8, 14) if quick else versions:
            for first in (("error", 2), ("error", 0x51), ("rstack", 2), ("silent",)):
                for second in (("error", 2), ("error", 0x80), ("rstack", 6), ("lose", "exc"), ("lose", "eof")):
                    for k in (0, 2, 4):
                        steps = [("bringup",), ("call", "getNodeId")]
                        for i in range(k):
                            steps.append(("toncp", "deliver") if i % 2 == 0 else ("tohost", "deliver"))
                        if first == ("silent",):
                            steps += [("noreply", 3), ("call", "nop"), ("toncp", "drop"), ("timer",), ("toncp", "drop"), ("timer",), ("toncp", "drop"),
                                      ("timer",), ("toncp", "drop"), ("timer",), ("toncp", "drop"), ("timer",)]
                        else:
                            steps += [first, ("pump", 6)]
                        steps += [("call", "nop"), ("pump", 2), ("register",), second, ("pump", 6), ("call", "nop"), ("pump", 4)]
                        out.append((ver, 1, False, steps))
    return out


def sig(meta, v, tr):
    e = tr[v.stuck_at - 1] if v.stuck_at and v.stuck_at <= len(tr) else {}
    return f"trace:Stack:{v.invariant or 'unexplained'}:{e.get('a')}:" + ",".join(o.get("o", "") for o in (e.get("out") or [])[:4])


def run_traces(ctx: Ctx, flavour: str):
    rng = random.Random(ctx.seed * 7919 + (1 if flavour == "commands" else 2))
    scheds = gen_schedules(rng, ctx.quick, flavour)
    traces = pmap(run_schedule, scheds, chunksize=4)
    ctx.notes.setdefault("stack_runs", 0)
    ctx.notes["stack_runs"] += len(traces)
    ctx.notes["stack_rule"] = ("composed-stack runs (real EZSP / Gateway / AshProtocol vs simulated ASH + EZSP NCP): per version 4..14 bring-up + commands with a "
                               "single drop / corruption / duplication at each of the first frames in either direction; random schedules of calls, per-frame "
                               "line faults, back-to-back reads, timers, callbacks, cancellations, silent NCP, re-negotiation"
                               + ("" if flavour == "commands" else "; every failure kind after each of the first wire steps, registered or not"))
    metas = [[s[0], s[1], s[2], [list(x) for x in s[3]]] for s in scheds]
    ctx.add_sample({"stack_case": metas[1], "trace": traces[1][:10]})
    res = ctx.validate_traces("Trace_Stack", traces, constants=consts(), invariants=("SilentAfterRequest", "StoppedAfterRequest"),
                              metas=metas, label=f"composed stack ({flavour})", sig=sig)
    good = [traces[v.index] for v in res.verdicts if v.accepted]
    if good:
        binding_selftest(ctx, good)
    return len(traces)


def binding_selftest(ctx: Ctx, traces):
    """The trace specification must bind: corrupting one recorded field of an accepted run, or removing one observed output,
    must make TLC reject it (machinery check, never a verdict on the code)."""
    import copy
    from . import tlc as T
    from . import trace as TR
    muts = []
    for tr in traces:
        if len(muts) >= 8:
            break
        idx = [i for i, e in enumerate(tr) if any(o["o"] == "write" and o["f"]["type"] == "DATA" for o in e["out"])]
        cd = [i for i, e in enumerate(tr) if any(o["o"] == "cdone" and o["res"] == "ok" for o in e["out"])]
        if len(idx) < 2 or not cd:
            continue
        a = copy.deepcopy(tr)                     # a request leaves with another sequence number
        o = next(o for o in a[idx[1]]["out"] if o["o"] == "write" and o["f"]["type"] == "DATA")
        o["f"]["pl"]["seq"] = (o["f"]["pl"]["seq"] + 1) % 256
        b = copy.deepcopy(tr)                     # a call returns another value than its response carried
        o = next(o for o in b[cd[0]]["out"] if o["o"] == "cdone" and o["res"] == "ok")
        o["val"] = (o["val"] + 1) % 1000
        c = copy.deepcopy(tr)                     # an acknowledgement / frame the model demands was never written
        c[idx[1]]["out"] = [o for o in c[idx[1]]["out"] if o["o"] != "write"]
        d = copy.deepcopy(tr)                     # a frame number is re-used
        o = next(o for o in d[idx[1]]["out"] if o["o"] == "write" and o["f"]["type"] == "DATA")
        o["f"]["frm"] = (o["f"]["frm"] + 7) % 8
        muts += [a, b, c, d]
    if not muts:
        raise T.MachineryError("binding self-test: no suitable accepted run")
    r = TR.validate("Trace_Stack", muts, workdir=ctx.workdir, constants=consts(), invariants=("SilentAfterRequest", "StoppedAfterRequest"))
    ok = [v for v in r.verdicts if v.accepted]
    if ok:
        raise T.MachineryError(f"binding self-test: {len(ok)} of {len(muts)} corrupted runs were accepted by Trace_Stack")
    ctx.notes["stack_binding_selftest"] = f"{len(muts)} corrupted runs (sequence number, returned value, missing write, frame number), all rejected"


def replay(ctx: Ctx, data):
    m = data["replay"]["meta"]
    tr = run_schedule((m[0], m[1], m[2], [tuple(x) for x in m[3]]))
    ctx.validate_traces("Trace_Stack", [tr], constants=consts(), invariants=("SilentAfterRequest", "StoppedAfterRequest"),
                        metas=[m], label="composed stack", sig=sig)
    ctx.add_sample(tr[:30])
