"""C12 - a unicast is reported delivered only on its own delivery confirmation.

spec/SendPacket.tla is an observer over send_packet runs (every clause an enabling condition); SendPacketMC checks an
abstract model of send_packet for two concurrent requests against an NCP answering with any status class and emitting
arbitrary confirmations.  The real ControllerApplication.send_packet runs over the real EZSP for every protocol version
4..14 against the simulated NCP: concurrent packets (unicast with / without source route or extended timeout,
IEEE-addressed, multicast, broadcast) x enqueue-status sequences x confirmation timing, duplication and mismatch; TLC
validates each run (Trace_SendPacket)."""
from __future__ import annotations

import asyncio
import itertools

from . import apprig, compat, vloop
from .c04 import pmap
from .core import Ctx


def status_for(ncp, cls, rot):
    """concrete enqueue status of the version for an abstract class"""
    t = ncp.t
    if ncp.version >= 14:
        s = t.sl_Status
        return {"ok": s.OK,
                "busy": (s.ZIGBEE_MAX_MESSAGE_LIMIT_REACHED, s.TRANSMIT_BUSY, s.ALLOCATION_FAILED)[rot % 3],
                "refuse": (s.FAIL, s.NETWORK_DOWN, s.INVALID_PARAMETER, s.ZIGBEE_DELIVERY_FAILED)[rot % 4]}[cls]
    e = t.EmberStatus
    return {"ok": e.SUCCESS,
            "busy": (e.MAX_MESSAGE_LIMIT_REACHED, e.NETWORK_BUSY, e.NO_BUFFERS)[rot % 3],
            "refuse": (e.ERR_FATAL, e.NETWORK_DOWN, e.INVALID_CALL, e.MESSAGE_TOO_LONG)[rot % 4]}[cls]


def run_case(case):
    """case = dict(ver, reqs=[{kind, dst, ans:[classes], confs:[(delay_ms|'early', dst_delta, tag_delta, ok)], sr, ext, ieee}], stagger)"""
    ver = case["ver"]

    async def main(loop):
        import zigpy.types as zt
        import bellows.zigbee.application as A
        app, ezsp, gw, ncp = await apprig.make_app(loop, ver, source_routing=case.get("source_routing", False))
        t = ncp.t
        events = [{"a": "cfg", "delays": [int(d * 1000) for d in A.RETRY_DELAYS], "ctimeout": int(A.APS_ACK_TIMEOUT * 1000), "ver": ver}]

        def ev(d):
            d["t"] = loop.ms
            events.append(d)
        # devices
        for i, rq in enumerate(case["reqs"]):
            if rq["kind"] == "unicast":
                ieee = zt.EUI64.convert("00:11:22:33:44:55:66:%02x" % (i + 1))
                try:
                    app.add_device(ieee, rq["dst"])
                except Exception:
                    pass
        script = {}     # (dst, tag) -> iterator of answers ; keyed lazily by dst only until the tag is known
        by_dst = {rq["dst"]: {"ans": list(rq["ans"]), "confs": list(rq["confs"]), "r": i + 1, "kind": rq["kind"]}
                  for i, rq in enumerate(case["reqs"])}
        rot = [case.get("rot", 0)]

        def conf_values(dst, tag, ok):
            aps = t.EmberApsFrame(profileId=260, clusterId=6, sourceEndpoint=1, destinationEndpoint=1,
                                  options=t.EmberApsOption.APS_OPTION_RETRY, groupId=0, sequence=1)
            if ver >= 14:
                st = t.sl_Status.OK if ok else t.sl_Status.ZIGBEE_DELIVERY_FAILED
                return [st, t.EmberOutgoingMessageType.OUTGOING_DIRECT, dst, aps, tag, b""]
            st = t.EmberStatus.SUCCESS if ok else t.EmberStatus.DELIVERY_FAILED
            return [t.EmberOutgoingMessageType.OUTGOING_DIRECT, dst, aps, tag, st, b""]

        def emit_conf(dst, tag, ok):
            ev({"a": "confirm", "dst": dst, "tag": tag, "ok": 1 if ok else 0})
            ncp.callback("messageSentHandler", conf_values(dst, tag, ok), now=True)

        def on_send(kind, args):
            if kind == "unicast":
                dst = int(args.get("indexOrDestination", args.get("nwk")))
                tag = int(args.get("messageTag", args.get("message_tag")))
            elif kind == "multicast":
                aps = args.get("apsFrame", args.get("aps_frame"))
                dst = int(aps.groupId)
                tag = int(args.get("messageTag", args.get("message_tag")))
            else:
                dst = int(args["destination"])
                tag = int(args.get("messageTag", args.get("message_tag")))
            info = by_dst.get(dst)
            cls = info["ans"].pop(0) if info and info["ans"] else "ok"
            rot[0] += 1
            st = status_for(ncp, cls, rot[0])
            r = info["r"] if info else 0
            # ta: the instant the NCP's answer reaches the host (a slow NCP answers `slow_send` ms after the command arrived) - a busy retry is
            # spaced from that instant
            ev({"a": "enqueue", "r": r, "x": dst, "tag": tag, "ans": cls, "ta": loop.ms + int(case.get("slow_send", 0))})
            # confirmations scripted relative to this (accepted) enqueue
            if info and cls == "ok":
                for (delay, dd, dt, ok) in info["confs"]:
                    if delay == "early":
                        emit_conf(dst + dd, (tag + dt) % (65536 if ver >= 14 else 256), ok)     # overtakes the enqueue answer
                    else:
                        # (version 14 carries a 16-bit tag in the confirmation: a tag that differs only above the low byte is another tag)
                        loop.call_later(delay / 1000.0, emit_conf, dst + dd, (tag + dt) % (65536 if ver >= 14 else 256), ok)
            return [st, 7]
        ncp.handlers["sendUnicast"] = lambda n, a: on_send("unicast", a)
        ncp.handlers["sendMulticast"] = lambda n, a: on_send("multicast", a)
        ncp.handlers["sendBroadcast"] = lambda n, a: on_send("broadcast", a)

        def setup_cmd(name):
            def h(n, a):
                if name == "setSourceRoute":
                    ev({"a": "setup", "x": int(a["destination"]), "cmd": name})
                    return None
                ieee = a.get("remoteEui64", a.get("eui64", a.get("newEui64")))
                x = next((rq["dst"] for i, rq in enumerate(case["reqs"]) if rq["kind"] == "unicast" and
                          str(ieee) == "00:11:22:33:44:55:66:%02x" % (i + 1)), -2)
                ev({"a": "setup", "x": x, "cmd": name})
                if name == "getExtendedTimeout":
                    return [t.Bool(False)]
                if name == "lookupNodeIdByEui64":
                    return [t.EmberNodeId(x if case.get("in_addr_table", True) else 0xFFFF)]
                return None
            return h
        for nm in ("setSourceRoute", "getExtendedTimeout", "lookupNodeIdByEui64", "setExtendedTimeout", "replaceAddressTableEntry"):
            if nm in ncp.cmds:
                ncp.handlers[nm] = setup_cmd(nm)
        ncp.config[int(t.EzspConfigId.CONFIG_ADDRESS_TABLE_SIZE)] = 8
        if case.get("slow_send"):
            for nm in ("sendUnicast", "sendMulticast", "sendBroadcast"):
                ncp.script[nm] = (lambda name, args, d=case["slow_send"] / 1000.0: ("late", d))
        if case.get("slow_setup"):
            # the NCP takes a while over every set-up command: a caller can be cancelled between two of them
            for nm in ("setSourceRoute", "getExtendedTimeout", "lookupNodeIdByEui64", "setExtendedTimeout", "getConfigurationValue",
                       "getAddressTableRemoteEui64", "setAddressTableRemoteEui64", "replaceAddressTableEntry", "getAddressTableInfo", "setAddressTableInfo"):
                if nm in ncp.cmds:
                    ncp.script[nm] = (lambda name, args, d=case["slow_setup"] / 1000.0: ("late", d))
        tasks = []

        def start(i, rq):
            r = i + 1
            if rq["kind"] == "unicast":
                if rq.get("ieee"):
                    dst = zt.AddrModeAddress(addr_mode=zt.AddrMode.IEEE, address=zt.EUI64.convert("00:11:22:33:44:55:66:%02x" % r))
                else:
                    dst = zt.AddrModeAddress(addr_mode=zt.AddrMode.NWK, address=zt.NWK(rq["dst"]))
            elif rq["kind"] == "multicast":
                dst = zt.AddrModeAddress(addr_mode=zt.AddrMode.Group, address=zt.Group(rq["dst"]))
            else:
                dst = zt.AddrModeAddress(addr_mode=zt.AddrMode.Broadcast, address=zt.BroadcastAddress(rq["dst"]))
            pkt = zt.ZigbeePacket(src=zt.AddrModeAddress(addr_mode=zt.AddrMode.NWK, address=zt.NWK(0)), src_ep=1, dst=dst, dst_ep=1,
                                  tsn=r, profile_id=260, cluster_id=6, data=zt.SerializableBytes(b"\x01\x02"),
                                  extended_timeout=bool(rq.get("ext")), source_route=[zt.NWK(0x2222)] if rq.get("sr") else None,
                                  radius=3, non_member_radius=3)

            async def call():
                ev({"a": "start", "r": r, "kind": rq["kind"], "dst": rq["dst"]})
                try:
                    await app.send_packet(pkt)
                    o = "ok"
                except asyncio.TimeoutError:
                    o = "TimeoutError"
                except BaseException as e:  # noqa
                    o = type(e).__name__
                ev({"a": "finish", "r": r, "o": o})
            tasks.append(asyncio.Task(call(), loop=loop, eager_start=True))
        hooks = []
        for i, rq in enumerate(case["reqs"]):
            delay = case.get("stagger", 0) * i
            if delay == 0:
                start(i, rq)
            else:
                hooks.append((loop.time() + delay / 1000.0, (lambda i=i, rq=rq: start(i, rq))))
        # callers cancelled at chosen instants (cancellation is an outcome too: nothing of the request may remain, later requests proceed)
        def cancel(i):
            if i < len(tasks) and not tasks[i].done():
                ev({"a": "cancel", "r": i + 1})
                tasks[i].cancel()
        for (i, at) in case.get("cancel", []):
            hooks.append((loop.time() + at / 1000.0, (lambda i=i: cancel(i))))
        # unsolicited confirmations
        for (at, dst, tag, ok) in case.get("unsolicited", []):
            hooks.append((loop.time() + at / 1000.0, (lambda dst=dst, tag=tag, ok=ok: emit_conf(dst, tag, ok))))
        done = await apprig.run_until_done(loop, tasks, limit_s=700, hooks=hooks)
        await apprig.settle(loop)
        unfinished = [i + 1 for i, tk in enumerate(tasks) if not tk.done()]
        events.append({"a": "end", "pending": len(app._pending), "unfinished": unfinished, "t": loop.ms})
        return events
    return vloop.run(main)


def sig(meta, v, tr):
    e = tr[v.stuck_at - 1] if v.stuck_at and v.stuck_at <= len(tr) else {}
    kinds = ",".join(r["kind"][0] + ("s" if r.get("sr") else "") + ("x" if r.get("ext") else "") + ("i" if r.get("ieee") else "") for r in meta["reqs"])
    return f"trace:SendPacket:{e.get('a')}:{e.get('o', e.get('ans', e.get('cmd', '')))}:reqs={kinds}"


def gen_cases(ctx):
    rng = ctx.rng
    cases = []
    answer_seqs = [["ok"], ["refuse"], ["busy", "ok"], ["busy", "busy", "ok"], ["busy", "busy", "busy"], ["busy", "refuse"]]
    conf_sets = [
        [(50, 0, 0, True)],                       # own confirmation, success
        [(50, 0, 0, False)],                      # own confirmation, failure
        [],                                       # none: timeout
        [(20, 0, 1, True), (60, 0, 0, True)],     # other tag first, then own
        [(20, 1, 0, True)],                       # other destination only: timeout
        [("early", 0, 0, True)],                  # overtakes the enqueue answer
        [("early", 0, 0, False)],
        [(30, 0, 0, True), (35, 0, 0, True)],     # duplicate
        [(30, 0, 0, False), (40, 0, 0, True)],    # failure then success: the first counts
        [(20, 0, 255, True), (25, 255, 0, True)],
        [(20, 0, 256, True)],                     # version 14: the same low byte, another 16-bit tag (earlier versions: the own tag again)
        [(20, 0, 512, False), (40, 0, 0, True)],
    ]
    k = 0
    for ver in tuple(range(4, 15)) + (15, 16):      # NCPs newer than the newest known version run on the newest tables
        for ans in answer_seqs:
            for confs in conf_sets:
                k += 1
                if ctx.quick and (k + ver) % 3:
                    continue
                for variant in ({}, {"sr": 1}, {"ext": 1}, {"ieee": 1}, {"sr": 1, "ext": 1}):
                    if (ctx.quick and variant and (k % 5)):
                        continue
                    cases.append({"ver": ver, "rot": k, "reqs": [dict(kind="unicast", dst=0x1234, ans=ans, confs=confs, **variant)]})
        # concurrent mixes
        mixes = [
            [dict(kind="unicast", dst=0x1111, ans=["ok"], confs=[(80, 0, 0, True)], sr=1, ext=1),
             dict(kind="unicast", dst=0x2222, ans=["busy", "ok"], confs=[(10, 0, 0, True)], sr=1),
             dict(kind="multicast", dst=0x0033, ans=["ok"], confs=[])],
            [dict(kind="unicast", dst=0x1111, ans=["ok"], confs=[]),
             dict(kind="unicast", dst=0x2222, ans=["ok"], confs=[(40, 0x1111 - 0x2222, 0, True), (90, 0, 0, False)]),
             dict(kind="broadcast", dst=0xFFFD, ans=["busy", "busy", "ok"], confs=[])],
            [dict(kind="unicast", dst=0x1111, ans=["busy", "busy", "busy"], confs=[], ext=1),
             dict(kind="unicast", dst=0x2222, ans=["refuse"], confs=[], sr=1),
             dict(kind="multicast", dst=0x0044, ans=["refuse"], confs=[])],
            [dict(kind="broadcast", dst=0xFFFC, ans=["ok"], confs=[]),
             dict(kind="unicast", dst=0x3333, ans=["ok"], confs=[("early", 0, 0, True)], ieee=1, ext=1)],
        ]
        for m in mixes:
            for stagger in (0, 300, 700):
                cases.append({"ver": ver, "rot": ver, "reqs": m, "stagger": stagger,
                              "unsolicited": [(10, 0x9999, 3, True), (650, 0x1111, 200, False)]})
        # cancellation of a caller at every stage (waiting for the lock behind another request, busy delay, waiting for the confirmation),
        # followed by a further request that must go through
        for ans, confs in ((["ok"], []), (["busy", "busy", "ok"], [(50, 0, 0, True)]), (["busy", "ok"], []), (["ok"], [(3000, 0, 0, True)])):
            for at in (0, 1, 250, 600, 1100, 2500):
                for variant in ({}, {"sr": 1, "ext": 1}):
                    if ctx.quick and (at + ver) % 2:
                        continue
                    reqs = [dict(kind="unicast", dst=0x1111, ans=list(ans), confs=list(confs), **variant),
                            dict(kind="unicast", dst=0x2222, ans=["busy", "ok"], confs=[(30, 0, 0, True)], sr=1),
                            dict(kind="unicast", dst=0x3333, ans=["ok"], confs=[(30, 0, 0, True)])]
                    for who in (0, 1):
                        cases.append({"ver": ver, "rot": at + ver, "reqs": reqs, "stagger": 0 if who == 0 else 5, "cancel": [(who, at)],
                                      "late": 1})
        # the same with an NCP that takes 10 ms over every set-up command: the caller is cancelled between two set-up commands of its request
        # while the next request waits for the lock - nothing of the cancelled request may go on afterwards
        for at in (5, 15, 25, 35, 45):
            for in_tab in (True, False):
                if ctx.quick and (at // 10 + ver + int(in_tab)) % 2:
                    continue
                reqs = [dict(kind="unicast", dst=0x1111, ans=["ok"], confs=[(30, 0, 0, True)], sr=1, ext=1),
                        dict(kind="unicast", dst=0x2222, ans=["ok"], confs=[(30, 0, 0, True)], sr=1),
                        dict(kind="unicast", dst=0x3333, ans=["ok"], confs=[(30, 0, 0, True)], ext=1)]
                cases.append({"ver": ver, "rot": at + ver, "reqs": reqs, "stagger": 2, "cancel": [(0, at)], "late": 1, "slow_setup": 10, "in_addr_table": in_tab})
        # an NCP that takes 800 ms over every send command: the spaced retries are spaced from its busy ANSWER
        for ans in (["busy", "ok"], ["busy", "busy", "ok"], ["busy", "busy", "busy"]):
            for variant in ({}, {"sr": 1}):
                if ctx.quick and (len(ans) + ver + len(variant)) % 2:
                    continue
                reqs = [dict(kind="unicast", dst=0x1111, ans=list(ans), confs=[(50, 0, 0, True)], **variant),
                        dict(kind="multicast", dst=0x0031, ans=["busy", "ok"], confs=[])]
                cases.append({"ver": ver, "rot": ver, "reqs": reqs, "stagger": 100, "slow_send": 800})
        for _ in range(4 if ctx.quick else 600):
            n = rng.randint(2, 4)
            reqs = []
            for i in range(n):
                kind = rng.choice(("unicast", "unicast", "unicast", "multicast", "broadcast"))
                dst = {"unicast": 0x1000 + 0x111 * (i + 1), "multicast": 0x0030 + i, "broadcast": 0xFFFC + (i % 3)}[kind]
                if any(q["dst"] == dst for q in reqs):
                    kind, dst = "multicast", 0x0030 + i
                reqs.append(dict(kind=kind, dst=dst, ans=rng.choice(answer_seqs), confs=rng.choice(conf_sets) if kind == "unicast" else [],
                                 sr=int(rng.random() < 0.4), ext=int(rng.random() < 0.4), ieee=int(rng.random() < 0.2)))
            cases.append({"ver": ver, "rot": rng.randrange(100), "reqs": reqs, "stagger": rng.choice((0, 100, 499, 500, 1200)),
                          "in_addr_table": rng.random() < 0.7, "source_routing": rng.random() < 0.3,
                          "cancel": [(rng.randrange(n), rng.choice((0, 1, 300, 600, 1500, 5000)))] if rng.random() < 0.3 else []})
    return cases


def run(ctx: Ctx):
    ctx.model_check("SendPacketMC", "MC_SendPacket", constants={"Kinds": '{"unicast", "multicast"}'},
                    invariants=("ObserverAccepts", "OkOnlyOnOwnConfirm", "LockDiscipline"),
                    required_actions=("Begin", "Lock", "DoSetup", "Send", "BusyDelay", "NcpConfirm", "ConfirmTimeoutFires", "Return"))
    cases = gen_cases(ctx)
    traces = pmap(run_case, cases, chunksize=8)
    ctx.evaluations = len(traces)
    ctx.distinct_nontrivial = len({str(c) for c in cases})
    ctx.rule = ("per protocol version 4..14: single unicasts (plain, source route, extended timeout, IEEE-addressed) x enqueue-status sequences (accepted, refused, "
                "busy then accepted, busy to exhaustion, busy then refused; concrete busy/refusal statuses rotated) x confirmation patterns (own success / failure, none, "
                "foreign tag, foreign destination, overtaking the enqueue answer, duplicate, failure then success); concurrent mixes of unicast / multicast / broadcast "
                "started together or staggered, with unsolicited confirmations; callers cancelled at every stage followed by further requests; random mixes; distinct = distinct case")
    ctx.add_sample({"case": cases[5], "trace": traces[5]})
    ctx.validate_traces("Trace_SendPacket", traces, metas=cases, label="send_packet", sig=sig)
    # the wire layouts of the structures this procedure exchanges with the NCP, pinned from the EZSP reference (spec/WireLayout.tla)
    from . import wirelayout
    wirelayout.check(ctx, ['EmberApsFrame'])
    ctx.exhaustive = False
    ctx.assumptions += ["zigpy.util.Requests shim (harness/bv/compat.py); simulated EZSP NCP (enqueue answers, messageSentHandler callbacks in the version's field order)",
                        "RETRY_DELAYS and APS_ACK_TIMEOUT are read from the tree (configuration); 'busy' statuses are the max-message-limit / network-busy / no-buffers "
                        "family (legacy) and their unified counterparts (v14)"]


def replay(ctx: Ctx, data):
    m = data["replay"]["meta"]
    for rq in m["reqs"]:
        rq["confs"] = [tuple(c) for c in rq["confs"]]
    m["unsolicited"] = [tuple(u) for u in m.get("unsolicited", [])]
    m["cancel"] = [tuple(u) for u in m.get("cancel", [])]
    tr = run_case(m)
    ctx.validate_traces("Trace_SendPacket", [tr], metas=[m], label="send_packet", sig=sig)
    ctx.add_sample(tr)
